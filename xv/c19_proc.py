"""C19 part 3 - process-level subset: the same property observed at `python -m xonsh s.xsh` and
`python -m xonsh -c CODE` (through main.py's switches --no-script-cache / --cache-everything).

A fixed, completely enumerated list of three-step histories  run ; <one event> ; run  for every event
of a small alphabet.  Observed: (stdout, exit status, last stderr line when the status is non-zero)
of each cached run == those of an uncached process (`--no-script-cache`, empty data dir) on the same
source; damaged / foreign entries are valid again after the second run."""

import os
import shutil
import subprocess
import sys

from . import common
from . import c19_core as core

P_BODIES = [
    "x0 = 1\nprint('M0')\n",
    "print('M1')\necho -l\nx1 = 1\n",
    "print('M2')\nraise KeyError('k2')\n",
]
P_CODES = ["print('ka'); 7", "print('KA'); 7"]

# link-edit1: every run goes through the symlink l.xsh -> s.xsh (own lstat mtime old), the edit hits the target;
# hdr-<line>+<how>: version stamps that properly extend / are a proper prefix of the running one
SCRIPT_EVENTS = ["none", "edit1", "edit2", "touch+1", "link-edit1", "hdr-xonsh", "hdr-py", "hdr-xonsh+digit", "hdr-py+prefix", "trunc-header", "trunc-code", "zero-tail", "empty", "no-script-cache-after-edit"]
CODE_EVENTS = ["none", "other-case", "hdr-py", "hdr-xonsh+dev", "trunc-code"]

# the child pins the parser table the parent validated with tables.ensure_tables() (no lock, no re-validation)
BOOT = (
    "import sys, os; import xonsh; from xv import tables; p = os.path.join(tables.TABDIR, 'parser_table.py'); "
    "os.path.exists(p) and tables._load_as('xonsh.parser_table', p); from xonsh.main import main; main()"
)
_REFS = {}  # uncached process runs, computed once in the parent: ("script", body) / ("code", text) -> outcome


def _ref_item(item):
    kind, x = item
    root = common.scratch_dir("c19r")
    home, data, src = (os.path.join(root, d) for d in ("home", "data", "src"))
    for d in (home, data, src):
        os.makedirs(d)
    if kind == "script":
        with open(os.path.join(src, "s.xsh"), "w") as f:
            f.write(P_BODIES[x])
        r = _xonsh(["--no-script-cache", "s.xsh"], src, home, data)
    else:
        r = _xonsh(["--no-script-cache", "-c", x], src, home, data)
    left = _entries(data)
    shutil.rmtree(root, ignore_errors=True)
    if left:
        raise common.ToolError(f"the uncached reference process wrote cache entries: {left}")
    return r


def _xonsh(args, cwd, home, data):
    env = {
        "PATH": "/usr/bin:/bin",
        "HOME": home,
        "XDG_CONFIG_HOME": home,
        "XDG_DATA_HOME": home,
        "XDG_CACHE_HOME": home,
        "XONSH_DATA_DIR": data,
        "XONSH_CACHE_DIR": home,
        "PYTHONPATH": f"{common.REPO}:{common.VERIF}",
        "XV_REPO": common.REPO,
        "PYTHONHASHSEED": "0",
        "PYTHONDONTWRITEBYTECODE": "1",
        "LC_ALL": "C.UTF-8",
        "LANG": "C.UTF-8",
        "TERM": "dumb",
        "XONSH_SHOW_TRACEBACK": "0",
    }
    try:
        p = subprocess.run([sys.executable, "-B", "-c", BOOT, "--no-rc", *args], cwd=cwd, env=env, stdin=subprocess.DEVNULL, capture_output=True, text=True, timeout=100)
    except subprocess.TimeoutExpired:
        raise common.ToolError(f"xonsh process timed out: {args}") from None
    last = ""
    if p.returncode != 0:
        lines = [ln for ln in p.stderr.strip().splitlines() if ln.strip()]
        last = lines[-1][:160] if lines else ""
    return {"stdout": p.stdout, "rc": p.returncode, "err": last}


def _entries(data):
    out = []
    for dp, _d, fns in os.walk(data):
        for n in fns:
            out.append(os.path.join(dp, n))
    return sorted(out)


def _damage(path, ev):
    with open(path, "rb") as f:
        data = f.read()
    h = core.header_len(data)
    st = os.stat(path)
    if ev.startswith("hdr-"):
        new = core.foreign_header(ev[4:]) + core.foreign_payload()
    elif ev == "trunc-header":
        new = data[: h - 3]
    elif ev == "trunc-code":
        new = data[: h + (len(data) - h) // 2]
    elif ev == "zero-tail":
        k = h + (len(data) - h) // 2
        new = data[:k] + b"\0" * (len(data) - k)
    elif ev == "empty":
        new = b""
    else:
        raise AssertionError(ev)
    with open(path, "wb") as f:
        f.write(new)
    os.utime(path, ns=(st.st_mtime_ns, st.st_mtime_ns))


def _scenario(item):
    kind, ev = item
    root = common.scratch_dir("c19p")
    home, data, refdata, src = (os.path.join(root, d) for d in ("home", "data", "refdata", "src"))
    for d in (home, data, refdata, src):
        os.makedirs(d)
    viols = []
    runs = 0

    def V(sig, step, observed, expected):
        viols.append({"key": f"process-level:{kind}:{ev}:{sig}", "clause": "a cached process run equals an uncached process run", "case": {"part": 3, "kind": kind, "event": ev, "step": step}, "observed": observed, "expected": expected})

    def judge(step, obs, exp):
        if obs != exp:
            sig = "executed-foreign-entry" if core.FOREIGN_MARK in obs["stdout"] else ("fatal" if obs["rc"] != exp["rc"] else "output-differs")
            V(sig, step, obs, exp)

    def ref(key):
        return _REFS[key]

    def write(body, tick):
        p = os.path.join(src, "s.xsh")
        with open(p, "w") as f:
            f.write(P_BODIES[body])
        core.utime_tick(p, tick)

    def stamp(tick):
        for p in _entries(data):
            if core.Rig.get_tick(p) is None:
                core.utime_tick(p, tick)

    if kind == "script":
        write(0, 10)
        name = "s.xsh"
        if ev.startswith("link-"):
            name = "l.xsh"
            os.symlink("s.xsh", os.path.join(src, name))
            core.utime_tick(os.path.join(src, name), core.LINK_TICK, follow_symlinks=False)
        args1 = args2 = [name]
        o1 = _xonsh(args1, src, home, data)
        runs += 1
        judge(1, o1, ref(("script", 0)))
        ents = _entries(data)
        if len(ents) != 1 or core.entry_kind(ents[0]) != "ok":
            raise common.ToolError(f"process-level caching run left entries {ents}: part 3 would be vacuous")
        stamp(10)
        now = 10
        body = 0
        if ev in ("edit1", "edit2", "no-script-cache-after-edit", "link-edit1"):
            now = 12
            body = 2 if ev == "edit2" else 1
            write(body, now)
            if ev == "no-script-cache-after-edit":
                args2 = ["--no-script-cache", "s.xsh"]
        elif ev == "touch+1":
            now = 11
            write(0, now)
        elif ev != "none":
            _damage(ents[0], ev)
        o2 = _xonsh(args2, src, home, data)
        runs += 1
        judge(2, o2, ref(("script", body)))
        stamp(now)
        if ev not in ("none", "edit1", "edit2", "touch+1", "no-script-cache-after-edit", "link-edit1") and core.entry_kind(ents[0]) != "ok":
            V("left-" + core.entry_kind(ents[0]), 2, core.entry_kind(ents[0]), "ok")
        o3 = _xonsh([name], src, home, data)
        runs += 1
        judge(3, o3, ref(("script", body)))
    else:
        c1 = P_CODES[0]
        o1 = _xonsh(["--cache-everything", "-c", c1], src, home, data)
        runs += 1
        e1 = ref(("code", c1))
        judge(1, o1, e1)
        ents = _entries(data)
        if len(ents) != 1 or core.entry_kind(ents[0]) != "ok":
            raise common.ToolError(f"process-level -c caching run left entries {ents}: part 3 would be vacuous")
        c2 = P_CODES[1] if ev == "other-case" else c1
        if ev not in ("none", "other-case"):
            _damage(ents[0], ev)
        o2 = _xonsh(["--cache-everything", "-c", c2], src, home, data)
        runs += 1
        judge(2, o2, ref(("code", c2)))
        if ev not in ("none", "other-case") and core.entry_kind(ents[0]) != "ok":
            V("left-" + core.entry_kind(ents[0]), 2, core.entry_kind(ents[0]), "ok")
        o3 = _xonsh(["--cache-everything", "-c", c1], src, home, data)
        runs += 1
        judge(3, o3, e1)
    shutil.rmtree(root, ignore_errors=True)
    return {"viols": viols, "runs": runs}


QUICK = {("script", "none"), ("script", "edit1"), ("script", "link-edit1"), ("script", "hdr-py"), ("script", "trunc-code"), ("script", "zero-tail"), ("script", "no-script-cache-after-edit"), ("code", "other-case"), ("code", "hdr-py")}


def items(thorough=True):
    its = [("script", e) for e in SCRIPT_EVENTS] + [("code", e) for e in CODE_EVENTS]
    return its if thorough else [i for i in its if i in QUICK]


def run_part(ctx):
    its = items(ctx.thorough)
    rk = [("script", i) for i in range(len(P_BODIES))] + [("code", c) for c in P_CODES]
    for k, r in zip(rk, common.pmap(_ref_item, rk, ctx.jobs, chunk=1, seed=ctx.seed)):
        _REFS[k] = r
    if len({common.jdump(r) for r in _REFS.values()}) != len(rk):
        raise common.ToolError(f"process-level reference outcomes are not pairwise distinct: {_REFS}")
    res = common.pmap(_scenario, its, ctx.jobs, chunk=1, seed=ctx.seed)
    n = 0
    for r in res:
        ctx.add_violations(r["viols"])
        n += r["runs"]
    n += len(rk)
    ctx.sample({"part": 3, "kind": "script", "event": "edit1", "meaning": "python -m xonsh s.xsh ; edit (+2 ticks) ; python -m xonsh s.xsh ; python -m xonsh s.xsh"})
    return {"scenarios": len(its), "process_runs": n, "events": [list(i) for i in its]}


def replay(rec):
    import json

    c = rec["case"]
    rk = [("script", i) for i in range(len(P_BODIES))] + [("code", x) for x in P_CODES]
    for k in rk:
        _REFS[k] = _ref_item(k)
    r = _scenario((c["kind"], c["event"]))
    for v in r["viols"]:
        print("VIOLATION", v["key"], "step", v["case"]["step"])
        print("  observed:", json.dumps(v["observed"], sort_keys=True))
        print("  expected:", json.dumps(v["expected"], sort_keys=True))
    if not r["viols"]:
        print("no violation")
    return 1 if r["viols"] else 0
