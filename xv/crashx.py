"""crashx - crash-point, torn-write and failing-call enumeration at the Python file API.

The module under test gets `open`, `os` and `tempfile` rebound (in ITS namespace only) to shims that
log every file-system operation of a write history.  Files opened for writing are the real CPython
stack TextIOWrapper(BufferedWriter(TracedRaw)) so that *what reaches the kernel and when* is decided
by CPython's real buffering; each raw write / close / replace / unlink / mkstemp / open is one
numbered operation.  An Injector then, in a forked child working on a copy of the pre-state,
  crash(i)       os._exit() right before operation i           (what SIGKILL leaves behind)
  tear(i, k)     lets write i put only its first k bytes, then os._exit()
  fail(i, errno) makes operation i raise OSError(errno) and lets the code continue
  short(i, k)    lets write i accept only its first k bytes and RETURN k (a legal answer of write(2):
                 disk filling up, RLIMIT_FSIZE, a signal) - the code continues and must write the rest
"""

import errno
import io
import os
import tempfile as _tempfile

from .pysched import ShimModule

_real_open = open
_real_os = os


class Injector:
    def __init__(self, mode="record", index=None, arg=None):
        self.mode = mode  # record | crash | tear | fail
        self.index = index
        self.arg = arg
        self.n = 0
        self.log = []  # (kind, basename, extra)
        self.fired = False

    def op(self, kind, path, size=None):
        """Called before the operation.  Returns None or ('tear', k)."""
        i = self.n
        self.n += 1
        base = os.path.basename(str(path)) if path is not None else None
        self.log.append((kind, _stable_name(base), size))
        if self.mode == "record" or i != self.index:
            return None
        self.fired = True
        if self.mode == "crash":
            os._exit(77)
        if self.mode == "tear":
            return ("tear", self.arg)
        if self.mode == "short":
            return ("short", self.arg)
        if self.mode == "fail":
            raise OSError(self.arg, os.strerror(self.arg), str(path))
        return None


def _stable_name(base):
    if base and base.endswith(".json.tmp"):
        return "<tmp>.json.tmp"
    if base and base.endswith(".tmp"):
        return "<tmp>"
    return base


class TracedRaw(io.FileIO):
    def __init__(self, inj, name, mode, closefd=True, label=None):
        self._inj = inj
        self._label = label if label is not None else name
        super().__init__(name, mode, closefd=closefd)

    def write(self, b):
        act = self._inj.op("write", self._label, len(b))
        if act is not None:
            k = min(act[1], len(b))
            n = super().write(bytes(b)[:k])
            if act[0] == "short":
                return n
            os._exit(78)
        return super().write(b)

    def close(self):
        if not self.closed:
            self._inj.op("close", self._label)
        return super().close()


def make_shims(inj, stat_seam=False):
    """-> (open_shim, os_shim, tempfile_shim) bound to one Injector."""
    fdnames = {}

    def open_shim(file, mode="r", buffering=-1, encoding=None, errors=None, newline=None, closefd=True, opener=None):
        writing = any(c in mode for c in "wax+")
        if not writing:
            inj.op("open-r", file)
            return _real_open(file, mode, buffering, encoding, errors, newline, closefd, opener)
        inj.op("open-w", file)
        rawmode = mode.replace("b", "").replace("t", "")
        raw = TracedRaw(inj, file, rawmode)
        buf = io.BufferedWriter(raw)
        if "b" in mode:
            return buf
        return io.TextIOWrapper(buf, encoding=encoding, errors=errors, newline=newline)

    def fdopen(fd, mode="r", buffering=-1, encoding=None, errors=None, newline=None, closefd=True):
        if not any(c in mode for c in "wax+"):
            return _real_os.fdopen(fd, mode, buffering, encoding, errors, newline, closefd)
        raw = TracedRaw(inj, fd, mode.replace("b", "").replace("t", ""), closefd=closefd, label=fdnames.get(fd, f"fd{fd}"))
        buf = io.BufferedWriter(raw)
        if "b" in mode:
            return buf
        return io.TextIOWrapper(buf, encoding=encoding, errors=errors, newline=newline)

    def replace(src, dst, **kw):
        inj.op("replace", dst)
        return _real_os.replace(src, dst, **kw)

    def rename(src, dst, **kw):
        inj.op("rename", dst)
        return _real_os.rename(src, dst, **kw)

    def remove(path, **kw):
        inj.op("remove", path)
        return _real_os.remove(path, **kw)

    def unlink(path, **kw):
        inj.op("unlink", path)
        return _real_os.unlink(path, **kw)

    def chmod(path, m, **kw):
        inj.op("chmod", path)
        return _real_os.chmod(path, m, **kw)

    def mkstemp(suffix=None, prefix=None, dir=None, text=False):
        inj.op("mkstemp", (dir or "") + "/x" + (suffix or ""))
        fd, name = _tempfile.mkstemp(suffix=suffix, prefix=prefix, dir=dir, text=text)
        fdnames[fd] = name
        return fd, name

    def write(fd, data):
        # a raw os.write on a file the module created itself (mkstemp fd)
        act = inj.op("write", fdnames.get(fd, f"fd{fd}"), len(data))
        if act is not None:
            k = min(act[1], len(data))
            n = _real_os.write(fd, bytes(data)[:k])
            if act[0] == "short":
                return n
            os._exit(78)
        return _real_os.write(fd, data)

    # stat family: a metadata query is an environment call that can fail too (EIO, ESTALE).  os.stat
    # raises; the os.path predicates answer False on ANY OSError (that is what posixpath does), which is
    # exactly why code that asks `exists()` instead of handling FileNotFoundError loses data on an I/O error
    def stat(path, *a, **kw):
        inj.op("stat", path)
        return _real_os.stat(path, *a, **kw)

    def _predicate(name):
        real = getattr(_real_os.path, name)

        def pred(path):
            try:
                inj.op("stat", path)
            except OSError:
                return False
            return real(path)

        pred.__name__ = name
        return pred

    path_shim = ShimModule(_real_os.path, **{n: _predicate(n) for n in ("exists", "lexists", "isfile", "isdir")})
    extra = {"stat": stat, "path": path_shim} if stat_seam else {}  # opt-in (C13); C19's entry check is built on stat
    os_shim = ShimModule(_real_os, fdopen=fdopen, replace=replace, rename=rename, remove=remove, unlink=unlink, chmod=chmod, write=write, **extra)
    tempfile_shim = ShimModule(_tempfile, mkstemp=mkstemp)
    return open_shim, os_shim, tempfile_shim


ERRNOS = {
    "open-r": [errno.EACCES, errno.EMFILE],
    "open-w": [errno.EACCES, errno.ENOSPC],
    "write": [errno.ENOSPC, errno.EIO],
    "close": [errno.EIO],
    "replace": [errno.EXDEV, errno.EACCES],
    "rename": [errno.EACCES],
    "remove": [errno.EACCES],
    "unlink": [errno.EACCES],
    "mkstemp": [errno.ENOSPC, errno.EACCES],
    "chmod": [errno.EPERM],
    "stat": [errno.EIO],
}


def fault_cases(log, all_tears=False):
    """All single-fault cases for a recorded operation log."""
    cases = []
    for i, (kind, name, size) in enumerate(log):
        cases.append(("crash", i, None))
        if kind == "write" and size and size > 1:
            ks = range(1, size) if all_tears else sorted({1, size // 2, size - 1})
            for k in ks:
                cases.append(("tear", i, k))
            for k in sorted({1, size // 2}):
                cases.append(("short", i, k))
        for e in ERRNOS.get(kind, []):
            cases.append(("fail", i, e))
    cases.append(("crash", len(log), None))  # after the last operation (sanity: equals post state)
    return cases
