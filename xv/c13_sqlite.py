"""C13, SQLite part: syscall-level crash / fault enumeration with strace.

The writes of the SQLite back end happen inside libsqlite3, out of reach of Python shims.  A child
process performs ONE history-rewriting operation (append / delete / erasedups / gc) on a copy of a
prepared database under `strace -e inject=<syscall>:signal=KILL:when=N` (the process dies AT the N-th
mutating syscall on the database or its journal) and, separately, `:error=EIO:when=N`; N ranges over
every such syscall of the fault-free run.  Afterwards the database must pass PRAGMA integrity_check
and its rows must equal the complete previous or the complete new table."""

import os
import shutil
import sqlite3
import subprocess
import sys

from . import common

SYSCALLS = ["pwrite64", "fdatasync", "fsync", "ftruncate", "unlink"]

CHILD = r"""
import os, sys
op, db, home = sys.argv[1:4]
os.environ.update(HOME=home, XONSH_DATA_DIR=home, XONSH_CACHE_DIR=home, XONSH_CONFIG_DIR=home)
from xonsh.built_ins import XSH
from xonsh.environ import Env
from xonsh.execer import Execer
XSH.load(ctx={}, execer=None, env=Env({"UPDATE_OS_ENVIRON": False, "XONSH_DATA_DIR": home, "HISTCONTROL": set(), "XONSH_HISTORY_SAVE_CWD": False, "XONSH_STORE_STDOUT": False, "PATH": []}))
import xonsh.history.sqlite as S
if op == "prepare":
    h = S.SqliteHistory(gc=False, filename=db, sessionid="old", save_cwd=False)
    for i, t in enumerate(["old0", "dup", "x é", "dup"]):
        h.append({"inp": t, "rtn": 0, "ts": [1000.0 + i, 1000.5 + i]})
    sys.exit(0)
h = S.SqliteHistory(gc=False, filename=db, sessionid="sess", save_cwd=False)
os.write(2, b"MARK\n")
if op == "append":
    h.append({"inp": "new1 é", "rtn": 0, "ts": [2000.0, 2000.5]})
elif op == "delete":
    h.delete("^(dup|old0)")
elif op == "erasedups":
    h.erasedups()
elif op == "gc":
    S.xh_sqlite_delete_items(2, filename=db)
os.write(2, b"DONE\n")
"""

OPS_QUICK = ["append", "delete"]
OPS_ALL = ["append", "delete", "erasedups", "gc"]

_ROOT = None


def _env():
    e = dict(os.environ)
    e["PYTHONPATH"] = common.REPO
    e["PYTHONDONTWRITEBYTECODE"] = "1"
    return e


def _setup():
    global _ROOT
    if _ROOT is not None:
        return _ROOT
    _ROOT = common.scratch_dir("c13sq")
    with open(os.path.join(_ROOT, "child.py"), "w") as f:
        f.write(CHILD)
    os.makedirs(os.path.join(_ROOT, "tpl"))
    db = os.path.join(_ROOT, "tpl", "hist.sqlite")
    r = subprocess.run([sys.executable, "-B", os.path.join(_ROOT, "child.py"), "prepare", db, os.path.join(_ROOT, "tpl")], env=_env(), capture_output=True, text=True, timeout=120)
    if r.returncode != 0:
        raise common.ToolError(f"sqlite prepare failed: {r.stderr[-500:]}")
    return _ROOT


def _rows(db):
    conn = sqlite3.connect(db)
    try:
        ok = conn.execute("PRAGMA integrity_check").fetchall()
        rows = conn.execute("SELECT inp, rtn, tsb, sessionid FROM xonsh_history ORDER BY tsb, inp").fetchall()
        return ok == [("ok",)], [list(r) for r in rows]
    except sqlite3.DatabaseError as e:
        return False, f"DatabaseError: {e}"
    finally:
        conn.close()


def _run(op, inject, tag):
    """-> (rows info, strace log path or None, returncode)"""
    d = common.scratch_dir("sq")
    db = os.path.join(d, "hist.sqlite")
    shutil.copy(os.path.join(_ROOT, "tpl", "hist.sqlite"), db)
    log = os.path.join(d, "strace.log")
    cmd = ["strace", "-f", "-o", log, "-e", "trace=" + ",".join(SYSCALLS), "-P", db, "-P", db + "-journal", "-P", db + "-wal"]
    if inject:
        cmd += ["-e", f"inject={inject}"]
    cmd += [sys.executable, "-B", os.path.join(_ROOT, "child.py"), op, db, d]
    r = subprocess.run(cmd, env=_env(), capture_output=True, text=True, timeout=120)
    counts = {}
    if os.path.exists(log):
        for line in open(log, errors="replace"):
            for sc in SYSCALLS:
                if f" {sc}(" in line or line.split(" ", 1)[-1].startswith(sc + "("):
                    counts[sc] = counts.get(sc, 0) + 1
    info = _rows(db)
    shutil.rmtree(d, ignore_errors=True)
    return info, counts, r.returncode, r.stderr


_BASE = {}


def _case(item):
    op, sc, n, how = item
    _setup()
    pre, post = _BASE[op]
    inject = f"{sc}:signal=KILL:when={n}" if how == "kill" else f"{sc}:error={how}:when={n}"
    (ok, rows), _, rc, err = _run(op, inject, f"{op}-{sc}-{n}-{how}")
    viols = []
    if not ok or (rows != pre and rows != post):
        kind = "integrity" if not ok else ("saved-rows-lost" if isinstance(rows, list) and not all(r in rows for r in pre if r in post) else "neither-old-nor-new")
        viols.append(
            {
                "key": f"sqlite:{op}:{how if how == 'kill' else 'error'}:{sc}:{kind}",
                "clause": "database is its complete previous or complete new version",
                "case": {"op": op, "inject": inject},
                "observed": rows,
                "expected": {"previous": pre, "new": post},
                "note": f"child rc={rc}",
            }
        )
    return {"viols": viols}


def run_part(ctx):
    _setup()
    if shutil.which("strace") is None:
        ctx.assumptions.append("strace not available: SQLite syscall-level part skipped")
        return None
    ops = OPS_ALL
    items = []
    summary = {}
    _, pre = _rows(os.path.join(_ROOT, "tpl", "hist.sqlite"))
    for op in ops:
        (ok, post), counts, rc, err = _run(op, None, "base")
        if not ok or rc != 0 or "DONE" not in err:
            raise common.ToolError(f"fault-free sqlite {op} failed rc={rc}: {err[-300:]}")
        if post == pre:
            raise common.ToolError(f"sqlite {op} changed nothing - vacuous")
        if not counts:
            ctx.assumptions.append("strace recorded no database syscalls (ptrace refused?): SQLite part skipped")
            return None
        _BASE[op] = (pre, post)
        summary[op] = counts
        for sc, c in sorted(counts.items()):
            for n in range(1, c + 1):
                items.append((op, sc, n, "kill"))
                if sc != "unlink":
                    items.append((op, sc, n, "EIO"))
                if sc == "pwrite64" and ctx.thorough:
                    items.append((op, sc, n, "ENOSPC"))
    ctx.log(f"sqlite: {len(items)} syscall fault cases; mutating syscalls per op: {summary}")
    res = common.pmap(_case, items, ctx.jobs, chunk=2, init=_setup, seed=ctx.seed)
    for r in res:
        ctx.add_violations(r["viols"])
    ctx.sample({"sqlite_op": ops[0], "inject": "pwrite64:signal=KILL:when=1", "syscalls_in_fault_free_run": summary[ops[0]]})
    return {"evaluations": len(items), "distinct": len(items), "summary": {"ops": ops, "syscalls": summary, "cases": len(items)}}


# ---------------------------------------------------------------------- statement-level faults
#
# The syscall tier sees failures of the calls libsqlite3 makes - with a rollback journal / WAL these all
# happen while a transaction COMMITS.  A statement that fails in the MIDDLE of a multi-statement operation
# (disk full on a spill, a locked table, a constraint) is a different crash point: the Python code
# around the connection decides whether the statements before it are committed or rolled back.  Here
# the module's `sqlite3` is rebound (in its own namespace, in a forked child) to a look-alike whose
# cursors count execute() calls; the k-th call raises sqlite3.OperationalError("disk I/O error"), for
# every k of the fault-free run of each operation.


class _CursorProxy:
    def __init__(self, real, ctl):
        self._real, self._ctl = real, ctl

    def execute(self, sql, *a):
        ctl = self._ctl
        ctl["n"] += 1
        ctl["log"].append(" ".join(str(sql).split())[:60])
        if ctl["n"] == ctl["fail_at"]:
            ctl["fired"] = True
            raise sqlite3.OperationalError("disk I/O error")
        r = self._real.execute(sql, *a)
        return self if r is self._real else r

    def __iter__(self):
        return iter(self._real)

    def __getattr__(self, n):
        return getattr(self._real, n)


class _ConnProxy:
    def __init__(self, real, ctl):
        self._real, self._ctl = real, ctl

    def cursor(self, *a, **k):
        return _CursorProxy(self._real.cursor(*a, **k), self._ctl)

    def execute(self, sql, *a):
        return _CursorProxy(self._real.cursor(), self._ctl).execute(sql, *a)

    def __enter__(self):
        self._real.__enter__()
        return self

    def __exit__(self, *exc):
        return self._real.__exit__(*exc)

    def __getattr__(self, n):
        return getattr(self._real, n)


STMT_OPS = ["delete", "erasedups", "gc", "append"]


def _stmt_child(op, fail_at, db, wfd):
    import json

    import xonsh.history.sqlite as S

    from .pysched import ShimModule

    ctl = {"n": 0, "fail_at": fail_at, "log": [], "fired": False}
    S.sqlite3 = ShimModule(sqlite3, connect=lambda *a, **k: _ConnProxy(sqlite3.connect(*a, **k), ctl))
    if hasattr(S, "XH_SQLITE_CACHE"):
        try:
            setattr(S.XH_SQLITE_CACHE, S.XH_SQLITE_CREATED_SQL_TBL, False)
        except Exception:  # noqa: BLE001
            pass
    exc = None
    try:
        h = S.SqliteHistory(gc=False, filename=db, sessionid="sess", save_cwd=False)
        ctl["n"] = 0  # count the operation's statements only
        ctl["log"].clear()
        if op == "append":
            h.append({"inp": "new1 é", "rtn": 0, "ts": [2000.0, 2000.5]})
        elif op == "delete":
            h.delete("^(dup|old0)")
        elif op == "erasedups":
            h.erasedups()
        elif op == "gc":
            S.xh_sqlite_delete_items(2, filename=db)
    except BaseException as e:  # noqa: BLE001
        exc = f"{type(e).__name__}: {e}"[:120]
    os.write(wfd, json.dumps({"n": ctl["n"], "log": ctl["log"], "fired": ctl["fired"], "exc": exc}).encode())


def _stmt_run(op, fail_at):
    import json

    _setup()
    from . import c13

    c13._setup()  # a loaded session ($XONSH_DATA_DIR etc.)
    d = common.scratch_dir("sqs")
    db = os.path.join(d, "hist.sqlite")
    shutil.copy(os.path.join(_ROOT, "tpl", "hist.sqlite"), db)
    r, w = os.pipe()
    pid = os.fork()
    if pid == 0:
        code = 0
        try:
            os.close(r)
            devnull = os.open(os.devnull, os.O_WRONLY)
            os.dup2(devnull, 1)
            os.dup2(devnull, 2)
            _stmt_child(op, fail_at, db, w)
        except BaseException:  # noqa: BLE001
            code = 3
        finally:
            os._exit(code)
    os.close(w)
    data = b""
    while True:
        b = os.read(r, 65536)
        if not b:
            break
        data += b
    os.close(r)
    os.waitpid(pid, 0)
    info = _rows(db)
    shutil.rmtree(d, ignore_errors=True)
    return (json.loads(data) if data else None), info


_STMT_BASE = {}


def _stmt_case(item):
    op, k = item
    pre, post = _STMT_BASE[op]
    res, (ok, rows) = _stmt_run(op, k)
    viols = []
    if res is None or not res["fired"]:
        return {"viols": [], "fired": False}
    if not ok or (rows != pre and rows != post):
        kind = "integrity" if not ok else ("half-applied" if isinstance(rows, list) else "unreadable")
        viols.append(
            {
                "key": f"sqlite:{op}:statement-fails:{kind}",
                "clause": "database is its complete previous or complete new version",
                "case": {"tier": "sqlite-statement", "op": op, "failing_statement": k, "statement": res["log"][k - 1] if k - 1 < len(res["log"]) else None},
                "observed": rows,
                "expected": {"previous": pre, "new": post},
                "note": f"the operation ended with {res['exc']}",
            }
        )
    return {"viols": viols, "fired": True}


def run_stmt_part(ctx):
    _setup()
    items = []
    summary = {}
    _, pre = _rows(os.path.join(_ROOT, "tpl", "hist.sqlite"))
    for op in STMT_OPS:
        res, (ok, post) = _stmt_run(op, None)
        if res is None or res["exc"] or not ok:
            raise common.ToolError(f"fault-free sqlite {op} (statement tier) failed: {res}")
        if post == pre:
            raise common.ToolError(f"sqlite {op} changed nothing - vacuous")
        _STMT_BASE[op] = (pre, post)
        summary[op] = res["n"]
        items += [(op, k) for k in range(1, res["n"] + 1)]
    res = common.pmap(_stmt_case, items, ctx.jobs, chunk=2, init=_setup, seed=ctx.seed)
    for r in res:
        ctx.add_violations(r["viols"])
    ctx.log(f"sqlite statement tier: {len(items)} failing-statement cases; statements per op: {summary}; fired: {sum(1 for r in res if r['fired'])}")
    return {"evaluations": len(items), "summary": {"statements_per_op": summary, "cases": len(items)}}


def replay_stmt(rec):
    c = rec["case"]
    _setup()
    _, pre = _rows(os.path.join(_ROOT, "tpl", "hist.sqlite"))
    _, (ok, post) = _stmt_run(c["op"], None)
    _STMT_BASE[c["op"]] = (pre, post)
    r = _stmt_case((c["op"], c["failing_statement"]))
    for v in r["viols"]:
        print("VIOLATION", v["key"], v["observed"])
    return 1 if r["viols"] else 0
