"""C13, SQLite part: syscall-level crash / fault enumeration with strace.

The writes of the SQLite back end happen inside libsqlite3, out of reach of Python shims.  A child
process performs ONE history-rewriting operation (append / delete / erasedups / gc) on a copy of a
prepared database under `strace -e inject=<syscall>:signal=KILL:when=N` (the process dies AT the N-th
mutating syscall on the database or its journal) and, separately, `:error=EIO:when=N`; N ranges over
every such syscall of the fault-free run.  Afterwards the database must pass PRAGMA integrity_check
and its rows must equal the complete previous or the complete new table."""

import os
import shutil
import sqlite3
import subprocess
import sys

from . import common

SYSCALLS = ["pwrite64", "fdatasync", "fsync", "ftruncate", "unlink"]

CHILD = r"""
import os, sys
op, db, home = sys.argv[1:4]
os.environ.update(HOME=home, XONSH_DATA_DIR=home, XONSH_CACHE_DIR=home, XONSH_CONFIG_DIR=home)
from xonsh.built_ins import XSH
from xonsh.environ import Env
from xonsh.execer import Execer
XSH.load(ctx={}, execer=None, env=Env({"UPDATE_OS_ENVIRON": False, "XONSH_DATA_DIR": home, "HISTCONTROL": set(), "XONSH_HISTORY_SAVE_CWD": False, "XONSH_STORE_STDOUT": False, "PATH": []}))
import xonsh.history.sqlite as S
if op == "prepare":
    h = S.SqliteHistory(gc=False, filename=db, sessionid="old", save_cwd=False)
    for i, t in enumerate(["old0", "dup", "x é", "dup"]):
        h.append({"inp": t, "rtn": 0, "ts": [1000.0 + i, 1000.5 + i]})
    sys.exit(0)
h = S.SqliteHistory(gc=False, filename=db, sessionid="sess", save_cwd=False)
os.write(2, b"MARK\n")
if op == "append":
    h.append({"inp": "new1 é", "rtn": 0, "ts": [2000.0, 2000.5]})
elif op == "delete":
    h.delete("^(dup|old0)")
elif op == "erasedups":
    h.erasedups()
elif op == "gc":
    S.xh_sqlite_delete_items(2, filename=db)
os.write(2, b"DONE\n")
"""

OPS_QUICK = ["append", "delete"]
OPS_ALL = ["append", "delete", "erasedups", "gc"]

_ROOT = None


def _env():
    e = dict(os.environ)
    e["PYTHONPATH"] = common.REPO
    e["PYTHONDONTWRITEBYTECODE"] = "1"
    return e


def _setup():
    global _ROOT
    if _ROOT is not None:
        return _ROOT
    _ROOT = common.scratch_dir("c13sq")
    with open(os.path.join(_ROOT, "child.py"), "w") as f:
        f.write(CHILD)
    os.makedirs(os.path.join(_ROOT, "tpl"))
    db = os.path.join(_ROOT, "tpl", "hist.sqlite")
    r = subprocess.run([sys.executable, "-B", os.path.join(_ROOT, "child.py"), "prepare", db, os.path.join(_ROOT, "tpl")], env=_env(), capture_output=True, text=True, timeout=120)
    if r.returncode != 0:
        raise common.ToolError(f"sqlite prepare failed: {r.stderr[-500:]}")
    return _ROOT


def _rows(db):
    conn = sqlite3.connect(db)
    try:
        ok = conn.execute("PRAGMA integrity_check").fetchall()
        rows = conn.execute("SELECT inp, rtn, tsb, sessionid FROM xonsh_history ORDER BY tsb, inp").fetchall()
        return ok == [("ok",)], [list(r) for r in rows]
    except sqlite3.DatabaseError as e:
        return False, f"DatabaseError: {e}"
    finally:
        conn.close()


def _run(op, inject, tag):
    """-> (rows info, strace log path or None, returncode)"""
    d = common.scratch_dir("sq")
    db = os.path.join(d, "hist.sqlite")
    shutil.copy(os.path.join(_ROOT, "tpl", "hist.sqlite"), db)
    log = os.path.join(d, "strace.log")
    cmd = ["strace", "-f", "-o", log, "-e", "trace=" + ",".join(SYSCALLS), "-P", db, "-P", db + "-journal", "-P", db + "-wal"]
    if inject:
        cmd += ["-e", f"inject={inject}"]
    cmd += [sys.executable, "-B", os.path.join(_ROOT, "child.py"), op, db, d]
    r = subprocess.run(cmd, env=_env(), capture_output=True, text=True, timeout=120)
    counts = {}
    if os.path.exists(log):
        for line in open(log, errors="replace"):
            for sc in SYSCALLS:
                if f" {sc}(" in line or line.split(" ", 1)[-1].startswith(sc + "("):
                    counts[sc] = counts.get(sc, 0) + 1
    info = _rows(db)
    shutil.rmtree(d, ignore_errors=True)
    return info, counts, r.returncode, r.stderr


_BASE = {}


def _case(item):
    op, sc, n, how = item
    _setup()
    pre, post = _BASE[op]
    inject = f"{sc}:signal=KILL:when={n}" if how == "kill" else f"{sc}:error={how}:when={n}"
    (ok, rows), _, rc, err = _run(op, inject, f"{op}-{sc}-{n}-{how}")
    viols = []
    if not ok or (rows != pre and rows != post):
        kind = "integrity" if not ok else ("saved-rows-lost" if isinstance(rows, list) and not all(r in rows for r in pre if r in post) else "neither-old-nor-new")
        viols.append(
            {
                "key": f"sqlite:{op}:{how if how == 'kill' else 'error'}:{sc}:{kind}",
                "clause": "database is its complete previous or complete new version",
                "case": {"op": op, "inject": inject},
                "observed": rows,
                "expected": {"previous": pre, "new": post},
                "note": f"child rc={rc}",
            }
        )
    return {"viols": viols}


def run_part(ctx):
    _setup()
    if shutil.which("strace") is None:
        ctx.assumptions.append("strace not available: SQLite syscall-level part skipped")
        return None
    ops = OPS_ALL
    items = []
    summary = {}
    _, pre = _rows(os.path.join(_ROOT, "tpl", "hist.sqlite"))
    for op in ops:
        (ok, post), counts, rc, err = _run(op, None, "base")
        if not ok or rc != 0 or "DONE" not in err:
            raise common.ToolError(f"fault-free sqlite {op} failed rc={rc}: {err[-300:]}")
        if post == pre:
            raise common.ToolError(f"sqlite {op} changed nothing - vacuous")
        if not counts:
            ctx.assumptions.append("strace recorded no database syscalls (ptrace refused?): SQLite part skipped")
            return None
        _BASE[op] = (pre, post)
        summary[op] = counts
        for sc, c in sorted(counts.items()):
            for n in range(1, c + 1):
                items.append((op, sc, n, "kill"))
                if sc != "unlink":
                    items.append((op, sc, n, "EIO"))
                if sc == "pwrite64" and ctx.thorough:
                    items.append((op, sc, n, "ENOSPC"))
    ctx.log(f"sqlite: {len(items)} syscall fault cases; mutating syscalls per op: {summary}")
    res = common.pmap(_case, items, ctx.jobs, chunk=2, init=_setup, seed=ctx.seed)
    for r in res:
        ctx.add_violations(r["viols"])
    ctx.sample({"sqlite_op": ops[0], "inject": "pwrite64:signal=KILL:when=1", "syscalls_in_fault_free_run": summary[ops[0]]})
    return {"evaluations": len(items), "distinct": len(items), "summary": {"ops": ops, "syscalls": summary, "cases": len(items)}}
