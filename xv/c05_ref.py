"""C05 reference interpreter - written from the property statement and docs/error_handling.rst,
NOT from xonsh's code.  Pure Python, no xonsh import.

A program is a dict
    {"stmt": "expr"|"assign"|"if", "tree": T, "ops": [operand...], "sep": ";"|"nl"|""}
    T        = operand index | ["seq", [T...], [op...]]        op in && || and or; a nested "seq" is parenthesised
    operand  = {"form": bare|hid|unc|out|obj|inj, "dec": ""|error_raise|error_ignore,
                "text": name|pyexpr|words|nonpy, "pipe": bool}
forms:  bare `c a`   hid `![c a]`   unc `$[c a]`   out `$(c a)`   obj `!(c a)`   inj `c a @$(j x)` (j always succeeds)

The documented rules (docs/error_handling.rst, tutorial "Logical Subprocess And/Or"):
  * `&&` is `and`, `||` is `or` (Python precedence, short-circuit); the truth of a command is rc == 0; a
    pipeline's rc is its last stage's.
  * after the statement: CalledProcessError iff $XONSH_SUBPROC_RAISE_ERROR and the last command that ran failed,
    unless it was a `!()` or carried @error_ignore.
  * @error_raise: raise at the failing command itself (whatever the flags, the form, the chain position).
  * $XONSH_SUBPROC_CMD_RAISE_ERROR: raise at every failing command itself ("the || fallback never runs");
    @error_ignore still wins ("never raises, no matter the environment settings or chain position").
  * once a statement raised nothing later runs.

Where statement and docs leave a combination open the reference forks (`ch(tag, n)`) and *every* branch is an
acceptable outcome - this is the "does not require" list in executable form:
  value-truth    the truthiness of a `$()`/`$[]` result that a following and/or inspects (they return str/None,
                 the tutorial only defines truthiness for commands): by exit code OR by Python value (falsy).
  lazy-obj       a `!()` whose value nobody inspects is a lazy handle: it may or may not have executed yet.
  cmdflag-obj    whether $XONSH_SUBPROC_CMD_RAISE_ERROR overrides the `!()` exemption.
  cmdflag-stage  whether $XONSH_SUBPROC_CMD_RAISE_ERROR raises for a failing NON-last pipeline stage.
  if-raises      whether an `if <chain>:` condition whose last command failed raises or is just false.
  noexec-build-error  a `./file` without x bit: a failed command, or refused up front with XonshError.
"""

ARGS = {"name": [], "pyexpr": ["-x"], "words": ["x"], "nonpy": ["-x=1", "y"]}
WRAP = {"bare": "{}", "inj": "{}", "hid": "![{}]", "unc": "$[{}]", "out": "$({})", "obj": "!({})"}
OR_OPS = ("||", "or")


class Need(Exception):
    """The reference asked for the exit code of a command that has none assigned yet."""

    def __init__(self, name):
        self.name = name


class _Stop(Exception):
    def __init__(self, rc, cls="CalledProcessError"):
        self.rc = rc
        self.cls = cls


# operand "kind" (optional key, default "alias" = a command that runs and returns its assigned code):
#   missing  a word that is no alias and not on $PATH            noexec  ./file without an x bit
#   dir      ./directory                                          sig     a real child that kills itself (rc -15)
#   sigp     like sig, but the child logs before it dies (process-level runs, where every command is a real child)
# A command that cannot be started is a failed command: false for and/or, raising under the same flags as a
# non-zero code (returncode not prescribed).  It leaves no entry in the run log (there is nothing to run).
KIND_WORD = {"missing": "zz{n}", "noexec": "./nx{n}", "dir": "./dd{n}", "sig": "k{n}", "sigp": "k{n}"}
SILENT_KINDS = ("missing", "noexec", "dir", "sig")
ANYRC = "?"  # some non-zero code


def names(i, op):
    """Command names of operand i (0-based): main (= last stage), first pipeline stage, injected inner."""
    n = i + 1
    main = f"q{n}" if op["pipe"] else f"m{n}"
    kind = op.get("kind", "alias")
    if kind != "alias":
        main = KIND_WORD[kind].format(n=n)
    return {"main": main, "first": f"p{n}" if op["pipe"] else None, "inj": f"j{n}" if op["form"] == "inj" else None}


def entry(name, op):
    return " ".join([name] + ARGS[op["text"]])


def operand_entries(i, op):
    nm = names(i, op)
    out = []
    if nm["inj"]:
        out.append(nm["inj"] + " x")
    if nm["first"]:
        out.append(entry(nm["first"], op))
    if op.get("kind", "alias") not in SILENT_KINDS:
        out.append(entry(nm["main"], op))
    return out


def render_operand(i, op):
    nm = names(i, op)
    dec = f"@{op['dec']} " if op["dec"] else ""
    body = dec + entry(nm["main"], op)
    if nm["first"]:
        dec1 = f"@{op['dec1']} " if op.get("dec1") else ""
        body = dec1 + entry(nm["first"], op) + " | " + body
    if nm["inj"]:
        body += f" @$({nm['inj']} x)"
    if op.get("wrap"):  # repair transform of the checker: the same bare command written explicitly as ![...]
        return "![" + body + "]"
    return WRAP[op["form"]].format(body)


def render_tree(t, ops, top=True):
    if isinstance(t, int):
        return render_operand(t, ops[t])
    _, items, syms = t
    s = render_tree(items[0], ops, False)
    for it, o in zip(items[1:], syms):
        s += f" {o} " + render_tree(it, ops, False)
    return s if top else "(" + s + ")"


PROLOGUE = "_p = (1 and 0) or 2\n_q = not (_p or 0) and True\n"


def render(prog):
    chain = render_tree(prog["tree"], prog["ops"])
    if prog["stmt"] == "assign":
        s = "x = " + chain
    elif prog["stmt"] == "list":  # the operand nested in a Python expression: same obligations as a statement
        s = "x = [" + chain + "]"
    elif prog["stmt"] == "call":
        s = "str(" + chain + ")"
    elif prog["stmt"] == "if":
        return f"if {chain}:\n    pass\nafter\n"
    else:
        s = chain
    if prog["sep"] == ";":
        return s + "; after\n"
    if prog["sep"] == "nl":
        # the chain is not the first statement of its unit: ordinary Python boolean expressions come first
        # (they run no command and must not influence how later chains are compiled or judged);
        # chains in first position are covered by the `;` / no-follower / `if` programs
        return PROLOGUE + s + "\nafter\n"
    return s + "\n"


def tail_operand(t):
    """The operand whose value becomes the chain's value without being inspected by and/or."""
    while not isinstance(t, int):
        t = t[1][-1]
    return t


def ref_once(prog, codes, R, C, ch, cblind=()):
    """One evaluation; returns (log, exc, last operand evaluated, where) with exc = None |
    ("CalledProcessError", rc|None) and where = "cmd" (raised at the command itself) | "stmt" | None."""
    ops = prog["ops"]
    log = []
    st = {"last": None, "lazy": False}

    def code(name):
        if name not in codes:
            raise Need(name)
        return codes[name]

    def operand(i, consumed):
        op = ops[i]
        nm = names(i, op)
        st["last"] = i
        if op["form"] == "obj" and not consumed and ch("lazy-obj", 2):
            st["lazy"] = True
            return True
        log.extend(operand_entries(i, op))
        kind = op.get("kind", "alias")
        if kind == "noexec" and ch("noexec-build-error", 2):
            # a file without x bit may also be refused before anything is launched (XonshError), whatever the flags
            raise _Stop(ANYRC, "XonshError")
        rc = code(nm["main"]) if kind == "alias" else (-15 if kind in ("sig", "sigp") else ANYRC)
        st["rc"] = rc
        rc_first = code(nm["first"]) if nm["first"] else 0
        cflag = C and i not in cblind
        if rc and op["dec"] == "error_raise":
            raise _Stop(rc)
        if rc and cflag and op["dec"] != "error_ignore":
            if op["form"] != "obj" or ch("cmdflag-obj", 2):
                raise _Stop(rc)
        if rc_first and cflag and ch("cmdflag-stage", 2):
            raise _Stop(None)
        # "dec1" = a decorator on the FIRST stage of a 2-stage pipeline.  The pipeline's code is its last stage's and
        # a decorator concerns its own command only, so it never changes how the last stage's failure is treated;
        # whether @error_raise on a failing first stage raises is left open (fork).
        if rc_first and op.get("dec1") == "error_raise" and ch("stage-error_raise", 2):
            raise _Stop(None)
        truth = rc == 0
        if consumed and op["form"] in ("out", "unc") and ch("value-truth", 2):
            truth = False
        return truth

    def ev(t, consumed):
        if isinstance(t, int):
            return operand(t, consumed)
        _, items, syms = t
        groups = [[items[0]]]
        for it, o in zip(items[1:], syms):
            if o in OR_OPS:
                groups.append([it])
            else:
                groups[-1].append(it)
        val = False
        for gi, g in enumerate(groups):
            glast = gi == len(groups) - 1
            for ii, it in enumerate(g):
                val = ev(it, consumed if (glast and ii == len(g) - 1) else True)
                if not val:
                    break
            if val:
                return True
        return val

    exc = where = None
    try:
        ev(prog["tree"], prog["stmt"] == "if")
    except _Stop as s:
        exc, where = (s.cls, None if s.rc == ANYRC else s.rc), "cmd"
    else:
        op = ops[st["last"]]
        rc = 0 if st["lazy"] else st["rc"]
        if R and rc and op["form"] != "obj" and op["dec"] != "error_ignore":
            if prog["stmt"] != "if" or ch("if-raises", 2) == 0:
                exc, where = ("CalledProcessError", None if rc == ANYRC else rc), "stmt"
    if exc is None and prog["sep"]:
        log.append("after")
    return (tuple(log), exc, st["last"], where)


def ref_outcomes(prog, codes, R, C, cblind=()):
    """All acceptable outcomes [(log, exc, last_operand, where)], the literal reading of the statement first."""
    outs = []
    stack = [()]
    while stack:
        prefix = stack.pop()
        taken = []

        def ch(tag, n, prefix=prefix, taken=taken):
            k = len(taken)
            v = prefix[k] if k < len(prefix) else 0
            taken.append((v, n))
            return v

        out = ref_once(prog, codes, R, C, ch, cblind)
        if out not in outs:
            outs.append(out)
        for k in range(len(taken) - 1, len(prefix) - 1, -1):
            for alt in range(1, taken[k][1]):
                stack.append(tuple(t[0] for t in taken[:k]) + (alt,))
    return outs


def assignments(prog, R, C, codeset):
    """Every assignment of exit codes to the commands the reference can reach (decision-tree enumeration:
    commands no acceptable evaluation reaches keep code 0 - if the implementation runs one of them that is
    already a violation whatever its code).  Yields (codes dict, outcomes)."""
    pending = [{}]
    while pending:
        a = pending.pop()
        try:
            outs = ref_outcomes(prog, a, R, C)
        except Need as e:
            for c in reversed(codeset):
                b = dict(a)
                b[e.name] = c
                pending.append(b)
            continue
        yield a, outs


def accepts(outs, log, exc):
    for elog, eexc, _, _ in outs:
        if tuple(log) != elog:
            continue
        if eexc is None and exc is None:
            return True
        if eexc is not None and exc is not None and eexc[0] == exc[0] and (eexc[1] is None or exc[1] is None or eexc[1] == exc[1]):
            return True
    return False
