"""C01, alternation layer: right-recursive rules with two (or more) alternatives.

The abstract layer bounds trees by *deviations from a default*, so it builds each list-like construct
with at most `maxlen` elements of mostly one kind.  Grammar actions of a hand-written LALR grammar,
however, typically go wrong in the *merge step* of a right-recursive rule that has several
alternatives (comp_for / comp_if, elif / else, chained comparison operators, handlers, items, cases,
f-string parts ...): the bug needs a particular alternation pattern of the alternatives, e.g.
`for .. if .. if .. for ..`.  This module therefore enumerates, for every repetition construct of
CPython's grammar (Grammar/python.gram: every `x*`, `x+`, `sep.x+`), EVERY sequence over the
construct's element alphabet up to a stated length, in a minimal context and with pairwise different
names in every element (so that a dropped, duplicated or re-ordered element changes the tree).

Nothing here is trusted either: a text is an input iff CPython's parser accepts it, and CPython's
tree of the text is the expected tree.  Families are plain functions `f(n) -> iterable of texts`
where n is the length bound of the tier."""

import itertools


def _seqs(alphabet, lo, hi):
    for k in range(lo, hi + 1):
        yield from itertools.product(alphabet, repeat=k)


# ----------------------------------------------------------------------------- comprehensions


def _clauses(n_gen, n_if, asyncs=True):
    """Every clause sequence: up to n_gen generators (sync / async), each followed by 0..n_if ifs."""
    kinds = ("for", "async for") if asyncs else ("for",)
    gens = [(k, m) for k in kinds for m in range(n_if + 1)]
    for g in range(1, n_gen + 1):
        for combo in itertools.product(gens, repeat=g):
            parts = []
            c = 0
            for gi, (kind, nifs) in enumerate(combo):
                parts.append(f"{kind} t{gi} in i{gi}")
                for _ in range(nifs):
                    parts.append(f"if c{c}")
                    c += 1
            yield " ".join(parts)


def comprehensions(n):
    n_gen = 3
    n_if = 3 if n >= 4 else 2
    for cl in _clauses(n_gen, 3, asyncs=True) if n >= 4 else _clauses(n_gen, 3, asyncs=False):
        yield f"[e {cl}]\n"
        yield f"{{e {cl}}}\n"
        yield f"{{k: v {cl}}}\n"
        yield f"(e {cl})\n"
    if n < 4:
        # async generators: shorter if-chains in the quick tier
        for cl in _clauses(2, 2, asyncs=True):
            if "async" in cl:
                yield f"[e {cl}]\n"
                yield f"{{k: v {cl}}}\n"
    # contexts and targets on the shorter clause sequences
    for cl in _clauses(2, n_if, asyncs=False):
        yield f"f(e {cl})\n"
        yield f"f(x, *(e {cl}), k=[e {cl}])\n"
        yield f"[o for p in [e {cl}] if q]\n"
        yield f"[o for p in q if [e {cl}] if r]\n"
        yield f"[[e {cl}] for p in q for r in s]\n"
        yield f"x = {{e {cl}}}, (e {cl})\n"
        yield f"return [e {cl}]\n"
        for tgt in ("t0, u0", "(t0, u0)", "t0, *u0", "[t0, u0]", "t0.a", "t0[0]", "(t0, (u0, w0))"):
            yield f"[e {cl.replace('for t0 in', 'for ' + tgt + ' in', 1)}]\n"
    # conditions / iterables that themselves contain `if` ... `else` and lambdas
    for cl in ("for t in (i if j else k) if c", "for t in i if (c if d else g) if h for u in v", "for t in i if c or d if not g for u in v if w and y"):
        yield f"[e {cl}]\n"
        yield f"{{k: v {cl}}}\n"


# ----------------------------------------------------------------------------- compound statements


def if_chains(n):
    for k in range(0, n + 1):
        for has_else in (False, True):
            src = "if c0:\n    b0\n"
            for i in range(1, k + 1):
                src += f"elif c{i}:\n    b{i}\n"
            if has_else:
                src += "else:\n    z\n"
            yield src
    # else: if ... (nested instead of elif), alternating with elif
    for pat in _seqs(("elif", "else-if"), 1, min(n, 3)):
        src = "if c0:\n    b0\n"
        ind = ""
        for i, kind in enumerate(pat, 1):
            if kind == "elif":
                src += f"{ind}elif c{i}:\n{ind}    b{i}\n"
            else:
                src += f"{ind}else:\n{ind}    if c{i}:\n{ind}        b{i}\n"
                ind += "    "
        src += f"{ind}else:\n{ind}    z\n"
        yield src
    for kw in ("while c0", "for t in i", "async for t in i"):
        yield f"{kw}:\n    b\nelse:\n    z\n"
        yield f"{kw}:\n    if c:\n        break\n    elif d:\n        continue\n    else:\n        pass\nelse:\n    z\n"


_HANDLERS = ("except E{i}:", "except E{i} as n{i}:", "except (E{i}, F{i}):", "except (E{i}, F{i}) as n{i}:", "except E{i}.a:")


def try_handlers(n):
    m = min(n, 3)
    for star in ("", "*"):
        for pat in _seqs(_HANDLERS, 0, m):
            for bare in (False, True) if not star else (False,):
                for tail in ("", "else", "finally", "else+finally"):
                    if not pat and not bare and "finally" not in tail:
                        continue
                    if not pat and not bare and "else" in tail:
                        continue
                    src = "try:\n    b\n"
                    for i, h in enumerate(pat):
                        src += h.format(i=i).replace("except", "except" + star, 1) + f"\n    h{i}\n"
                    if bare:
                        src += "except:\n    hb\n"
                    if "else" in tail:
                        src += "else:\n    e\n"
                    if "finally" in tail:
                        src += "finally:\n    f\n"
                    yield src


_WITH_ITEMS = ("m{i}", "m{i} as n{i}", "m{i}() as (n{i}, o{i})", "m{i} as n{i}.a", "m{i} as n{i}[0]", "m{i} as [n{i}, o{i}]")


def with_items(n):
    alpha = _WITH_ITEMS if n >= 4 else _WITH_ITEMS[:4]
    for kw in ("with", "async with"):
        for pat in _seqs(alpha, 1, min(n, 4) if kw == "with" else 2):
            yield f"{kw} " + ", ".join(p.format(i=i) for i, p in enumerate(pat)) + ":\n    b\n"


_DECOS = ("@d{i}", "@d{i}.a", "@d{i}()", "@d{i}.a.b(x{i}, k=y{i})")


def decorators(n):
    for tail in ("def f():\n    pass\n", "async def f():\n    pass\n", "class C:\n    pass\n"):
        for pat in _seqs(_DECOS, 1, min(n, 3) if tail.startswith("def") else 2):
            yield "".join(p.format(i=i) + "\n" for i, p in enumerate(pat)) + tail
    yield "class C:\n    @d0\n    @d1()\n    def m(self):\n        pass\n    @d2\n    class D:\n        pass\n"


_PATTERNS = ("{i}", "'s{i}'", "n{i}.a", "[p{i}, q{i}]", "[p{i}, *q{i}]", "{{'k{i}': p{i}}}", "{{'k{i}': p{i}, **q{i}}}", "C{i}(p{i}, a=q{i})", "{i} | -{i}", "(p{i}, q{i}) as r{i}", "None", "[*_, p{i}]")


_LITERALS = ("0", "-1", "1.5", "-1.5", "2j", "-2j", "0 + 1j", "-0 - 1j", "1.5 - 2j", "-1.5 + 2.5j", "None", "True", "False", "'s'", "b's'", "'s' 't'", "'''s'''", "0x1f", "1_0", "n.a", "n.a.b")
_SEQ_NESTED = ("p{i}", "()", "[]", "(q{i},)", "[q{i}]", "[(q{i},)]", "(q{i}, s{i})", "[[]]", "([q{i}],)", "*r{i}")


def match_cases(n):
    pats = _PATTERNS if n >= 4 else _PATTERNS[:8]
    m = 2 if n < 4 else 3
    cases = [(p, g) for p in pats for g in (False, True)]
    for pat in _seqs(cases, 1, m):
        if len(pat) == 3 and n >= 4 and not all(p in _PATTERNS[:5] for p, _ in pat):
            continue
        for last in ("", "_", "other"):
            src = "match s:\n"
            for i, (p, g) in enumerate(pat):
                src += f"    case {p.format(i=i)}" + (f" if g{i}" if g else "") + f":\n        b{i}\n"
            if last:
                src += f"    case {last}:\n        z\n"
            yield src
    # alternation inside patterns: or-patterns, sequence items, mapping items, class arguments
    for pat in _seqs(("{i}", "n{i}.a", "[p{i}]", "C{i}()", "'s{i}'", "-{i}j"), 2, min(n, 3)):
        yield "match s:\n    case " + " | ".join(p.format(i=i) for i, p in enumerate(pat)) + ":\n        b\n"
    for pat in _seqs(("p{i}", "{i}", "*r", "[q{i}]", "_"), 1, min(n, 4)):
        if sum(1 for p in pat if p == "*r") > 1:
            continue
        body = ", ".join(p.format(i=i) for i, p in enumerate(pat))
        yield f"match s:\n    case [{body}]:\n        b\n"
        yield f"match s:\n    case ({body},):\n        b\n"
        yield f"match s:\n    case {body},:\n        b\n"
    # nested / empty / parenthesised sequence patterns
    for pat in _seqs(_SEQ_NESTED, 1, 3 if n >= 4 else 2):
        body = ", ".join(p.format(i=i) for i, p in enumerate(pat))
        yield f"match s:\n    case [{body}]:\n        b\n"
        yield f"match s:\n    case {body},:\n        b\n"
        if len(pat) == 1:
            yield f"match s:\n    case {body}:\n        b\n"
            yield f"match s:\n    case C({body}, a={body}):\n        b\n"
            yield f"match s:\n    case {{0: {body}}}:\n        b\n"
    # every literal pattern, alone and as element of the composite patterns
    for lit in _LITERALS:
        yield f"match s:\n    case {lit}:\n        b\n"
        yield f"match s:\n    case {lit} | {lit}:\n        b\n"
        yield f"match s:\n    case [{lit}, x]:\n        b\n"
        yield f"match s:\n    case C({lit}, a={lit}):\n        b\n"
        yield f"match s:\n    case {lit} as x if g:\n        b\n"
        yield f"match s:\n    case {{{lit}: x}}:\n        b\n"
    for pat in _seqs(("{i}: p{i}", "'k{i}': {i}", "n{i}.a: [q{i}]", "**r"), 1, min(n, 3)):
        if "**r" in pat[:-1]:
            continue
        yield "match s:\n    case {" + ", ".join(p.format(i=i) for i, p in enumerate(pat)) + "}:\n        b\n"
    for pat in _seqs(("p{i}", "{i}", "a{i}=q{i}", "a{i}={i}"), 1, min(n, 4)):
        yield "match s:\n    case C(" + ", ".join(p.format(i=i) for i, p in enumerate(pat)) + "):\n        b\n"


# ----------------------------------------------------------------------------- operators

_CMP = ("<", ">", "==", ">=", "<=", "!=", "in", "not in", "is", "is not")
_BIN = ("+", "-", "*", "@", "/", "%", "**", "<<", ">>", "|", "^", "&", "//")


def comparisons(n):
    for k in range(1, 4):
        ops = _CMP if (k < 3 or n >= 4) else ("<", ">=", "in", "not in", "is not", "==")
        for pat in itertools.product(ops, repeat=k):
            yield "v0" + "".join(f" {op} v{i + 1}" for i, op in enumerate(pat)) + "\n"
    if n >= 4:
        for pat in itertools.product(("<", ">=", "in", "not in", "is not"), repeat=4):
            yield "v0" + "".join(f" {op} v{i + 1}" for i, op in enumerate(pat)) + "\n"
    for pat in itertools.product(("in", "not in", "is", "is not", "=="), repeat=2):
        yield f"not v0 {pat[0]} v1 {pat[1]} v2\n"
        yield f"v0 {pat[0]} (not v1) {pat[1]} v2\n"


def bool_ops(n):
    m = min(n, 4)
    for pat in _seqs(("and", "or"), 1, m):
        for nots in itertools.product(("", "not "), repeat=len(pat) + 1):
            if len(pat) >= 3 and sum(1 for x in nots if x) > 1:
                continue
            yield nots[0] + "v0" + "".join(f" {op} {nots[i + 1]}v{i + 1}" for i, op in enumerate(pat)) + "\n"
    yield "not not v0\n"
    yield "not (v0 and not (v1 or not v2))\n"
    yield "v0 if v1 and v2 else v3 or v4\n"


def binary_ops(n):
    for k in (1, 2) if n < 4 else (1, 2, 3):
        for pat in itertools.product(_BIN, repeat=k):
            yield "v0" + "".join(f" {op} v{i + 1}" for i, op in enumerate(pat)) + "\n"
    if n < 4:
        for pat in itertools.product(("+", "*", "**", "<<", "|", "&", "//", "@"), repeat=3):
            yield "v0" + "".join(f" {op} v{i + 1}" for i, op in enumerate(pat)) + "\n"
    # unary operators against binary ones and power
    for pat in _seqs(("-", "+", "~", "not "), 1, 3):
        u = "".join(pat)
        if "not " in pat[1:] and pat[pat.index("not ", 1) - 1] != "not ":
            continue  # `-not x` is not Python
        yield f"{u}v0\n"
        yield f"{u}v0 ** {u}v1\n" if "not " not in pat else f"{u}v0 ** v1\n"
        yield f"v0 * {u}v1 + v2\n" if "not " not in pat else f"{u}v0 * v1\n"
    for op in _BIN:
        yield f"-v0 {op} -v1\n"
        yield f"v0 {op} v1 if v2 {op} v3 else v4 {op} v5\n"
        yield f"await v0 {op} v1\n"
        yield f"v0 {op} v1.a(v2)[v3]\n"
        yield f"lambda: v0 {op} v1\n"
    for c in _CMP:
        for op in ("+", "|", "**", "<<"):
            yield f"v0 {op} v1 {c} v2 {op} v3\n"
        yield f"not v0 {c} v1 and v2 {c} v3 or v4\n"


_REDIR_L = ("a", "e", "o", "err", "out", "all", "1", "2", "x")
_REDIR_R = ("a", "e", "o", "p", "err", "out", "1", "2", "x")
_REDIR_OPS = (">", ">>", "<", ">=", "<<", ">>=", "|", "&", "-", ">-", ">>-")


def redirect_lookalikes(n):
    """Python expressions that look like xonsh IO redirections (`2>1`, `a>>o`, `err>out`, `e>p`)."""
    for l in _REDIR_L:
        for r in _REDIR_R:
            for op in _REDIR_OPS:
                yield f"{l}{op}{r}\n"
                yield f"{l} {op} {r}\n"
                yield f"y = x-{l}{op}{r}\n"
                if n >= 4:
                    yield f"f({l}{op}{r}, {l} {op}{r})\n"
                    yield f"if {l}{op}{r}:\n    pass\n"
                    yield f"[{l}{op}{r} for z in w if {l}{op}{r}]\n"


_TRAILERS = (".a{i}", "(x{i})", "[y{i}]", "()", "[y{i}:z{i}]", "(k{i}=x{i})")


def trailers(n):
    alpha = _TRAILERS if n >= 4 else _TRAILERS[:4]
    for pat in _seqs(alpha, 1, min(n, 4) if n >= 4 else 3):
        t = "".join(p.format(i=i) for i, p in enumerate(pat))
        yield f"v{t}\n"
        if len(pat) <= 2:
            yield f"v{t} = w\n"
            yield f"del v{t}\n" if not pat[-1].startswith("(") else f"await v{t}\n"
            yield f"-v{t} ** 2\n"
            yield f"'s'{t}\n" if not pat[0].startswith("(") else f"(v){t}\n"
            yield f"[v]{t}\n"


def ternaries(n):
    # nesting position alternates between the three operands
    def build(depth, tag):
        if depth == 0:
            yield f"v{tag}"
            return
        for pos in ("body", "test", "orelse"):
            for inner in build(depth - 1, tag + pos[0]):
                if pos == "body":
                    yield f"({inner}) if c{tag} else e{tag}" if depth > 1 else f"{inner} if c{tag} else e{tag}"
                elif pos == "test":
                    yield f"b{tag} if ({inner}) else e{tag}" if depth > 1 else f"b{tag} if {inner} else e{tag}"
                else:
                    yield f"b{tag} if c{tag} else {inner}"

    for d in range(1, min(n, 3) + 1):
        for t in build(d, ""):
            yield t + "\n"
    for pat in _seqs(("lambda", "if", "walrus"), 1, min(n, 3)):
        e = "v"
        for i, k in enumerate(reversed(pat)):
            if k == "lambda":
                e = f"lambda p{i}: {e}"
            elif k == "if":
                e = f"b{i} if c{i} else {e}"
            else:
                e = f"(w{i} := {e})"
        yield e + "\n"
        yield f"f({e}, k={e})\n"


# ----------------------------------------------------------------------------- lists of things

_ARGS = ("x{i}", "k{i}=y{i}", "*s{i}", "**d{i}")
_ARG_EXPRS = ("*s or t", "**d or e", "*s if c else t", "**d if c else e", "x if c else y", "k=lambda: y", "*[x]", "**{'k': v}", "*s.a(b)[c]", "x := y", "not x",
              "k=x or y", "lambda: x", "lambda *a, **k: x", "await x", "*await s", "k=(x for x in y)", "*(x for x in y)", "-x ** 2", "x == y", "k=x == y", "*s == t", "*s | t",
              "**d | e", "*s + t", "k=yield", "(yield)", "x not in y", "*s and t", "k=x if c else y", "*-s", "**-d", "*s[0]", "**d.a", "*s()", "x @ y", "k=x @ y")


def call_args(n):
    for pat in _seqs(_ARGS, 0, min(n, 4)):
        body = ", ".join(p.format(i=i) for i, p in enumerate(pat))
        yield f"f({body})\n"
        if len(pat) <= 3:
            yield f"f({body},)\n" if pat else "f()\n"
            yield f"class C({body}):\n    pass\n"
    # argument *expressions*: what may follow `*`, `**`, `k=` or stand alone is a full expression
    for e in _ARG_EXPRS:
        yield f"f({e})\n"
        yield f"f(a, {e})\n"
        yield f"f({e}, k0=b)\n"
        yield f"f({e}, **z)\n"
        yield f"class C({e}):\n    pass\n"
        yield f"@d({e})\ndef g():\n    pass\n"
    yield "f(x for x in y)\n"
    yield "f(a, (x for x in y), *b, k=(z for z in w), **c)\n"
    yield "f(a := 1, b)\n"
    yield "f(*a, b, *c, k=1, **d, j=2, **e)\n"


_PARAMS = ("p{i}", "p{i}=d{i}", "p{i}: T{i}", "p{i}: T{i} = d{i}", "/", "*", "*v{i}", "**w{i}", "*v{i}: T{i}", "**w{i}: T{i}")


def parameters(n):
    m = min(n, 4) if n >= 4 else 3
    plain = ("p{i}", "p{i}=d{i}", "/", "*", "*v{i}", "**w{i}")
    pats = list(_seqs(_PARAMS, 0, m))
    if n < 4:
        pats += list(_seqs(plain, 4, 4))  # length 4 over the un-annotated alphabet also in the quick tier
    for pat in pats:
        if pat and pat[0] == "/":
            continue
        if sum(1 for p in pat if p in ("/",)) > 1 or sum(1 for p in pat if p.startswith("*") and not p.startswith("**")) > 1:
            continue
        if any(p.startswith("**") for p in pat[:-1]):
            continue
        body = ", ".join(p.format(i=i) for i, p in enumerate(pat))
        yield f"def f({body}):\n    pass\n"
        if len(pat) <= 3:
            yield f"def f({body}) -> R:\n    pass\n"
        if ":" not in body:
            yield f"lambda {body}: r\n" if body else "lambda: r\n"
            if body:
                yield f"lambda {body},: r\n"
        if body:
            yield f"def f({body},):\n    pass\n"
        if len(pat) <= 2 and body:
            yield f"async def f({body}):\n    pass\n"


_SUBS = ("x{i}", "x{i}:y{i}", ":", "x{i}:y{i}:z{i}", "::", ":y{i}", "::z{i}", "x{i}:", "...", "(x{i}, y{i})")


def subscripts(n):
    alpha = _SUBS if n >= 4 else _SUBS[:7]
    for pat in _seqs(alpha, 1, 3 if n >= 4 else 2):
        body = ", ".join(p.format(i=i) for i, p in enumerate(pat))
        yield f"v[{body}]\n"
        if len(pat) <= 2:
            yield f"v[{body}] = w\n"
            yield f"v[{body}] += w\n"
            yield f"del v[{body}]\n"
    if n < 4:
        for pat in _seqs(_SUBS[:4], 3, 3):
            yield "v[" + ", ".join(p.format(i=i) for i, p in enumerate(pat)) + "]\n"


def displays(n):
    m = min(n, 4)
    for pat in _seqs(("k{i}: v{i}", "**d{i}"), 0, m):
        yield "{" + ", ".join(p.format(i=i) for i, p in enumerate(pat)) + "}\n"
    for pat in _seqs(("v{i}", "*s{i}"), 1, m):
        body = ", ".join(p.format(i=i) for i, p in enumerate(pat))
        yield f"[{body}]\n"
        yield f"({body},)\n"
        yield f"{{{body}}}\n"
        if len(pat) <= 3:
            yield f"[{body},]\n"
            yield f"x = ({body})\n" if len(pat) > 1 else f"x = [{body}]\n"
            yield f"for t in [{body}]:\n    pass\n"
            yield f"return [{body}]\n"
    for pat in _seqs(("v{i}", "(v{i}, w{i})", "[v{i}]", "{{v{i}}}", "{{v{i}: w{i}}}", "()", "(v{i},)", "[]", "(v{i}, w{i}, u{i})", "[v{i}, w{i}]"), 1, 3 if n >= 4 else 2):
        body = ", ".join(p.format(i=i) for i, p in enumerate(pat))
        yield f"[{body}]\n"
        yield f"({body})\n"
        yield f"x = {body}\n"


_TUPLE_BODIES = ("v0, v1", "v0, v1, v2", "v0, v1,", "v0,", "*s0, v1", "v0, *s1", "v0, *s1, v2", "*s0,", "(v0, v1), v2", "v0, (v1, v2)", "v0 if c else v1, v2", "lambda: v0, v1", "v0 or v1, not v2")
_TUPLE_CONTEXTS = ("{b}", "x = {b}", "x = y = {b}", "x += {b}", "return {b}", "yield {b}", "x = yield {b}", "for t in {b}:\n    pass", "del {b}", "assert {b}", "x: T = {b}", "a[{b}]", "a[{b}] = w", "print({b})", "lambda: ({b})",
                   "with {b}:\n    pass", "if {b}:\n    pass", "raise {b}", "x = [{b}]", "x = {{{b}}}", "x = ({b})", "for t in x: yield {b}", "await {b}", "match {b}:\n    case _:\n        pass", "[e for t in ({b})]", "f'{{{b}}}'", "(yield {b})", "x = {b} = w")


def bare_tuples(n):
    """Un-parenthesised expression lists: every list shape in every statement position that takes one."""
    for ctx in _TUPLE_CONTEXTS:
        for b in _TUPLE_BODIES:
            yield ctx.format(b=b) + "\n"


_TARGETS = ("t{i}", "t{i}.a", "t{i}[0]", "(t{i}, u{i})", "[t{i}, u{i}]", "t{i}, u{i}", "t{i}, *u{i}", "(t{i},)", "*t{i}, u{i}")


def assignments(n):
    alpha = _TARGETS if n >= 4 else _TARGETS[:7]
    for pat in _seqs(alpha, 1, 3 if n >= 4 else 2):
        yield " = ".join(p.format(i=i) for i, p in enumerate(pat)) + " = v\n"
    for t in _TARGETS:
        tt = t.format(i=0)
        yield f"for {tt} in v:\n    pass\n"
        yield f"[e for {tt} in v]\n"
        yield f"with m as ({tt}):\n    pass\n" if "," in tt and "(" not in tt and "[" not in tt else f"with m as {tt}:\n    pass\n"
    for pat in _seqs(("t{i}", "t{i}.a", "t{i}[0]", "(t{i}, u{i})", "[t{i}]"), 1, min(n, 3)):
        yield "del " + ", ".join(p.format(i=i) for i, p in enumerate(pat)) + "\n"
    for k in range(1, min(n, 4) + 1):
        names = ", ".join(f"g{i}" for i in range(k))
        yield f"global {names}\n"
        yield f"def f():\n    nonlocal {names}\n"


_ALIASES = ("m{i}", "m{i} as n{i}", "m{i}.s{i}", "m{i}.s{i}.t{i} as n{i}")


def imports(n):
    for pat in _seqs(_ALIASES, 1, min(n, 3)):
        yield "import " + ", ".join(p.format(i=i) for i, p in enumerate(pat)) + "\n"
    for pat in _seqs(_ALIASES[:2], 1, min(n, 4)):
        body = ", ".join(p.format(i=i) for i, p in enumerate(pat))
        for mod in ("pkg", ".", "..pkg.sub", "...", ".pkg"):
            yield f"from {mod} import {body}\n"
            if len(pat) <= 2:
                yield f"from {mod} import ({body})\n"
                yield f"from {mod} import ({body},)\n"
    for lvl in range(0, 7):
        yield "from " + "." * lvl + ("" if lvl else "pkg") + " import x\n"
        yield "from " + "." * lvl + "pkg import *\n"


_TYPARAMS = ("T{i}", "T{i}: B{i}", "*Ts{i}", "**P{i}", "T{i}: (B{i}, C{i})")


def type_params(n):
    for pat in _seqs(_TYPARAMS, 1, min(n, 3)):
        body = ", ".join(p.format(i=i) for i, p in enumerate(pat))
        yield f"def f[{body}]():\n    pass\n"
        if len(pat) <= 2:
            yield f"class C[{body}]:\n    pass\n"
            yield f"type A[{body}] = v\n"
            yield f"class C[{body}](B):\n    pass\n"


# ----------------------------------------------------------------------------- literals

_STRPARTS = ("'a{i}'", '"b{i}"', "r'c{i}\\n'", "'''d{i}'''", "f'{{e{i}}}'", "f\"g{i}{{h{i}!r}}\"", "u'i{i}'", "rf'{{j{i}}}\\n'", "''", "f''", "f'k{i}'")
_BYTEPARTS = ("b'a{i}'", 'B"b{i}"', "rb'c{i}\\n'", "b'''d{i}'''", "Rb''")


def string_concat(n):
    alpha = _STRPARTS if n >= 4 else _STRPARTS[:6]
    for pat in _seqs(alpha, 1, 3 if n >= 4 else 2):
        parts = [p.format(i=i) for i, p in enumerate(pat)]
        yield " ".join(parts) + "\n"
        if len(pat) >= 2:
            yield "".join(parts) + "\n"
            yield "x = (" + "\n     ".join(parts) + ")\n"
            yield "x = " + " \\\n    ".join(parts) + "\n"
            yield "x = " + "\\\n".join(parts) + "\n"
    if n < 4:
        for pat in _seqs(_STRPARTS[:6:2] + _STRPARTS[4:5], 3, 3):
            yield " ".join(p.format(i=i) for i, p in enumerate(pat)) + "\n"
    for pat in _seqs(_BYTEPARTS, 1, 3 if n >= 4 else 2):
        yield " ".join(p.format(i=i) for i, p in enumerate(pat)) + "\n"


_FPARTS = ("t{i}", "{{v{i}}}", "{{v{i}!r}}", "{{v{i}:>{i}}}", "{{v{i}:{{w{i}}}}}", "{{{{", "}}}}", "{{v{i}=}}", "{{v{i}!s:^{{w{i}}}.{{p{i}}}}}", "{{v{i}[{i}]}}", "{{v{i}.a}}", "{{-v{i} + 1}}")


_FSPECIMENS = r"""
f'\N{AMPERSAND}'
f'a\N{GREEK CAPITAL LETTER DELTA}{v}'
f'\N{LEFT CURLY BRACKET}{v}\N{RIGHT CURLY BRACKET}'
f'\u2603{v}\x41\101\n\\'
f'{v:\u2603}'
f'{v:\x41>4}'
fr'\''
fr'\"'
fr'\'\"'
rf'\{v}'
rf'\N{v}'
f'{v}\''
f"{v}\""
f'{v!r}' f'{w!s}' f'{u!a}'
f'' ''
'' f''
f''
f'' f''
f'{v}' '' f'{w}'
f'{v:{w}{u}}'
f'{v:{w}.{u}}'
f'{v:a{w}b{u}c}'
f'{v!r:{w}}'
f'{ v = }'
f'{v = !r:>{w}}'
f'{v,}'
f'{v, w}'
f'{*v,}'
f'{{{v}}}'
f'{{}}{v}{{'
f'{(lambda: 1)}'
f'{(x:=1)}'
f'{x!=y}'
f'{x==y=}'
f'{x>=y}'
f'{x if y else z}'
f'{"k"}'
f'{d["k"]:{w}}'
f"{d['k']}"
f'{f"{v}"}'
f'{v:{f"{w}"}}'
f'{v!r}{w!s:>4}{u!a:{z}}'
f'{v:%Y-%m-%d}'
f'{v:{w}%}'
f'{v:}'
f'{v!r:}'
F'{v}' R'\d' rF'{w}\d' Rf'\d{u}'
FR'\\{v}\\' fR"\n{v}\t" Rf'\x41{v}' RF'\\'
f'f"{{{v}}}"'
f"f'{v}'"
f'rb"{v}" f"'
f'{v}f"{{w}}"'
f"{(<NL>    v +<NL>    w)}"
f'{(<NL>v<NL>)}'
f"{<NL>v}"
f'{v<NL>}'
f'{v:{<NL>w}}'
g(f"{(<NL>    v)}", f'{<NL>w}')
f'{v=!s}'
f'{v=!a}'
f'{v=!r}'
f'{v=:}'
f'{v=:>4}'
f'{v=!s:>4}'
f'{v()=:}'
f'{v = :>{w}}'
f'{v=}{w=!s}{u=:x}'
x = f<TQ>a<NL>    {v} = w<NL>    b<NL><TQ>
x = f'''<NL>  a<NL>{v}<NL>        b{w}<NL>'''
def g():<NL>    return f<TQ><NL>        {v}<NL>    c<NL><TQ><NL>
if c:<NL>    x = f'''a<NL>{v}<NL>b'''<NL>    y = 1<NL>
f<TQ><NL>{v}<TQ>
f<TQ>{v}<NL><TQ>
f<TQ>{<NL>v<NL>}<NL>    {w}<TQ>
f'{v:#{3 != {4:5} and w}x}'
f'{v:{ {1: 2}[1] }}'
f'{v:{w}{{}}}'
f'{ {1: 2}[1] }'
f'{ {v} }'
f'{{v}}{ {w} }'
f'{v!r:#{w}x}'
f'{v:{w:{u}}}'
f'{"{"}{v}{"}"}'
f'{v:{"{"}>4}'
f'{v[1:2]}{w[::2]:>4}'
f'{v:a:b}{w::>4}'
f'{v!s:::}'
f'{lambda x: 1}'
f'{(lambda x: 1):>4}'
f'{x:=^{w}}'
""".strip().split("\n")
_FSPECIMENS = [x.replace("<NL>", "\n").replace("<TQ>", '"' * 3) for x in _FSPECIMENS]


def fstrings(n):
    alpha = _FPARTS if n >= 4 else _FPARTS[:7]
    for pat in _seqs(alpha, 1, 3 if n >= 4 else 2):
        body = "".join(p.format(i=i) for i, p in enumerate(pat))
        yield f"f'{body}'\n"
        if len(pat) <= 2:
            yield f'f"{body}"\n'
            yield f"f'''{body}'''\n"
            yield f"rf'{body}'\n"
    if n < 4:
        for pat in _seqs(_FPARTS[:5], 3, 3):
            yield "f'" + "".join(p.format(i=i) for i, p in enumerate(pat)) + "'\n"
    # hand-picked specimens: escapes (\\N{...}, \\u, \\x) in literal text and format specs, raw f-strings with
    # escaped quotes, empty pieces, multi-line replacement fields, `=` and conversions, nested quotes
    for lit in _FSPECIMENS:
        yield lit + "\n"
        yield "x = " + lit + ", " + lit + "\n"
    # nesting of replacement fields: strings, dicts, lambdas, nested f-strings
    inner = "v"
    for d in range(1, min(n, 4) + 1):
        q = ("'", '"', "'''", '"""')[d - 1]
        inner_expr = inner
        yield f"f{q}{{{inner_expr}}}{q}\n"
        yield f"f{q}a{{{inner_expr}!r:>10}}b{q}\n"
        inner = f"f{q}{{{inner_expr}}}{q}"
    for e in ('d["k"]', 'd["k"]["j"]', "{1: 2}[1]", "(lambda: 1)()", "x if y else z", "a, b", "*a, b", "[i for i in j if k]", "{i for i in j}", "x!=y", "x == y", "x <= y!r", "(a := 1)", "'s' 't'", "f(x, k=1)", "not x", "a @ b", "x # c\n"):
        plain = "\n" not in e and "'" not in e
        yield ("f'{" + e + "}'\n") if plain else ('f"""{' + e + '}"""\n')
        yield ("f'{" + e + ":>4}'\n") if plain else ('f"""{' + e + ':>4}"""\n')


# ----------------------------------------------------------------------------- literal text

# character classes by UTF-8 width (and a combining sequence) x escape kinds: a decoder that works on
# bytes, on latin-1 or per chunk goes wrong only when BOTH occur in one literal chunk
_CHARS = ("", "a", "\u00e9", "\u20ac", "\U0001f600", "e\u0301")
_ESCAPES = ("", "\\n", "\\t", "\\\\", "\\'", '\\"', "\\x41", "\\xe9", "\\u00e9", "\\u20ac", "\\U0001f600", "\\N{AMPERSAND}", "\\101", "\\0", "\\\n", "\\d", "\\a")
_LIT_FORMS_QUICK = (
    "f'B{x}'", "f'{x}B'", 'f"B"', "Rf'B{x}'", 'FR"B"', "f\'\'\'B{x}B\'\'\'", "F'B{x}'", "rf'B{x}'", 'fr"B"', "f'{x:B}'", "f'{f\"B{y}\"}'", "'B' f'{x}B'", "f'B' 'B'",
    "'B'", '"B"', "\'\'\'B\'\'\'", "r'B'", "u'B'", "b'B'", "rb'B'", "x = ['B', f'B{y}B']",
)
_F_PREFIXES = ("f", "F", "rf", "fr", "Rf", "fR")
_QUOTES = ("'", '"', "\'\'\'", '"""')
_F_POSITIONS = ("B", "B{x}", "{x}B", "B{x}B", "{x}B{y}", "{x:B}", "{x!r:B}", "{x:B{w}B}", "{x}B{y:B}")


def _bodies():
    seen = set()
    for c in _CHARS:
        for e in _ESCAPES:
            b = c + e + c
            if b and b not in seen:
                seen.add(b)
                yield b


def literal_text(n):
    bodies = list(_bodies())
    if n < 4:
        for b in bodies:
            for form in _LIT_FORMS_QUICK:
                yield form.replace("B", b) + "\n"
        return
    for b in bodies:
        for q in _QUOTES:
            for pre in ("f", "rf"):
                for pos in _F_POSITIONS:
                    yield pre + q + pos.replace("B", b) + q + "\n"
            for pre in ("", "u", "r", "R", "b", "B", "rb", "bR"):
                yield pre + q + b + q + "\n"
            other = '"' if q[0] == "'" else "'"
            yield f"f{q}{{f{other}{b}{{y}}{other}}}{q}\n"
            yield f"f{q}{{x:{{f{other}{b}{other}}}}}{q}\n"
        for pre in _F_PREFIXES:
            yield f"{pre}'{b}{{x}}{b}'\n"
        yield f"'{b}' f'{{x}}{b}' '{b}'\n"
        yield f"x = (f'{b}'\n     '{b}'\n     f'{{y}}{b}')\n"
        yield f"x = ['{b}', f'{b}{{y}}{b}']\n"


# ----------------------------------------------------------------------------- statement sequences

_SIMPLE = ("x{i} = v{i}", "f{i}(v{i})", "pass", "del x{i}", "import m{i}", "assert c{i}, 'm'", "x{i} += v{i}", "x{i}: T = v{i}", "raise E{i} from c{i}", "global g{i}", "return v{i}", "yield v{i}", "x{i} = yield", "await v{i}", "from m{i} import n{i}", "break", "continue", "x{i}, y{i} = v{i}", "lambda: v{i}", "'s{i}'")


def simple_statement_lines(n):
    alpha = _SIMPLE if n >= 4 else _SIMPLE[:12]
    for pat in _seqs(alpha, 2, 3 if n >= 4 else 2):
        if len(pat) == 3 and not all(p in _SIMPLE[:8] for p in pat):
            continue
        stmts = [p.format(i=i) for i, p in enumerate(pat)]
        yield "; ".join(stmts) + "\n"
        if len(pat) == 2:
            yield ";".join(stmts) + ";\n"
            yield "if c: " + "; ".join(stmts) + "\n"
            yield "def f():\n    " + "; ".join(stmts) + "\n    z\n"
            yield "while c: " + "; ".join(stmts) + "\nelse: " + stmts[0] + "\n"


_BLOCKS = ("if c{i}:\n{b}", "for t{i} in i{i}:\n{b}", "while c{i}:\n{b}", "with m{i}:\n{b}", "try:\n{b}{I}finally:\n{I}    f{i}\n", "def f{i}():\n{b}", "class C{i}:\n{b}", "if c{i}:\n{I}    pass\n{I}else:\n{b}", "match s{i}:\n{I}    case {i}:\n{B}", "async def f{i}():\n{b}")


def nested_blocks(n):
    """Every nesting chain of compound statements (dedent by several levels at once afterwards)."""
    alpha = _BLOCKS if n >= 4 else _BLOCKS[:7]
    for pat in _seqs(alpha, 2, 3 if n >= 4 else 2):
        def build(k, ind):
            if k == len(pat):
                return f"{ind}leaf\n"
            tmpl = pat[k]
            inner_ind = ind + ("        " if "{B}" in tmpl else "    ")
            inner = build(k + 1, inner_ind)
            return ind + tmpl.format(i=k, b=inner, B=inner, I=ind)

        src = build(0, "")
        yield src
        yield src + "after\n"


FAMILIES = {
    "comprehension-clauses": comprehensions,
    "if-elif-else": if_chains,
    "try-handlers": try_handlers,
    "with-items": with_items,
    "decorators": decorators,
    "match-cases": match_cases,
    "comparison-chains": comparisons,
    "bool-ops": bool_ops,
    "binary-unary-ops": binary_ops,
    "redirect-lookalikes": redirect_lookalikes,
    "trailers": trailers,
    "ternary-lambda-walrus": ternaries,
    "call-arguments": call_args,
    "parameters": parameters,
    "subscripts": subscripts,
    "displays": displays,
    "assignment-targets": assignments,
    "expression-lists": bare_tuples,
    "imports": imports,
    "type-parameters": type_params,
    "string-concatenation": string_concat,
    "f-string-parts": fstrings,
    "literal-text": literal_text,
    "simple-statement-lines": simple_statement_lines,
    "nested-blocks": nested_blocks,
}


def programs(thorough):
    """[(family, text)] without duplicates, family order then generation order."""
    n = 4 if thorough else 3
    seen = set()
    out = []
    for name, fn in FAMILIES.items():
        for text in fn(n):
            if text not in seen:
                seen.add(text)
                out.append((name, text))
    return out
