"""xonsh verification machinery: bounded exhaustive exploration of the real implementation."""
