"""seqx - explicit-state breadth-first search over operation histories of the REAL implementation.

A harness object (one per worker process) provides
    reset()                 fresh implementation + reference state
    menu()                  finite list of JSON-able events enabled in the current state
    step(ev, check)         apply one event to implementation and reference; when check is
                            true return a list of Violation-json dicts for this transition
    observe()               optional per-state observers (differential checks), list of dicts
    canon()                 hashable, JSON-able canonical projection of (impl state, ref state)

A state is identified with the shortest event history reaching it; every transition is executed
by replaying that history on a freshly reset implementation (live objects rarely copy).  Replaying a
prefix must reproduce the canonical key recorded for it - otherwise the run is aborted as a tool
error (nondeterminism we do not own), never reported as a finding."""

import time

from . import common

_H = None
_FACTORY = None


def _init():
    global _H
    _H = _FACTORY()


def _expand(item):
    hist, key = item
    h = _H
    h.reset()
    for e in hist:
        h.step(e, False)
    k0 = common.jdump(h.canon())
    if k0 != key:
        raise common.ToolError(f"replay of {hist!r} diverged: {k0} != {key}")
    viols = []
    obs = getattr(h, "observe", None)
    if obs is not None:
        for v in obs() or []:
            v.setdefault("case", {})["history"] = list(hist)
            viols.append(v)
        h.reset()
        for e in hist:
            h.step(e, False)
    menu = list(h.menu())
    out = []
    first = True
    for ev in menu:
        if not first:
            h.reset()
            for e in hist:
                h.step(e, False)
        first = False
        vs = h.step(ev, True) or []
        for v in vs:
            v.setdefault("case", {})["history"] = list(hist) + [ev]
        out.append((ev, common.jdump(h.canon()), vs))
    return out, viols


PER_KEY_CAP = 200


class _CappedViols(list):
    """Breadth-first order = shortest first: per violation key only the first PER_KEY_CAP cases are kept
    (a broken tree can produce millions of cases of one key; carrying them all made the check run for
    an hour instead of reporting).  len() still counts every raw violation."""

    def __init__(self):
        super().__init__()
        self.per_key = {}
        self.dropped = 0

    def extend(self, vs):
        for v in vs:
            k = v["key"] if isinstance(v, dict) else v.key
            n = self.per_key.get(k, 0) + 1
            self.per_key[k] = n
            if n <= PER_KEY_CAP:
                list.append(self, v)
            else:
                self.dropped += 1

    def __len__(self):
        return list.__len__(self) + self.dropped


def bfs(factory, depth, ctx, budget_s=None, chunk=8, max_states=None):
    """Returns dict(states, transitions, depth_completed, exhaustive, samples, outcomes)."""
    global _FACTORY, _H
    _FACTORY = factory
    _init()
    _H.reset()
    root_key = common.jdump(_H.canon())
    seen = {root_key: ()}
    frontier = [((), root_key)]
    transitions = 0
    completed = 0
    capped = None
    t0 = time.time()
    level_sizes = []
    all_viols = _CappedViols()
    sample_hist = []
    pruned = 0
    for d in range(1, depth + 1):
        if not frontier:
            break
        if budget_s is not None and time.time() - t0 > budget_s:
            capped = f"time budget {budget_s}s reached before depth {d}"
            break
        if max_states is not None and len(seen) > max_states:
            capped = f"state cap {max_states} reached before depth {d}"
            break
        res = common.pmap(_expand, frontier, ctx.jobs, chunk=chunk, init=_init, seed=ctx.seed)
        nxt = []
        for (hist, _k), (succ, sviols) in zip(frontier, res):
            all_viols.extend(sviols)
            for ev, k, vs in succ:
                transitions += 1
                all_viols.extend(vs)
                if vs and getattr(_H, "prune_after_violation", False):
                    # do not explore beyond a violating transition: implementation and reference have
                    # diverged there, everything after it would be a consequence of the same defect
                    pruned += 1
                    continue
                if k not in seen:
                    nh = tuple(hist) + (ev,)
                    seen[k] = nh
                    nxt.append((nh, k))
        completed = d
        level_sizes.append(len(nxt))
        ctx.log(f"seqx depth {d}: +{len(nxt)} new states, {len(seen)} total, {transitions} transitions, {len(all_viols)} raw violations")
        if nxt:
            sample_hist = [list(h) for h, _ in common.pick_samples(nxt, ctx.seed, 4)]
        frontier = nxt
    # shortest-first: keep only the first (shortest) violation per key
    return {
        "states": len(seen),
        "transitions": transitions,
        "depth_completed": completed,
        "capped": capped,
        "exhaustive": capped is None,
        "level_sizes": level_sizes,
        "violations": all_viols,
        "violations_not_kept_over_per_key_cap": all_viols.dropped,
        "sample_histories": sample_hist,
        "frontier_left": len(frontier) if completed == depth else 0,
        "pruned_after_violation": pruned,
    }
