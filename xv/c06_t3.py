"""C06 T3: the real capture path with a REAL child process as final stage under the controlled scheduler.

The child is a puppet (/verif/.build/puppet, see puppet.c): it blocks on a control FIFO and performs
exactly one scripted action per command (write k bytes to fd 1/2, close an fd, exit rc), so from the
scheduler's point of view it is one more thread whose steps are atomic; the harness's puppeteer thread
issues the next command only when the scheduler picks it, and after `exit` waits until /proc/<pid>/stat
shows the child as a zombie, so poll()/waitpid(WNOHANG) are functions of the schedule.  Everything on
the xonsh side is real: cmds_to_specs, PopenThread.__init__/run/_read_write/wait, CommandPipeline,
the two NonBlockingFDReader threads, PipeChannel, jobs bookkeeping.  Popen.wait() (a blocking
waitpid) is the only primitive replaced: it becomes "enabled once the child is a zombie"."""

import os
import select
import subprocess
import threading
import time as _rt

from . import common, pysched
from .session import load_session

PUPPET = os.path.join(common.BUILD, "puppet")

SHAPES = {
    # name: (kind, actions);  action = ("w", fd, bytes) | ("c", fd) | ("x", rc)
    "$(P)-two-writes": ("stdout", [("w", 1, b"a\n"), ("w", 1, b"b"), ("x", 0)]),
    "$(P)-one-line-rc3": ("stdout", [("w", 1, b"hello\n"), ("x", 3)]),
    "$(P)-empty": ("stdout", [("x", 0)]),
    "!(P)-empty-rc3": ("object", [("x", 3)]),
    "!(P)-out-err": ("object", [("w", 1, b"o1\n"), ("w", 2, b"e1\n"), ("w", 1, b"o2\n"), ("x", 2)]),
    "!(P)-close-then-exit": ("object", [("w", 1, b"x\ny\n"), ("c", 1), ("x", 0)]),
    "$(P)-1025": ("stdout", [("w", 1, b"z" * 1025), ("w", 1, b"\n"), ("x", 0)]),
}
QUICK = ["$(P)-two-writes", "!(P)-out-err"]

_SHAPE = None
_XSH = None
_DIR = None
_CHANNELS = []


def _avail():
    """Bytes buffered at the reading ends of all channels (FIONREAD)."""
    import array
    import fcntl
    import termios

    total = 0
    for ch in _CHANNELS:
        fd = ch.read_fd
        if fd is None:
            continue
        buf = array.array("i", [0])
        try:
            fcntl.ioctl(fd, termios.FIONREAD, buf)
            total += buf[0]
        except OSError:
            pass
    return total


def _settle(before, expect_more):
    """Real-time wait (the scheduler is not involved: only the puppeteer runs) until the kernel has
    delivered the child's write to the reading end and the count is stable."""
    deadline = _rt.time() + 60
    last = -1
    stable = 0
    while _rt.time() < deadline:
        now = _avail()
        if (not expect_more or now > before) and now == last:
            stable += 1
            if stable >= 3:
                return
        else:
            stable = 0
        last = now
        _rt.sleep(0.0002)
    raise common.ToolError("child output did not arrive at the reading end")


_AFTER_SPAWN = [None]


class CoPopen(subprocess.Popen):
    """subprocess.Popen whose blocking wait() is an enabledness predicate for the scheduler."""

    def __init__(self, *a, **k):
        super().__init__(*a, **k)
        # Popen's own reaping (poll/wait) is traced too - xonsh reaps the same child out of band with
        # os.waitpid - so its lock must be cooperative
        if pysched.active() is not None:
            self._waitpid_lock = pysched.CoLock()
        # spawning is made synchronous: the child's start-up time must not decide when its
        # announcement becomes visible to the puppeteer
        if _AFTER_SPAWN[0] is not None:
            _AFTER_SPAWN[0]()

    def _xv_dead(self):
        if self.returncode is not None:
            return True
        try:
            with open(f"/proc/{self.pid}/stat") as f:
                st = f.read().rsplit(")", 1)[1].split()[0]
            return st in ("Z", "X")
        except OSError:
            return True

    def wait(self, timeout=None):
        s = pysched.active()
        if s is not None and s.me() is not None and not self._xv_dead():
            ok = s.point(pred=self._xv_dead, timeout=timeout)
            if not ok:
                raise subprocess.TimeoutExpired(self.args, timeout)
        return super().wait(timeout=timeout)


def _setup():
    global _XSH, _DIR
    import xonsh.procs.pipelines as P
    import xonsh.procs.pipes as PI
    import xonsh.procs.posix as PO
    import xonsh.procs.proxies as X
    import xonsh.procs.readers as R
    import xonsh.procs.specs as SP

    if not os.path.exists(PUPPET):
        raise common.ToolError("puppet helper not built: run ./setup.sh")
    _DIR = common.scratch_dir("c06t3")
    bindir = os.path.join(_DIR, "bin")
    os.makedirs(bindir, exist_ok=True)
    os.symlink(PUPPET, os.path.join(bindir, "puppet"))
    _XSH = load_session(data_dir=_DIR, path=[bindir], env={"XONSH_PROC_FREQUENCY": 1e-4, "THREAD_SUBPROCS": True, "XONSH_SUBPROC_RAISE_ERROR": False, "XONSH_SUBPROC_CMD_RAISE_ERROR": False, "XONSH_STORE_STDIN": False})
    R.os = pysched.os_read_shim()
    R.queue = pysched.queue_shim()
    R.time = pysched.time_shim()
    P.time = pysched.time_shim()
    X.time = pysched.time_shim()
    PO.time = pysched.time_shim()
    PI.threading = pysched.threading_shim()
    PO.threading = pysched.threading_shim()
    PO.subprocess = pysched.ShimModule(subprocess, Popen=CoPopen)
    SP.subprocess = pysched.ShimModule(subprocess, Popen=CoPopen)
    import xonsh.procs.jobs as J

    def waitpid(pid, options):
        s = pysched.active()
        if s is not None and s.me() is not None and not (options & os.WNOHANG):
            def changed():
                try:
                    with open(f"/proc/{pid}/stat") as f:
                        return f.read().rsplit(")", 1)[1].split()[0] in ("Z", "X", "T", "t")
                except OSError:
                    return True

            if not changed():
                s.point(pred=changed)
        return os.waitpid(pid, options)

    J.os = pysched.ShimModule(os, waitpid=waitpid)
    # remember every channel xonsh creates: the puppeteer waits until what the child wrote has really
    # arrived at the reading end (a pty's line discipline delivers asynchronously)
    if not hasattr(PI.PipeChannel, "_xv_wrapped"):
        for meth in ("from_pty", "from_pipe"):
            orig = getattr(PI.PipeChannel, meth).__func__

            def make(orig=orig):
                def wrapper(cls):
                    ch = orig(cls)
                    _CHANNELS.append(ch)
                    return ch

                return classmethod(wrapper)

            setattr(PI.PipeChannel, meth, make())
        PI.PipeChannel._xv_wrapped = True


_REAP_ONLY = False  # narrow alphabet: only the lines that reap the child / read or write its return code


def _traced():
    import xonsh.procs.jobs as J
    import xonsh.procs.pipelines as P
    import xonsh.procs.pipes as PI
    import xonsh.procs.posix as PO
    import xonsh.procs.readers as R

    fs = []
    for cls in (P.CommandPipeline, PO.PopenThread, PI.PipeChannel, R.QueueReader, R.NonBlockingFDReader):
        for name, f in vars(cls).items():
            if isinstance(f, property):
                continue
            if callable(f) and hasattr(f, "__code__") and name not in ("__repr__", "__str__") and not name.startswith("_signal") and not name.startswith("_restore") and "cbreak" not in name and "suspend" not in name and "pty" not in name:
                fs.append(f)
    fs += [R.populate_fd_queue, P._read_all, P._drain_stdout, P.safe_readlines, P.safe_readable, J.proc_untraced_waitpid]
    fs += [subprocess.Popen._internal_poll, subprocess.Popen._try_wait, subprocess.Popen._wait, subprocess.Popen._handle_exitstatus, subprocess.Popen.poll]
    codes = pysched.codes_of(*fs)
    if _REAP_ONLY:
        return pysched.shared_lines(codes, [r"returncode", r"os\.waitpid|_waitpid\(|_waitpid_lock|_handle_exitstatus|sts\b", r"\.poll\(|\.wait\("])
    return pysched.shared_lines(
        codes,
        [r"\.closed\b", r"\.queue\b", r"is_alive|\.join\(|\.wait\(|\.poll\(", r"returncode", r"read_queue|readlines|iterqueue|read\(|_read_write", r"close_writer|close_reader|_write_fd|_read_fd|_lock", r"os\.read|os\.waitpid|queue\.(put|get)", r"\.start\(", r"time\.sleep|sleep\(", r"hasattr\(self", r"prevs_are_closed|\.lines\b|_raw_output|\.ended\b|yield|safe_fdclose|is_fully_read|suspended", r"_waitpid\(|_waitpid_lock|_handle_exitstatus|sts\b"],
    )


def _hex(b):
    return b.hex()


def _body(s):
    from xonsh.built_ins import subproc_captured_object, subproc_captured_stdout

    kind, actions = SHAPES[_SHAPE]
    del _CHANNELS[:]
    ctl = os.path.join(_DIR, f"ctl.{os.getpid()}")
    ack = os.path.join(_DIR, f"ack.{os.getpid()}")
    for p in (ctl, ack):
        try:
            os.unlink(p)
        except OSError:
            pass
        os.mkfifo(p)
    # O_RDWR on both so that neither side's open() can block and EOF never appears by accident
    ctl_fd = os.open(ctl, os.O_RDWR)
    ack_fd = os.open(ack, os.O_RDWR)
    info = {"pid": None, "acks": []}

    def readable():
        return bool(select.select([ack_fd], [], [], 0)[0])

    def read_ack():
        # the puppet answers within microseconds of acting; it depends on nothing the scheduler owns
        buf = b""
        deadline = _rt.time() + 90
        while not buf.endswith(b"\n"):
            if _rt.time() > deadline:
                raise common.ToolError("puppet did not acknowledge")
            if select.select([ack_fd], [], [], 1.0)[0]:
                buf += os.read(ack_fd, 64)
        return buf.decode().strip()

    def zombie(pid):
        try:
            with open(f"/proc/{pid}/stat") as f:
                return f.read().rsplit(")", 1)[1].split()[0] in ("Z", "X")
        except OSError:
            return True

    def puppeteer():
        s.point(pred=readable)  # the child announced itself
        hello = read_ack()
        info["pid"] = int(hello[1:])
        for a in actions:
            s.point()
            if a[0] == "w":
                before = _avail()
                os.write(ctl_fd, f"w {a[1]} {_hex(a[2])}\n".encode())
                info["acks"].append(read_ack())
                _settle(before, bool(a[2]))
            elif a[0] == "c":
                os.write(ctl_fd, f"c {a[1]}\n".encode())
                info["acks"].append(read_ack())
                _settle(_avail(), False)
            elif a[0] == "x":
                os.write(ctl_fd, f"x {a[1]}\n".encode())
                deadline = _rt.time() + 90
                while not zombie(info["pid"]):
                    if _rt.time() > deadline:
                        raise common.ToolError("puppet did not exit")
                    _rt.sleep(0.0002)
        s.point()

    def after_spawn():
        deadline = _rt.time() + 90
        while not select.select([ack_fd], [], [], 0.5)[0]:
            if _rt.time() > deadline:
                raise common.ToolError("puppet did not start")

    _AFTER_SPAWN[0] = after_spawn
    pt = threading.Thread(target=puppeteer, name="puppeteer")
    res = {}
    try:
        pt.start()
        cmd = ["puppet", ctl, ack]
        if kind == "stdout":
            out = subproc_captured_stdout(cmd)
            res = {"out": out, "rtn": _XSH.lastcmd.rtn if getattr(_XSH, "lastcmd", None) is not None else None}
        else:
            obj = subproc_captured_object(cmd)
            obj.end()
            res = {"out": obj.out, "rtn": obj.rtn, "raw": obj.raw_out, "err": obj.err}
        pt.join()
        left = []
        for t in list(s.threads[1:]):
            if t.state != "finished":
                s.point(pred=lambda t=t: t.state == "finished", timeout=5.0, early=False)
                if t.state != "finished":
                    left.append(t.name[:60])
        res["threads_left"] = left
    finally:
        _AFTER_SPAWN[0] = None
        # never leave a puppet behind
        pid = info["pid"]
        if pid:
            try:
                os.kill(pid, 9)
            except OSError:
                pass
            try:
                os.waitpid(pid, 0)
            except OSError:
                pass
        os.close(ctl_fd)
        os.close(ack_fd)
        for p in (ctl, ack):
            try:
                os.unlink(p)
            except OSError:
                pass
        from xonsh.procs.jobs import get_tasks

        get_tasks().clear()
        _XSH.all_jobs.clear()
    return res


def _check(r, prefix):
    viols = []
    kind, actions = SHAPES[_SHAPE]

    def V(key, clause, observed, expected):
        viols.append({"key": f"T3:{key}", "clause": clause, "case": {"tier": "T3", "shape": _SHAPE, "reap": _REAP_ONLY}, "observed": observed, "expected": expected})

    if r.outcome or r.error or r.errors:
        V(f"abnormal:{r.outcome or 'exception'}:{_SHAPE.split('-')[0]}", "no deadlock / livelock / exception under any schedule", [r.outcome, r.error, [e[1][:200] for e in r.errors]], "normal completion")
        return viols
    v = r.value
    data = b"".join(a[2] for a in actions if a[0] == "w" and a[1] == 1)
    errd = b"".join(a[2] for a in actions if a[0] == "w" and a[1] == 2)
    rc = [a[1] for a in actions if a[0] == "x"][0]
    want = data.decode("latin1").replace("\r\n", "\n").replace("\r", "\n")
    if kind == "stdout" and want.endswith("\n") and want.count("\n") == 1:
        want = want[:-1]
    if v["out"] != want:
        V(f"output-differs:{kind}:{'lost' if len(v['out'] or '') < len(want) else 'extra'}", "captured output is exactly what the command wrote", v["out"], want)
    if kind == "object":
        if v.get("raw") is not None and v["raw"] != data:
            V("raw-out-differs", "raw_out is exactly the bytes written", v["raw"][:60], data[:60])
        if errd and errd.decode() in (v["out"] or ""):
            V("stderr-mixed-into-out", "stderr is not mixed into the captured stdout", v["out"], want)
    if v["rtn"] != rc:
        V(f"returncode:{kind}", "the reported return code is the final stage's exit status", v["rtn"], rc)
    if v.get("threads_left"):
        V(f"helper-threads-left:{kind}", "helper threads end with the command", v["threads_left"], [])
    return viols


def run_part(ctx):
    global _SHAPE, _REAP_ONLY
    if not os.path.exists(PUPPET):
        ctx.assumptions.append("puppet helper missing (setup.sh not run?): T3 skipped")
        return None
    bound = ctx.pick(1, 2)
    pysched.COST_MODE = "deviation"
    names = list(SHAPES) if ctx.thorough else QUICK
    _setup()
    traced = _traced()
    total = {"executions": 0, "steps": 0, "sigs": set(), "capped": None}
    per = {}
    try:
        for name in names:
            _SHAPE = name
            r0 = pysched.run_once(_body, [], traced, 60000)
            v0 = _check(r0, [])
            if v0:
                ctx.add_violations([dict(v, key=v["key"] + ":default-schedule") for v in v0])
                ctx.log(f"T3 {name}: default schedule already violates: {v0[0]['key']} {str(v0[0]['observed'])[:200]}")
                continue
            viols, st = pysched.explore(_body, _check, traced, bound, ctx, setup=_setup, max_execs_per_shard=ctx.pick(400, 40000), max_steps=60000, budget_s=ctx.pick(45, int(__import__("os").environ.get("XV_T3_BUDGET", "150"))))
            ctx.add_violations(viols)
            total["executions"] += st.executions
            total["steps"] += st.steps
            total["sigs"] |= st.sigs
            total["capped"] = total["capped"] or st.capped
            per[name] = st.executions
            ctx.log(f"T3 {name}: {st.executions} schedules, {st.steps} steps, max {st.max_choice_points} choice points, {len(viols)} raw violations")
        # the reaping race: xonsh reaps children out of band (os.waitpid in proc_untraced_waitpid, from the
        # main thread AND from PopenThread.run) next to Popen's own poll()/wait(); on the narrow alphabet
        # of lines that reap the child or touch its return code a deeper bound is affordable
        _REAP_ONLY = True
        try:
            rtraced = _traced()
            for name in ["!(P)-empty-rc3"] + (["$(P)-one-line-rc3", "!(P)-out-err"] if ctx.thorough else []):
                _SHAPE = name
                viols, st = pysched.explore(_body, _check, rtraced, bound + 1, ctx, setup=_setup, max_execs_per_shard=ctx.pick(20000, 400000), max_steps=60000, budget_s=ctx.pick(100, 3600 if name == "!(P)-empty-rc3" else 600))
                ctx.add_violations([dict(v, key=v["key"] + ":reap-alphabet") for v in viols])
                total["executions"] += st.executions
                total["steps"] += st.steps
                total["sigs"] |= st.sigs
                total["capped"] = total["capped"] or st.capped
                per[name + " [reap alphabet, bound %d]" % (bound + 1)] = st.executions
                ctx.log(f"T3 {name} (reap alphabet, deviation bound {bound + 1}): {st.executions} schedules, {st.steps} steps, max {st.max_choice_points} choice points, {len(viols)} raw violations")
        finally:
            _REAP_ONLY = False
    finally:
        pysched.COST_MODE = "preemption"
    ctx.sample({"tier": "T3", "shape": names[0], "child_script": [[a[0], a[1]] + ([a[2].decode("latin1")] if len(a) > 2 else []) for a in SHAPES[names[0]][1]], "deviation_bound": bound})
    return {
        "states": len(total["sigs"]),
        "transitions": total["steps"],
        "executions": total["executions"],
        "exhaustive": total["capped"] is None,
        "summary": {"deviation_bound": bound, "schedules_per_shape": per, "capped": total["capped"], "child": "real puppet process single-stepped through FIFOs"},
    }


def replay(rec):
    global _SHAPE, _REAP_ONLY
    _SHAPE = rec["case"]["shape"]
    _REAP_ONLY = bool(rec["case"].get("reap"))
    pysched.COST_MODE = "deviation"
    _setup()
    r = pysched.run_once(_body, rec["case"].get("schedule", []), _traced(), 60000)
    vs = _check(r, [])
    print("outcome", r.outcome, r.error, r.errors, "value", r.value)
    for v in vs:
        print("VIOLATION", v["key"], v["observed"], v["expected"])
    return 1 if vs else 0
