"""Parser tables built from /repo's *working tree*.

xonsh loads `xonsh.parser_table` / `xonsh.completion_parser_table` with PLY's
optimize=True, i.e. without comparing the table's grammar signature with the grammar in the
source.  The checked-out tables are git-ignored generated files, so a grammar edit would be
invisible.  ensure_tables() loads a cached table from /verif/.build/tables, asks PLY (with
optimize=False) to compare its signature with the grammar of the working tree, lets PLY
regenerate it on mismatch (into /verif/.build/tables, never into /repo) and finally pins the
validated module in sys.modules so that every later Parser() in this process tree uses it."""

import fcntl
import importlib.util
import os
import shutil
import sys
import tempfile

import hashlib

from .common import BUILD, REPO

# one cache per repository root so that scratch worktrees (XV_REPO=...) never thrash /repo's cache
TABDIR = os.path.join(BUILD, "tables" if REPO == "/repo" else "tables-" + hashlib.sha256(REPO.encode()).hexdigest()[:10])


def _load_as(modname, path):
    spec = importlib.util.spec_from_file_location(modname, path)
    mod = importlib.util.module_from_spec(spec)
    spec.loader.exec_module(mod)
    sys.modules[modname] = mod
    pkg, _, leaf = modname.rpartition(".")
    if pkg in sys.modules:
        setattr(sys.modules[pkg], leaf, mod)
    return mod


def _ensure_one(modname, make_parser, force_parse):
    leaf = modname.rpartition(".")[2]
    cached = os.path.join(TABDIR, leaf + ".py")
    os.makedirs(TABDIR, exist_ok=True)
    # No exclusive lock: validation only reads the cached module, regeneration happens in a private
    # temporary directory and the result is moved into place atomically.  (An exclusive lock made every
    # concurrently starting check wait for all the others' 1-2 s validation.)  The worst case is that
    # two processes regenerate the same table at the same time.
    if True:
        if os.path.exists(cached):
            _load_as(modname, cached)
            old_sig = getattr(sys.modules[modname], "_lr_signature", None)
        else:
            # no cache: make the import fail so PLY regenerates from the working tree
            sys.modules.pop(modname, None)
            old_sig = None
            sys.modules[modname] = None  # import -> ImportError
        tmpdir = tempfile.mkdtemp(prefix="gen.", dir=TABDIR)
        try:
            p = make_parser(tmpdir)
            force_parse(p)  # joins the YaccLoader thread
            gen = os.path.join(tmpdir, leaf + ".py")
            if os.path.exists(gen):
                os.replace(gen, cached)
                regenerated = True
            else:
                regenerated = False
        finally:
            shutil.rmtree(tmpdir, ignore_errors=True)
        if sys.modules.get(modname) is None:
            sys.modules.pop(modname, None)
        _load_as(modname, cached)
    return regenerated


def ensure_tables(completion=True):
    """Returns {'parser': regenerated?, 'completion': regenerated?}."""
    import xonsh  # noqa: F401
    from xonsh.parser import Parser

    out = {}

    def mk(tmpdir):
        return Parser(yacc_optimize=False, yacc_table="xonsh.parser_table", outputdir=tmpdir)

    def force(p):
        p.parse("1\n")

    out["parser"] = _ensure_one("xonsh.parser_table", mk, force)
    if completion:
        from xonsh.parsers.completion_context import CompletionContextParser

        def mk2(tmpdir):
            return CompletionContextParser(
                yacc_optimize=False, yacc_table="xonsh.completion_parser_table", outputdir=tmpdir
            )

        def force2(p):
            p.parse("ls ", 3)

        out["completion"] = _ensure_one("xonsh.completion_parser_table", mk2, force2)
    return out


if __name__ == "__main__":
    print(ensure_tables())
