"""./check <ID> --tier quick|thorough [--replay FILE] [--jobs N]"""

import argparse
import importlib
import json
import os
import sys
import traceback

from . import common


def main(argv=None):
    import faulthandler
    import signal

    global _FH
    if os.environ.get("XV_FAULT_DUMP"):
        _FH = open(os.environ["XV_FAULT_DUMP"] + f".{os.getpid()}", "w")
        faulthandler.register(signal.SIGUSR1, file=_FH, all_threads=True, chain=False)
    ap = argparse.ArgumentParser()
    ap.add_argument("prop")
    ap.add_argument("--tier", default=os.environ.get("VERIF_TIER") or "quick", choices=["quick", "thorough"])
    ap.add_argument("--replay")
    ap.add_argument("--jobs", type=int, default=int(os.environ.get("XV_JOBS", "0")) or min(16, os.cpu_count() or 1))
    ap.add_argument("--seed", type=int, default=None)
    args = ap.parse_args(argv)
    seed = args.seed
    if seed is None:
        try:
            seed = int(os.environ.get("VERIF_SEED", "0"))
        except ValueError:
            seed = 0
    prop = args.prop.upper()
    # all scratch under /dev/shm; HOME etc. scrubbed so nothing of the user's config is read
    root = common.scratch_root()
    for var in ("HOME", "XDG_CONFIG_HOME", "XDG_DATA_HOME", "XDG_CACHE_HOME", "XONSH_DATA_DIR", "XONSH_CACHE_DIR", "XONSH_CONFIG_DIR", "TMPDIR"):
        d = os.path.join(root, "home")
        os.makedirs(d, exist_ok=True)
        os.environ[var] = d
    for var in ("XONSH_HISTORY_FILE", "XONSH_HISTORY_BACKEND", "XONSH_TRACEBACK_LOGFILE", "PROMPT", "HISTCONTROL"):
        os.environ.pop(var, None)
    mod = importlib.import_module(f"xv.{prop.lower()}")
    if args.replay:
        with open(args.replay) as f:
            rec = json.load(f)
        rc = mod.replay(rec)
        sys.stdout.flush()
        os._exit(rc)
    ctx = common.Ctx(prop, args.tier, seed, args.jobs, mod.LEVEL)
    try:
        mod.run(ctx)
        rc = common.finish(ctx)
    except common.ToolError as e:
        print(f"TOOL-ERROR property={prop}: {e}", file=sys.stderr)
        rc = 2
    except BaseException:  # noqa: BLE001
        traceback.print_exc()
        print(f"TOOL-ERROR property={prop}: unexpected exception in the harness", file=sys.stderr)
        rc = 2
    sys.stdout.flush()
    sys.stderr.flush()
    import shutil

    shutil.rmtree(root, ignore_errors=True)
    common.cleanup_worker_scratch()
    # parked helper threads of the code under test must not block interpreter exit
    os._exit(rc)


if __name__ == "__main__":
    main()
