"""C01 minimiser: deterministic greedy shrinking of a failing source text.

The derivation that is shrunk is CPython's own parse of the failing text (the concrete layer may
have respelled the canonical text, so the text - not the generator's tree - is the ground truth).

Structural candidates (`tree_candidates`): sub-trees are replaced by the simplest alternative of
their sort (`x`, `0`, `()` for expressions, `pass` for statements, `_` / `0` for patterns, an `if x:`
header for compound statements, `x=<expr>` / `<expr>` as the simplest statement around an
expression), children are hoisted over their parents, operators are replaced by the simplest one.
Textual candidates (`text_candidates`): matched parentheses, bracket kinds, token windows, line
windows, line breaks, literal / name spellings, layout oddities (tabs, CR, form feeds, continuation
lines, comments, trailing blanks) and inter-token blanks are deleted or normalised.

The canonical leaves are `x` and `0` on purpose: `a`, `e`, `o`, `1`, `2` are special to xonsh's
tokenizer (redirect prefixes), so a simplification must not introduce them.

Phase 1 takes a candidate iff it is strictly smaller in a well-founded order, CPython still accepts
it and the real parser fails on it with the *same signature*.  When phase 1 is stuck on a *rejection*,
phase 2 tries the purely deleting structural candidates (no statement-level hoists, no new leaves)
once more, accepting any rejection - this folds e.g. `match*x<x` onto `match+x`, whose parser errors
are merely reported at different tokens - and phase 1 resumes with the new signature.
Wrong-tree and compile failures never change signature (their signature is already positional).  First improvement wins
and the search restarts from it, so the result is a pure function of (text, mode, signature)."""

from __future__ import annotations

import ast
import io
import keyword
import token as T
import tokenize

from . import c01_rw as rw

NAME0, NUM0 = "x", "0"
_SIMPLE_OPS = {"(", ")", "[", "]", "{", "}", ",", ":", ".", ";", "=", "+"}
_RANK = {ch: i for i, ch in enumerate("xabcdefghijklmnopqrstuvwyz'\uff58 \u20ac")}


def size_key(text):
    """(#tokens, token cost, length, oddness, ranked text): a well-founded order; smaller = simpler.
    `pass` is the cheapest token, then `x` / `0` / other keywords, then other names and literals; the
    final tie-break prefers lower case and the single quote."""
    try:
        toks = [t for t in tokenize.generate_tokens(io.StringIO(text).readline) if t.type not in rw._SKIP]
    except (tokenize.TokenError, SyntaxError, ValueError):
        return (10**6, 0, len(text), 0, ())
    cost = 0
    for t in toks:
        if t.type == T.NAME:
            if t.string == "pass":
                continue
            if keyword.iskeyword(t.string):
                cost += 2 if t.string in ("None", "True", "False") else 1
            else:
                cost += 1 if t.string == NAME0 else (2 if len(t.string) == 1 and t.string.isascii() else 3)
        elif t.type == T.OP:
            cost += 0 if t.string in _SIMPLE_OPS else 1
        elif t.type == T.NUMBER:
            cost += 1 if t.string == NUM0 else (2 if t.string == "1" else 3)
        elif t.type == T.STRING:
            cost += 4
        else:
            cost += 1
    odd = sum(1 for ch in text if not (" " <= ch <= "~" or ch == "\n"))
    return (len(toks), cost, len(text), odd, tuple(_RANK.get(ch, 100 + ord(ch)) for ch in text))


def _stmt_rows(node):
    r0 = node.lineno - 1
    if getattr(node, "decorator_list", None):
        r0 = min(r0, node.decorator_list[0].lineno - 1)
    return r0, node.end_lineno


def _dedent_block(src, stmts, indent):
    """Text of a statement list re-indented to `indent` (None if the rows are not a clean block)."""
    first, last = stmts[0], stmts[-1]
    rows = src.rows
    r0, r1 = _stmt_rows(first)[0], last.end_lineno
    if r1 > len(rows):
        return None
    # the block must own its rows completely
    if src.boff(first.lineno, first.col_offset) != src.starts[first.lineno - 1] + len(rw._indent_of(rows[first.lineno - 1])):
        return None
    ind = rw._indent_of(rows[r0])
    out = []
    for r in rows[r0:r1]:
        if r.startswith(ind):
            out.append(indent + r[len(ind) :])
        elif not r.strip():
            out.append(r)
        else:
            return None
    txt = "".join(out)
    return txt if txt.endswith(("\n", "\r")) else txt + "\n"


def _owns_rows(src, n):
    rows = src.rows
    r0, r1 = _stmt_rows(n)
    if r0 >= len(rows) or r1 > len(rows):
        return False
    ind = rw._indent_of(rows[r0])
    first_ok = rows[r0][len(ind) :].startswith("@") or src.boff(n.lineno, n.col_offset) == src.starts[n.lineno - 1] + len(ind)
    tail = src.text[src.boff(n.end_lineno, n.end_col_offset) : src.starts[r1]]
    return first_ok and not tail.strip(" \t\r\n\f;")


def _near_exprs(n):
    """The outermost expression nodes below statement n (through withitems, keywords, handlers ...)."""
    out = []

    def walk(x):
        for ch in ast.iter_child_nodes(x):
            if isinstance(ch, ast.expr):
                if hasattr(ch, "end_col_offset"):
                    out.append(ch)
            elif not isinstance(ch, ast.stmt):
                walk(ch)

    walk(n)
    return out


def _cpy(text, mode):
    try:
        return ast.parse(text, "<c01>", mode)
    except (SyntaxError, ValueError, OverflowError, RecursionError, MemoryError):
        return None


_KW_OPS = ("and", "or", "in", "is")


def tree_candidates(text, mode, hoist_to_stmt=True):
    """Structural shrink candidates, outermost first.  With hoist_to_stmt=False (phase 2) the
    candidates that move an expression into a new statement context, and those that put a *new*
    expression leaf (`x`, `0`, `()`) in place of a sub-tree, are left out: what remains only deletes
    material (child over parent, block over compound statement, `pass` / `_` / `if x:` for a whole
    statement / pattern / header, simplest operator), so a failure of the candidate stems from
    something the input already contained - never from a known-bug trigger the shrink step itself
    introduced (`x, *y = z` must not be explained by `() = z`)."""
    src = rw.Src(text)
    tree = _cpy(text, mode)
    rows = src.rows
    if tree is None:
        return
    body = getattr(tree, "body", None)
    if isinstance(body, list) and len(body) > 1:
        for s in body:
            if _owns_rows(src, s):
                r0, r1 = _stmt_rows(s)
                yield "".join(rows[r0:r1])
        for s in body:
            if _owns_rows(src, s):
                r0, r1 = _stmt_rows(s)
                yield "".join(rows[:r0]) + "".join(rows[r1:])
    order = []

    def visit(n, parent, stmt):
        order.append((n, parent, stmt))
        for ch in ast.iter_child_nodes(n):
            visit(ch, n, n if isinstance(n, ast.stmt) else stmt)

    visit(tree, None, None)
    for n, parent, stmt in order:
        if isinstance(n, ast.stmt):
            r0, r1 = _stmt_rows(n)
            owns = _owns_rows(src, n)
            ind = rw._indent_of(rows[r0]) if r0 < len(rows) else ""
            if owns:
                pre, post = "".join(rows[:r0]), "".join(rows[r1:])
                hrow = rows[n.lineno - 1]
                eol = hrow[len(hrow.rstrip("\r\n")) :] or "\n"
                blocks = []
                for fld in ("body", "orelse", "finalbody"):
                    sub = getattr(n, fld, None)
                    if isinstance(sub, list) and sub and isinstance(sub[0], ast.stmt):
                        blocks.append(sub)
                for h in list(getattr(n, "handlers", [])) + list(getattr(n, "cases", [])):
                    if h.body:
                        blocks.append(h.body)
                # hoist a child block over the compound statement
                for sub in blocks:
                    blk = _dedent_block(src, sub, ind)
                    if blk:
                        yield pre + blk + post
                    else:
                        bs, be = src.span(sub[0])[0], src.span(sub[-1])[1]
                        yield pre + ind + text[bs:be] + eol + post
                # the simplest statements around a nearest expression: `<expr>` and `x=<expr>`
                if hoist_to_stmt:
                    for ch in _near_exprs(n):
                        cs, ce = src.span(ch)
                        if not isinstance(n, ast.Expr):
                            yield pre + ind + text[cs:ce] + eol + post
                        if not (isinstance(n, ast.Assign) and len(n.targets) == 1 and isinstance(n.targets[0], ast.Name) and n.targets[0].id == NAME0):
                            yield pre + ind + NAME0 + "=" + text[cs:ce] + eol + post
                            yield pre + ind + NAME0 + "= " + text[cs:ce] + eol + post
                # simplest compound statement around the same block: `if x:`
                for sub in blocks:
                    blk = _dedent_block(src, sub, ind + " ")
                    if blk:
                        yield pre + ind + "if " + NAME0 + ":" + eol + blk + post
                    else:
                        bs, be = src.span(sub[0])[0], src.span(sub[-1])[1]
                        yield pre + ind + "if " + NAME0 + ":" + text[bs:be] + eol + post
                        yield pre + ind + "if " + NAME0 + ":" + eol + ind + " " + text[bs:be] + eol + post
            if not isinstance(n, ast.Pass):
                s, e = src.span(n)
                if getattr(n, "decorator_list", None):
                    s = min(s, src.span(n.decorator_list[0])[0] - 1)
                yield text[:s] + "pass" + text[e:]
        elif isinstance(n, ast.expr) and hasattr(n, "end_col_offset"):
            if isinstance(n, ast.FormattedValue) or (isinstance(parent, ast.JoinedStr) and isinstance(n, ast.Constant)):
                continue
            s, e = src.span(n)
            cur = text[s:e]
            for simple in (NAME0, NUM0, "()") if hoist_to_stmt else ():
                if cur != simple:
                    yield text[:s] + simple + text[e:]
            for ch in ast.iter_child_nodes(n):
                if isinstance(ch, ast.expr) and hasattr(ch, "end_col_offset") and not isinstance(ch, ast.FormattedValue):
                    cs, ce = src.span(ch)
                    if s <= cs and ce <= e and (cs, ce) != (s, e):
                        yield text[:s] + text[cs:ce] + text[e:]
                elif isinstance(ch, ast.FormattedValue):
                    cs, ce = src.span(ch.value)
                    yield text[:s] + text[cs:ce] + text[e:]
            # an inner expression in the simplest statement of its own (keeps what precedes it on the line)
            if hoist_to_stmt and stmt is not None and not isinstance(parent, ast.stmt) and _owns_rows(src, stmt):
                r0, r1 = _stmt_rows(stmt)
                ind = rw._indent_of(rows[r0])
                hrow = rows[stmt.lineno - 1]
                eol = hrow[len(hrow.rstrip("\r\n")) :] or "\n"
                yield "".join(rows[:r0]) + ind + NAME0 + "=" + cur + eol + "".join(rows[r1:])
                yield "".join(rows[:r0]) + ind + NAME0 + "= " + cur + eol + "".join(rows[r1:])
        elif isinstance(n, ast.pattern):
            s, e = src.span(n)
            for simple in ("_", NUM0):
                if text[s:e] != simple:
                    yield text[:s] + simple + text[e:]
            for ch in ast.iter_child_nodes(n):
                if isinstance(ch, ast.pattern):
                    cs, ce = src.span(ch)
                    yield text[:s] + text[cs:ce] + text[e:]
    yield from op_candidates(text, src)


def op_candidates(text, src=None):
    """Operators replaced by the simplest of their kind."""
    src = src or rw.Src(text)
    for t in src.toks:
        if (t.type == T.OP and t.string not in _SIMPLE_OPS and t.string not in ("->", ":=", "...", "!", "@")) or (t.type == T.NAME and t.string in _KW_OPS):
            s, e = src.off(t.start), src.off(t.end)
            for op in ("=", "+", "<"):
                if op != t.string:
                    yield text[:s] + op + text[e:]


def text_candidates(text, mode):
    """Textual shrink candidates (parentheses, windows, layout, spellings, blanks)."""
    src = rw.Src(text)
    rows = src.rows
    # matched parentheses: drop them; other brackets: turn into parentheses
    yield from rw.r_paren_remove(src)
    stack = []
    for t in src.toks:
        if t.type == T.OP and t.string in "([{":
            stack.append(t)
        elif t.type == T.OP and t.string in ")]}" and stack:
            o = stack.pop()
            if o.string != "(":
                o1, c1 = src.off(o.start), src.off(t.start)
                yield text[:o1] + "(" + text[o1 + 1 : c1] + ")" + text[c1 + 1 :]
    # row windows
    for w in (3, 2, 1):
        for i in range(0, len(rows) - w + 1):
            if w < len(rows):
                yield "".join(rows[:i]) + "".join(rows[i + w :])
    # line breaks: join a row with the next one
    for i in range(len(rows) - 1):
        head = "".join(rows[:i]) + rows[i].rstrip("\r\n")
        nxt = rows[i + 1]
        tail = "".join(rows[i + 2 :])
        yield head + nxt.lstrip(" \t\f") + tail
        yield head + " " + nxt.lstrip(" \t\f") + tail
        if head.endswith("\\"):
            yield head[:-1] + nxt.lstrip(" \t\f") + tail
            yield head[:-1].rstrip(" ") + " " + nxt.lstrip(" \t\f") + tail
    # token windows (within a row): delete tokens i..i+w-1 with the whitespace that follows
    toks = [t for t in src.toks if t.type not in (T.NL, T.NEWLINE, T.INDENT, T.DEDENT, T.ENDMARKER)]
    for w in (4, 3, 2, 1):
        for i in range(0, len(toks) - w + 1):
            a, b = toks[i], toks[i + w - 1]
            if a.start[0] != b.end[0]:
                continue
            s = src.off(a.start)
            if i + w < len(toks) and toks[i + w].start[0] == b.end[0]:
                e = src.off(toks[i + w].start)
            else:
                e = src.off(b.end)
                if i > 0 and toks[i - 1].end[0] == a.start[0]:
                    s = src.off(toks[i - 1].end)
            yield text[:s] + text[e:]
    # layout normalisation
    for a, b in (("\r\n", "\n"), ("\r", "\n"), ("\f", ""), ("\t", " "), ("\ufeff", "")):
        if a in text:
            yield text.replace(a, b)
            i = text.find(a)
            while i >= 0:
                yield text[:i] + b + text[i + len(a) :]
                i = text.find(a, i + 1)
    yield "".join(r.rstrip(" \t\f\r\n") + ("\n" if r.endswith(("\n", "\r")) else "") for r in rows)
    yield "".join(r.lstrip(" \t\f") if (not r.strip() or r.lstrip(" \t\f").startswith("#")) else r for r in rows)
    for new in rw.r_indent(src):
        yield new
        break
    # literal / name spellings
    fstack = []
    for t in src.toks:
        s, e = src.off(t.start), src.off(t.end)
        if t.type == T.NUMBER and t.string != NUM0:
            yield text[:s] + NUM0 + text[e:]
            if t.string != "1":
                yield text[:s] + "1" + text[e:]  # `0or`, `0b` ... are not tokens: second simplest number
        elif t.type == T.STRING:
            for lit in ("''", "'x'", "b''", t.string.lstrip("uUrRbB"), t.string[1:]):
                if lit != t.string:
                    yield text[:s] + lit + text[e:]
            if len(t.string) >= 6 and t.string[-3:] in ("'''", '"""'):
                q = t.string[-1]
                p = t.string[: t.string.index(q)]
                yield text[:s] + p + q + t.string[len(p) + 3 : -3] + q + text[e:]
            if t.string[-1] == '"':
                yield text[:s] + t.string.replace('"', "'") + text[e:]
            q = t.string[-1]
            b0 = t.string.index(q)
            nq = 3 if t.string[b0 : b0 + 3] == q * 3 and len(t.string) - b0 >= 6 else 1
            for w in (2, 1):
                for i in range(b0 + nq, len(t.string) - nq - w + 1):
                    yield text[:s] + t.string[:i] + t.string[i + w :] + text[e:]
            for i in range(b0 + nq, len(t.string) - nq):
                ch = t.string[i]
                if (ch.isalnum() or ord(ch) > 127) and ch != "x" and t.string[i - 1] != "\\":
                    yield text[:s] + t.string[:i] + "x" + t.string[i + 1 :] + text[e:]
        elif t.type == T.FSTRING_START:
            fstack.append(t)
        elif t.type == T.FSTRING_END and fstack:
            st = fstack.pop()
            s0, s1 = src.off(st.start), src.off(st.end)
            mid = text[s1:s]
            pre = st.string[: -len(t.string)]
            raw = "fr" if "r" in pre.lower() else "f"
            for p, q in (("f", "'"), ("f", t.string), ("f", t.string[0]), (pre, "'"), (raw, "'"), (raw, t.string[0]), (raw, t.string)):
                if (p + q, q) != (st.string, t.string):
                    yield text[:s0] + p + q + mid + q + text[e:]
            for w in (2, 1):
                for i in range(s1, s - w + 1):
                    yield text[:i] + text[i + w :]
            for i in range(s1, s):
                ch = text[i]
                if (ch.isalnum() or ord(ch) > 127) and ch != "x" and text[i - 1] != "\\":
                    yield text[:i] + "x" + text[i + 1 :]
                    if ord(ch) > 127 and ch != "\u20ac":
                        yield text[:i] + "\u20ac" + text[i + 1 :]  # simplest non-ASCII non-letter
        elif t.type == T.FSTRING_MIDDLE and t.string:
            yield text[:s] + text[e:]
            yield text[:s] + "x" + text[e:]
        elif t.type == T.COMMENT:
            yield text[:s] + text[e:]
            yield text[:s] + "#" + text[e:]
        elif t.type == T.NAME and not keyword.iskeyword(t.string) and t.string != NAME0:
            for nm in (NAME0, "a", "r", t.string[0], "é", "\uff58", "case"):
                if nm != t.string:
                    yield text[:s] + nm + text[e:]
    # whitespace gaps: shrink to one blank, then to nothing
    for a, b, _ in rw._real_pairs(src):
        if a.end[1] < b.start[1]:
            o1, o2 = src.off(a.end), src.off(b.start)
            if o2 - o1 > 1:
                yield text[:o1] + " " + text[o2:]
            yield text[:o1] + text[o2:]
    if text.endswith(("\n", "\r")) and len(text) > 1:
        yield text[:-1]


def candidates(text, mode):
    yield from tree_candidates(text, mode, True)
    yield from text_candidates(text, mode)


_REJECT_KINDS = ("reject:", "crash:", "hang:")


class Minimiser:
    """evaluate(text, mode) -> None (not a CPython program) | 'ok' | failure signature."""

    def __init__(self, evaluate):
        self.evaluate = evaluate
        self.memo = {}
        self.memo2 = {}
        self.evals = 0

    def _first(self, cur, mode, cands, accept):
        cur_size = size_key(cur)
        seen = set()
        for c in cands:
            if c in seen or c == cur or not c.strip():
                continue
            seen.add(c)
            if size_key(c) >= cur_size:
                continue
            self.evals += 1
            r = self.evaluate(c, mode)
            if accept(r):
                return c, r
        return None, None

    def phase1(self, text, mode, sig):
        """Fixpoint of same-signature shrinking."""
        path = []
        cur = text
        while True:
            k = (mode, cur, sig)
            res = self.memo.get(k)
            if res is not None:
                break
            path.append(k)
            nxt, _ = self._first(cur, mode, candidates(cur, mode), lambda r: r == sig)
            if nxt is None:
                res = cur
                break
            cur = nxt
        if len(self.memo) > 300000:
            self.memo.clear()
        for k in path:
            self.memo[k] = res
        return res

    def minimise(self, text, mode, sig):
        """-> (minimal text, its signature)."""
        path = []
        cur, csig = text, sig
        while True:
            cur = self.phase1(cur, mode, csig)
            k = (mode, cur, csig)
            res = self.memo2.get(k)
            if res is not None:
                break
            path.append(k)
            if csig.startswith(_REJECT_KINDS):
                nxt, nsig = self._first(cur, mode, tree_candidates(cur, mode, False), lambda r: r is not None and r.startswith(_REJECT_KINDS))
            elif csig.startswith("ast-diff:"):
                # a wrong tree may be reported one field higher or lower when only an operator changes
                # (`x%={x},` -> AugAssign.value, `x={x},` -> Assign.value): operators only
                nxt, nsig = self._first(cur, mode, op_candidates(cur), lambda r: r is not None and r.startswith("ast-diff:"))
            else:
                nxt = None
            if nxt is None:
                res = (cur, csig)
                break
            cur, csig = nxt, nsig
        if len(self.memo2) > 300000:
            self.memo2.clear()
        for k in path:
            self.memo2[k] = res
        return res
