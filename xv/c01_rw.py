"""C01 concrete layer: a catalogue of text rewrite rules.

`ast.unparse` emits one canonical spelling per tree; the property quantifies over spellings.
Every rule below maps a source text to a list of respelled texts ("instances", one per applicable
site, enumerated in source order).  A rule does not have to preserve meaning and is never trusted:
the caller keeps a rewritten text only if CPython's own parser accepts it, and CPython's parse of
the *rewritten* text is the expected tree.  Whitespace rules additionally re-tokenise with CPython's
tokenizer and require the same token sequence, so that they explore spacing and not new programs.

Rules are pure functions of the text (deterministic, source-ordered)."""

from __future__ import annotations

import ast
import io
import keyword
import re
import token as T
import tokenize
import unicodedata

_ROW = re.compile(r"[^\r\n]*(?:\r\n|\r|\n)|[^\r\n]+")
_SKIP = (T.NEWLINE, T.NL, T.INDENT, T.DEDENT, T.ENDMARKER, T.COMMENT)
COMMENT = "# c'(\""


class Src:
    """A source text with CPython tokens, CPython tree and offset helpers (built lazily)."""

    def __init__(self, text):
        self.text = text
        self._toks = None
        self._tree = None
        self._starts = None
        self._rows = None

    @property
    def starts(self):
        if self._starts is None:
            s, o = [0], 0
            for ln in self.rows:
                o += len(ln)
                s.append(o)
            self._starts = s
        return self._starts

    @property
    def rows(self):
        """Physical lines as CPython's tokenizer counts them (\n, \r\n and \r end a line; \f, \v do not)."""
        if self._rows is None:
            self._rows = _ROW.findall(self.text)
        return self._rows

    def off(self, pos):
        """(row, col) in characters (tokenize convention) -> absolute offset."""
        r, c = pos
        st = self.starts
        if r - 1 >= len(st):
            return len(self.text)
        return st[r - 1] + c

    def boff(self, lineno, col_bytes):
        """(lineno, utf-8 byte column) (ast convention) -> absolute offset."""
        st = self.starts
        if lineno - 1 >= len(st) - 1:
            return len(self.text)
        line = self.text[st[lineno - 1] : st[lineno]]
        if line.isascii():
            return st[lineno - 1] + col_bytes
        return st[lineno - 1] + len(line.encode("utf-8")[:col_bytes].decode("utf-8", "ignore"))

    def span(self, node):
        return self.boff(node.lineno, node.col_offset), self.boff(node.end_lineno, node.end_col_offset)

    @property
    def toks(self):
        if self._toks is None:
            try:
                self._toks = list(tokenize.generate_tokens(io.StringIO(self.text).readline))
            except (tokenize.TokenError, SyntaxError, ValueError):
                self._toks = []
        return self._toks

    @property
    def tree(self):
        if self._tree is None:
            try:
                self._tree = ast.parse(self.text)
            except (SyntaxError, ValueError, RecursionError, MemoryError):
                self._tree = False
        return self._tree


def tok_sig(text):
    """Token sequence without layout tokens, or None if CPython cannot tokenise."""
    try:
        return [(t.type, t.string) for t in tokenize.generate_tokens(io.StringIO(text).readline) if t.type not in _SKIP]
    except (tokenize.TokenError, SyntaxError, ValueError):
        return None


def _real_pairs(src):
    """Adjacent (a, b) real tokens on the same row, with bracket depth at the gap."""
    toks = src.toks
    depth = 0
    out = []
    for i in range(len(toks) - 1):
        a, b = toks[i], toks[i + 1]
        if a.type == T.OP:
            if a.string in "([{":
                depth += 1
            elif a.string in ")]}":
                depth -= 1
        if a.type in _SKIP or b.type in _SKIP:
            continue
        if a.end[0] != b.start[0]:
            continue
        out.append((a, b, depth))
    return out


# ----------------------------------------------------------------------------- whitespace


def r_gap_remove(src):
    sig = None
    for a, b, _ in _real_pairs(src):
        if a.end[1] < b.start[1]:
            new = src.text[: src.off(a.end)] + src.text[src.off(b.start) :]
            if sig is None:
                sig = tok_sig(src.text)
            if tok_sig(new) == sig:
                yield new


def r_gap_add(src):
    sig = None
    for a, b, _ in _real_pairs(src):
        if a.end == b.start:
            o = src.off(a.end)
            new = src.text[:o] + " " + src.text[o:]
            if sig is None:
                sig = tok_sig(src.text)
            if tok_sig(new) == sig:
                yield new


def _apply_all(src, pick):
    """Apply a per-gap edit at every site (right to left) where it individually keeps the tokens."""
    sig = tok_sig(src.text)
    text = src.text
    edits = []
    for a, b, d in _real_pairs(src):
        e = pick(a, b, d)
        if e is None:
            continue
        o1, o2 = src.off(a.end), src.off(b.start)
        new = text[:o1] + e + text[o2:]
        if tok_sig(new) == sig:
            edits.append((o1, o2, e))
    if not edits:
        return
    out = text
    for o1, o2, e in reversed(edits):
        out = out[:o1] + e + out[o2:]
    if out != text and tok_sig(out) == sig:
        yield out


def r_compact(src):
    yield from _apply_all(src, lambda a, b, d: "" if a.end[1] < b.start[1] else None)


def r_spaced(src):
    yield from _apply_all(src, lambda a, b, d: " " if a.end == b.start else None)
    yield from _apply_all(src, lambda a, b, d: "  " if a.end[1] < b.start[1] else None)
    yield from _apply_all(src, lambda a, b, d: "\t" if a.end[1] < b.start[1] else None)


# ----------------------------------------------------------------------------- parentheses / commas


def _walk_exprs(tree):
    """expr nodes in source-independent deterministic (pre-)order, skipping f-string innards' literal parts."""
    out = []

    def visit(node, parent):
        if isinstance(node, ast.expr):
            skip = isinstance(node, ast.FormattedValue) or (isinstance(parent, ast.JoinedStr) and isinstance(node, ast.Constant))
            if not skip and hasattr(node, "end_col_offset"):
                out.append(node)
        for ch in ast.iter_child_nodes(node):
            visit(ch, node)

    visit(tree, None)
    return out


def r_paren_add(src):
    if not src.tree:
        return
    for n in _walk_exprs(src.tree):
        s, e = src.span(n)
        yield src.text[:s] + "(" + src.text[s:e] + ")" + src.text[e:]


def r_paren_remove(src):
    toks = src.toks
    stack = []
    pairs = []
    for t in toks:
        if t.type == T.OP and t.string in "([{":
            stack.append(t)
        elif t.type == T.OP and t.string in ")]}":
            if stack:
                o = stack.pop()
                if o.string == "(":
                    pairs.append((o, t))
    pairs.sort(key=lambda p: p[0].start)
    for o, c in pairs:
        o1, c1 = src.off(o.start), src.off(c.start)
        inner = src.text[o1 + 1 : c1]
        pre = src.text[:o1]
        # keep tokens apart: `not(a)` -> `not a`
        sep1 = " " if pre and (pre[-1].isalnum() or pre[-1] == "_") else ""
        post = src.text[c1 + 1 :]
        sep2 = " " if post and (post[0].isalnum() or post[0] == "_") else ""
        yield pre + sep1 + inner + sep2 + post


def r_comma(src):
    toks = src.toks
    for i, t in enumerate(toks[:-1]):
        nxt = toks[i + 1]
        ok = t.type in (T.NAME, T.NUMBER, T.STRING, T.FSTRING_END) or (t.type == T.OP and t.string in ")]}")
        if not ok or (nxt.type == T.OP and nxt.string == ","):
            continue
        if t.type == T.NAME and keyword.iskeyword(t.string) and t.string not in ("None", "True", "False"):
            continue
        o = src.off(t.end)
        yield src.text[:o] + "," + src.text[o:]


def r_with_parens(src):
    if not src.tree:
        return
    for n in ast.walk(src.tree):
        if isinstance(n, (ast.With, ast.AsyncWith)) and n.items:
            first, last = n.items[0], n.items[-1]
            s = src.span(first.context_expr)[0]
            e = src.span(last.optional_vars or last.context_expr)[1]
            # the span of a parenthesised expression excludes its parentheses: extend over them
            while e < len(src.text) and src.text[e] in " )":
                e += 1
            kw = src.text.rfind("with", 0, s)
            if kw < 0:
                continue
            s = kw + 4
            inner = src.text[s:e].strip()
            yield src.text[:s] + " (" + inner + ")" + src.text[e:]
            yield src.text[:s] + " (" + inner + ",)" + src.text[e:]
            yield src.text[:s] + "(" + inner + ")" + src.text[e:]
            yield src.text[:s] + " (\n    " + inner + ",\n)" + src.text[e:]


def r_import_parens(src):
    if not src.tree:
        return
    for n in ast.walk(src.tree):
        if isinstance(n, ast.ImportFrom) and n.names and n.names[0].name != "*":
            s = src.span(n.names[0])[0]
            e = src.span(n.names[-1])[1]
            inner = src.text[s:e]
            yield src.text[:s] + "(" + inner + ")" + src.text[e:]
            yield src.text[:s] + "(" + inner + ",)" + src.text[e:]
            yield src.text[:s] + "(\n    " + inner + ",\n)" + src.text[e:]


# ----------------------------------------------------------------------------- literals


def _body(v, q, multiline=False):
    """Escaped body of str/bytes value v for a non-raw literal delimited by q."""
    out = []
    it = v if isinstance(v, str) else [chr(c) for c in v]
    isb = isinstance(v, bytes)
    for ch in it:
        o = ord(ch)
        if ch == "\\":
            out.append("\\\\")
        elif ch == q[0]:
            out.append("\\" + ch)
        elif ch == "\n":
            out.append("\n" if multiline else "\\n")
        elif o < 32 or o == 127 or (isb and o > 126):
            out.append(f"\\x{o:02x}")
        else:
            out.append(ch)
    return "".join(out)


def _lits(v):
    """Spellings of the str/bytes value v (unvalidated candidates)."""
    isb = isinstance(v, bytes)
    prefixes = ("b", "B") if isb else ("", "u", "U")
    raws = ("br", "rb", "bR", "RB", "Rb") if isb else ("r", "R")
    out = []
    sv = v if not isb else v.decode("latin-1")
    for q in ("'", '"', "'''", '"""'):
        for p in prefixes:
            out.append(p + q + _body(v, q) + q)
        if len(q) == 3 and "\n" in sv:
            out.append(prefixes[0] + q + _body(v, q, True) + q)
        for p in raws:
            out.append(p + q + sv + q)
    p0 = prefixes[0]
    if sv:
        c, rest = sv[0], _body(v[1:], "'")
        o = ord(c)
        if o < 256:
            out.append(f"{p0}'\\x{o:02x}{rest}'")
            out.append(f"{p0}'\\{o:03o}{rest}'")
        if not isb:
            out.append(f"'\\u{o:04x}{rest}'")
            out.append(f"'\\U{o:08x}{rest}'")
            try:
                out.append("'\\N{%s}%s'" % (unicodedata.name(c), rest))
            except ValueError:
                pass
        out.append(f"{p0}'\\\n{_body(v, chr(39))}'")  # backslash-newline inside the literal
    # implicit concatenation at the first positions
    for i in sorted({0, 1, len(sv)}):
        if i > len(sv):
            continue
        a, b = v[:i], v[i:]
        la, lb = p0 + "'" + _body(a, "'") + "'", p0 + "'" + _body(b, "'") + "'"
        out.append(la + " " + lb)
        out.append(la + lb)
        out.append(la + " " + p0 + '"' + _body(b, '"') + '"')
        if not isb:
            fb = _body(b, "'").replace("{", "{{").replace("}", "}}")
            fa = _body(a, "'").replace("{", "{{").replace("}", "}}")
            out.append(la + " f'" + fb + "'")
            out.append("f'" + fa + "' " + lb)
            out.append("r'' " + la + " " + lb)
    return out


def r_string(src):
    seen = set()
    for t in src.toks:
        if t.type != T.STRING:
            continue
        try:
            v = ast.literal_eval(t.string)
        except (ValueError, SyntaxError, MemoryError):
            continue
        if not isinstance(v, (str, bytes)):
            continue
        s, e = src.off(t.start), src.off(t.end)
        for lit in _lits(v):
            if lit == t.string or (s, lit) in seen:
                continue
            seen.add((s, lit))
            yield src.text[:s] + lit + src.text[e:]


def r_fstring(src):
    toks = src.toks
    stack = []
    for i, t in enumerate(toks):
        if t.type == T.FSTRING_START:
            stack.append(t)
        elif t.type == T.FSTRING_END and stack:
            st = stack.pop()
            s0, s1 = src.off(st.start), src.off(st.end)
            e0, e1 = src.off(t.start), src.off(t.end)
            q = t.string
            mid = src.text[s1:e0]
            for p in ("F", "rf", "fr", "Rf", "fR", "FR", "RF"):
                yield src.text[:s0] + p + q + mid + q + src.text[e1:]
            for q2 in ("'", '"', "'''", '"""'):
                if q2 != q:
                    yield src.text[:s0] + "f" + q2 + mid + q2 + src.text[e1:]
            # implicit concatenation with plain / f literals
            lit = src.text[s0:e1]
            yield src.text[:s0] + lit + " 'x'" + src.text[e1:]
            yield src.text[:s0] + "'x' " + lit + src.text[e1:]
            yield src.text[:s0] + lit + " f'{a}'" + src.text[e1:]
            yield src.text[:s0] + lit + "''" + src.text[e1:]
        elif t.type == T.OP and stack and t.string == "}":
            o = src.off(t.start)
            for ins in ("=", "!r", "=!s", ":>10", ":{a}", " ", "=:x>4"):
                yield src.text[:o] + ins + src.text[o:]
        elif t.type == T.OP and stack and t.string == "{":
            o = src.off(t.end)
            yield src.text[:o] + " " + src.text[o:]


def _num_variants(s):
    try:
        v = ast.literal_eval(s)
    except (ValueError, SyntaxError):
        return
    if isinstance(v, bool) or not isinstance(v, (int, float, complex)):
        return
    out = []
    if isinstance(v, int):
        out += [f"0x{v:x}", f"0X{v:X}", f"0o{v:o}", f"0O{v:o}", f"0b{v:b}", f"0B{v:b}", f"0x_{v:x}"]
        d = str(v)
        if len(d) >= 2:
            out += [d[0] + "_" + d[1:], d[:-1] + "_" + d[-1]]
        if v == 0:
            out += ["00", "0_0", "0x0"]
    elif isinstance(v, float):
        r = repr(v)
        out += [r + "e0", r + "E0", r + "e+0", r + "0" if "." in r and "e" not in r else r, "0" + r if "e" not in r else r]
        if r.startswith("0."):
            out.append(r[1:])
        if r.endswith(".0"):
            out += [r[:-1], r[:-2] + "e0", r[:-2] + "E0"]
        if "e+" in r:
            out += [r.replace("e+", "e"), r.replace("e+", "E"), r.replace("e+", ".0e+"), r.replace("e+", "_0e+")[:0] or r]
        m = r.split(".")[0]
        if len(m) >= 2 and m.isdigit():
            out.append(m[0] + "_" + r[1:])
    else:
        im = v.imag
        r = repr(im)
        base = r[:-2] if r.endswith(".0") else r
        out += [base + "J", r + "j", base + "e0j", base + ".j", "0" + base + "j" if base.isdigit() else base + "j"]
        if r.startswith("0."):
            out.append(r[1:] + "j")
    seen = set()
    for c in out:
        if c == s or c in seen:
            continue
        seen.add(c)
        try:
            w = ast.literal_eval(c)
        except (ValueError, SyntaxError):
            continue
        if type(w) is type(v) and w == v:
            yield c


def r_number(src):
    for t in src.toks:
        if t.type == T.NUMBER:
            s, e = src.off(t.start), src.off(t.end)
            for c in _num_variants(t.string):
                yield src.text[:s] + c + src.text[e:]


def r_nfkc(src):
    seen = set()
    for t in src.toks:
        if t.type == T.NAME and not keyword.iskeyword(t.string) and t.string not in seen and t.string[0].isascii() and t.string[0].isalpha():
            seen.add(t.string)
            s = src.off(t.start)
            yield src.text[:s] + chr(ord(t.string[0]) + 0xFEE0) + src.text[s + 1 :]


# ----------------------------------------------------------------------------- statement layout


def _indent_of(line):
    return line[: len(line) - len(line.lstrip(" \t\f"))]


def r_semicolon(src):
    rows = src.rows
    # joining consecutive lines of equal indentation
    for i in range(len(rows) - 1):
        a, b = rows[i], rows[i + 1]
        if not a.strip() or not b.strip():
            continue
        if _indent_of(a) != _indent_of(b):
            continue
        for sep in ("; ", ";"):
            yield "".join(rows[:i]) + a.rstrip("\r\n") + sep + b.lstrip(" \t") + "".join(rows[i + 2 :])
    # trailing semicolon
    for t in src.toks:
        if t.type == T.NEWLINE:
            o = src.off(t.start)
            yield src.text[:o] + ";" + src.text[o:]
            yield src.text[:o] + " ; " + src.text[o:]


def r_inline_body(src):
    toks = src.toks
    for i, t in enumerate(toks):
        if t.type == T.OP and t.string == ":" and i + 2 < len(toks) and toks[i + 1].type == T.NEWLINE:
            j = i + 2
            while j < len(toks) and toks[j].type in (T.NL, T.COMMENT):
                j += 1
            if j >= len(toks) or toks[j].type != T.INDENT:
                continue
            # block rows: from the INDENT row to the row before the matching DEDENT
            depth, k = 1, j + 1
            nested = False
            while k < len(toks) and depth > 0:
                if toks[k].type == T.INDENT:
                    depth += 1
                    nested = True
                elif toks[k].type == T.DEDENT:
                    depth -= 1
                k += 1
            if nested:
                continue
            first_row = toks[j].start[0]
            last_row = toks[k - 1].start[0] - 1 if k - 1 < len(toks) else len(src.rows)
            if toks[k - 1].type == T.DEDENT and toks[k - 1].start[0] == toks[-1].start[0] and toks[-1].type == T.ENDMARKER:
                last_row = len(src.rows)
            rows = src.rows
            body = [r.strip() for r in rows[first_row - 1 : last_row] if r.strip()]
            if not body:
                continue
            head = src.text[: src.off(t.end)]
            rest = "".join(rows[last_row:])
            yield head + " " + "; ".join(body) + "\n" + rest
            yield head + ";".join(body) + "\n" + rest


def _line_starts(src):
    """[(row, depth)] for rows that start a logical line (tokens-based)."""
    out = []
    depth = 0
    new_line = True
    for t in src.toks:
        if t.type == T.INDENT:
            depth += 1
            continue
        if t.type == T.DEDENT:
            depth -= 1
            continue
        if t.type in (T.NL, T.COMMENT):
            continue
        if t.type == T.NEWLINE:
            new_line = True
            continue
        if t.type == T.ENDMARKER:
            break
        if new_line:
            out.append((t.start[0], depth, t.start[1]))
            new_line = False
    return out


def r_indent(src):
    ls = _line_starts(src)
    if not any(d for _, d, _ in ls):
        return
    rows = src.rows
    for unit in (" ", "\t", "  ", "        ", "   \t"):
        new = list(rows)
        for row, d, col in ls:
            new[row - 1] = unit * d + rows[row - 1][col:]
        yield "".join(new)


def r_block_indent(src):
    """One block indented deeper than its siblings (block-local indentation unit)."""
    toks = src.toks
    rows = src.rows
    for j, t in enumerate(toks):
        if t.type != T.INDENT:
            continue
        depth, k = 1, j + 1
        while k < len(toks) and depth > 0:
            if toks[k].type == T.INDENT:
                depth += 1
            elif toks[k].type == T.DEDENT:
                depth -= 1
            k += 1
        first = t.start[0]
        last = toks[k - 1].start[0] - 1
        if toks[k - 1].type == T.DEDENT and k < len(toks) and toks[k].type == T.ENDMARKER and toks[k - 1].start[1] == 0:
            last = toks[k - 1].start[0] - 1 if toks[k - 1].start[0] <= len(rows) else len(rows)
        if last < first:
            last = len(rows)
        for extra in ("  ", "\t"):
            new = list(rows)
            for r in range(first - 1, min(last, len(rows))):
                if new[r].strip():
                    new[r] = extra + new[r]
            yield "".join(new)


_FILLERS = ("\n", "    \n", COMMENT + "\n", "        " + COMMENT + "\n", "\f\n", " \t\n")


def r_blank_comment(src):
    rows = src.rows
    for i in range(len(rows) + 1):
        for fill in _FILLERS if i == 0 else _FILLERS[:4]:
            yield "".join(rows[:i]) + fill + "".join(rows[i:])
    for t in src.toks:
        if t.type in (T.NEWLINE, T.NL) and t.string:
            o = src.off(t.start)
            yield src.text[:o] + " " + COMMENT + src.text[o:]
            yield src.text[:o] + "#" + src.text[o:]
            yield src.text[:o] + "  " + src.text[o:]


def r_backslash(src):
    for a, b, d in _real_pairs(src):
        if d == 0:
            o1, o2 = src.off(a.end), src.off(b.start)
            yield src.text[:o1] + " \\\n  " + src.text[o2:]
            yield src.text[:o1] + "\\\n" + src.text[o2:]


def r_bracket_newline(src):
    for a, b, d in _real_pairs(src):
        if d > 0:
            o1, o2 = src.off(a.end), src.off(b.start)
            yield src.text[:o1] + "\n" + src.text[o2:]
            yield src.text[:o1] + " " + COMMENT + "\n        " + src.text[o2:]


def r_eol(src):
    t = src.text
    yield t.replace("\n", "\r\n")
    yield t.replace("\n", "\r")


def r_edges(src):
    t = src.text
    if t.endswith("\n"):
        yield t[:-1]
        yield t[:-1] + "  "
        yield t[:-1] + " " + COMMENT
        yield t[:-1] + "\\\n"
    yield t + "\n"
    yield t + "\n\n    \n"
    yield "\n" + t
    yield "\n\n" + t
    yield "\f" + t
    yield "#!/usr/bin/env python\n# -*- coding: utf-8 -*-\n" + t
    yield "\ufeff" + t
    yield t.replace("\n", " \n")
    yield t.replace("\n", "\n\n")


def r_elif(src):
    if not src.tree:
        return
    rows = src.rows
    for n in ast.walk(src.tree):
        if isinstance(n, ast.If) and len(n.orelse) == 1 and isinstance(n.orelse[0], ast.If):
            inner = n.orelse[0]
            r0 = inner.lineno - 1
            line = rows[r0]
            ind = _indent_of(line)
            if not line[len(ind) :].startswith("elif"):
                continue
            new = list(rows)
            new[r0] = ind + "else:\n" + ind + "    " + line[len(ind) + 2 :]
            for r in range(r0 + 1, inner.end_lineno):
                new[r] = "    " + rows[r]
            yield "".join(new)


# name -> (function, class): 'site' rules have one instance per site, 'global' rules one or a few per text
RULES = {
    "gap-remove": (r_gap_remove, "site"),
    "gap-add": (r_gap_add, "site"),
    "compact": (r_compact, "global"),
    "spaced": (r_spaced, "global"),
    "paren-add": (r_paren_add, "site"),
    "paren-remove": (r_paren_remove, "site"),
    "comma": (r_comma, "site"),
    "with-parens": (r_with_parens, "site"),
    "import-parens": (r_import_parens, "site"),
    "string": (r_string, "site"),
    "fstring": (r_fstring, "site"),
    "number": (r_number, "site"),
    "nfkc": (r_nfkc, "site"),
    "semicolon": (r_semicolon, "site"),
    "inline-body": (r_inline_body, "site"),
    "indent": (r_indent, "global"),
    "block-indent": (r_block_indent, "site"),
    "blank-comment": (r_blank_comment, "site"),
    "backslash": (r_backslash, "site"),
    "bracket-newline": (r_bracket_newline, "site"),
    "eol": (r_eol, "global"),
    "edges": (r_edges, "global"),
    "elif": (r_elif, "site"),
}
# the light catalogue (for the bulk of the larger canonical programs): rule -> max instances taken
LIGHT = {"compact": 1, "paren-remove": 99, "with-parens": 2, "import-parens": 2, "inline-body": 1, "indent": 2, "eol": 1, "elif": 99}


def rewrites(text, rules=None, light=False):
    """Yield (rule name, new text) for every instance of every rule, in catalogue order.  With
    `light` only the LIGHT rules run, each limited to its first LIGHT[rule] instances."""
    src = Src(text)
    for name in LIGHT if light else (rules or RULES):
        fn = RULES[name][0]
        limit = LIGHT[name] if light else None
        n = 0
        try:
            for new in fn(src):
                if new != text:
                    yield name, new
                    n += 1
                    if limit is not None and n >= limit:
                        break
        except (IndexError, ValueError, AttributeError, RecursionError):
            # a rule tripped over an odd token layout: it simply has no (further) instance here
            continue
