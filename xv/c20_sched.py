"""C20, schedule part: the main thread keeps doing what CommandPipeline.iterraw / _run_command_pipeline
do (add_job, get_next_task, update_job_attr) while an alias thread runs `jobs` / `bg` / `disown`
under use_main_jobs and a job exits at a scheduler-chosen moment; all interleavings with <= P
preemptions.  Oracle: no exception in either thread, and the final table is consistent (MRU deque is a
permutation of exactly the jobs in the dict, no finished job after a purge) and equals the result of
SOME sequential order of the two threads' operations."""

import contextlib
import io
import itertools
import json
import threading

from . import common, pysched
from .c20 import StubPipeline, StubProc
from .session import load_session

# (main ops, alias-thread ops)
PROGRAMS = {
    "add-vs-jobs": ([("add", "bg"), ("next",)], [("jobs",)]),
    "add-vs-disown": ([("add", "bg"), ("next",)], [("disown", [])]),
    "next-vs-bg": ([("next",), ("attr",)], [("bg", [])]),
    "exit-next-vs-jobs": ([("exit", 1), ("next",)], [("jobs",), ("jobs",)]),
    "exit-next-vs-disown2": ([("exit", 1), ("next",), ("add", "bg")], [("disown", ["2"])]),
    "add-add-vs-bg-minus": ([("add", "stopped"), ("next",)], [("bg", ["-"]), ("jobs",)]),
    # the main thread itself runs a job-control command (first ctrl-d with unfinished jobs,
    # $THREAD_SUBPROCS=False) while an alias thread runs one: whatever use_main_jobs saves and restores
    # is per call, and the main thread goes on using the shared table afterwards
    "jobs-add-vs-jobs": ([("jobs",), ("add", "bg"), ("next",)], [("jobs",)]),
    "disown-add-vs-bg": ([("disown", ["2"]), ("add", "bg")], [("bg", [])]),
    # the main thread starts a FOREGROUND job while the alias thread is inside `bg` (its resume waits)
    "addfg-vs-bg": ([("add", "fg"), ("next",)], [("bg", [])]),
}
QUICK = ["add-vs-jobs", "add-vs-disown", "exit-next-vs-jobs", "next-vs-bg", "jobs-add-vs-jobs", "addfg-vs-bg"]

_PROG = None
_XSH = None
_J = None
_LOG = []


def _setup():
    global _XSH, _J
    from xonsh.procs import jobs as J

    d = common.scratch_dir("c20s")
    _XSH = load_session(data_dir=d, env={"XONSH_INTERACTIVE": False, "AUTO_CONTINUE": False})
    _J = J
    J._continue = lambda job: _LOG.append(("continue", job["pids"][0]))
    J._send_signal = lambda job, sig: None
    J.give_terminal_to = lambda pgid: False
    if hasattr(J, "_jobs_lock"):
        J._jobs_lock = pysched.CoRLock()  # a real lock held across a scheduling point would hang the baton


def _traced():
    J = _J
    fs = [J.get_next_task, J._clear_dead_jobs, J.get_next_job_number, J.add_job, J.update_job_attr, J.resume_job, J.get_task, J.format_job_string]
    fs += [J.jobs.__wrapped__ if hasattr(J.jobs, "__wrapped__") else J.jobs, J.bg.__wrapped__ if hasattr(J.bg, "__wrapped__") else J.bg, J.disown_fn.__wrapped__ if hasattr(J.disown_fn, "__wrapped__") else J.disown_fn]
    fs.append(J.use_main_jobs)
    if hasattr(J, "_select_job_to_resume"):
        fs.append(J._select_job_to_resume)
    return pysched.codes_of(*fs)


def _fresh_table():
    J = _J
    _XSH.all_jobs.clear()
    J._tasks_main.clear()
    J._jobs_thread_local.tasks = J._tasks_main
    J._jobs_thread_local.jobs = _XSH.all_jobs
    procs = {}
    for pid, kind in ((100, "bg"), (101, "stopped")):
        p = StubProc(pid)
        procs[pid] = p
        with contextlib.redirect_stdout(io.StringIO()):
            J.add_job({"cmds": [["sleep", str(pid)]], "pids": [pid], "status": "stopped" if kind == "stopped" else "running", "obj": p, "bg": kind == "bg", "pipeline": StubPipeline(_LOG), "pgrp": None})
    return procs


def _do(op, procs, errs):
    J = _J
    try:
        if True:  # (no redirect_stdout here: it swaps the process-wide sys.stdout and is not thread-safe)
            if op[0] == "add":
                pid = 200 + len(procs)
                p = StubProc(pid)
                procs[pid] = p
                J.add_job({"cmds": [["sleep", str(pid)]], "pids": [pid], "status": "stopped" if op[1] == "stopped" else "running", "obj": p, "bg": op[1] == "bg", "pipeline": StubPipeline(_LOG), "pgrp": None})
            elif op[0] == "next":
                J.get_next_task()
            elif op[0] == "attr":
                J.update_job_attr(100, "status", "running")
            elif op[0] == "exit":
                j = _XSH.all_jobs.get(op[1])
                if j is not None:
                    j["obj"].rc = 0
            elif op[0] == "jobs":
                J.jobs([], stdout=io.StringIO())
            elif op[0] == "bg":
                J.bg(list(op[1]))
            elif op[0] == "disown":
                try:
                    J.disown(list(op[1]))
                except SystemExit:
                    pass
    except Exception as e:  # noqa: BLE001
        errs.append(f"{op[0]}: {type(e).__name__}: {e}")


def _final():
    return (sorted((n, j["status"], j["bg"], j["obj"].rc is not None) for n, j in _XSH.all_jobs.items()), list(_J._tasks_main))


def _body(s):
    main_ops, alias_ops = PROGRAMS[_PROG]
    procs = _fresh_table()
    errs_m, errs_a = [], []

    def alias_thread():
        for op in alias_ops:
            _do(op, procs, errs_a)

    import sys

    t = threading.Thread(target=alias_thread, name="alias")
    old_out, old_err = sys.stdout, sys.stderr
    sys.stdout = sys.stderr = io.StringIO()
    try:
        t.start()
        for op in main_ops:
            _do(op, procs, errs_m)
        t.join()
    finally:
        sys.stdout, sys.stderr = old_out, old_err
    return {"errs": errs_m + errs_a, "final": _final()}


_SEQ = {}


def _sequential_outcomes(name):
    """All final tables reachable by running the two programs in some sequential interleaving of
    whole operations (each operation atomic)."""
    if name in _SEQ:
        return _SEQ[name]
    main_ops, alias_ops = PROGRAMS[name]
    outs = set()
    n, m = len(main_ops), len(alias_ops)
    for positions in itertools.combinations(range(n + m), n):
        procs = _fresh_table()
        errs = []
        mi = ai = 0
        for k in range(n + m):
            if k in positions:
                _do(main_ops[mi], procs, errs)
                mi += 1
            else:
                res = {}

                def run_alias(op=alias_ops[ai]):
                    _do(op, procs, errs)

                th = threading.Thread(target=run_alias)
                th.start()
                th.join()
                ai += 1
        outs.add(common.jdump(_final()))
    _SEQ[name] = outs
    return outs


def _check(r, prefix):
    viols = []

    def V(key, clause, observed, expected):
        viols.append({"key": f"sched:{_PROG}:{key}", "clause": clause, "case": {"program": _PROG}, "observed": observed, "expected": expected})

    if r.outcome or r.error or r.errors:
        V(f"abnormal:{r.outcome or 'exception'}", "no deadlock / exception under any schedule", [r.outcome, r.error, r.errors], "normal completion")
        return viols
    v = r.value
    if v["errs"]:
        V(f"exception:{v['errs'][0].split(':')[1].strip()}:{v['errs'][0].split(':')[0]}", "job-control commands never fail with an internal exception", v["errs"], [])
    table, mru = v["final"]
    nums = [t[0] for t in table]
    if sorted(mru) != sorted(nums) or len(set(mru)) != len(mru):
        V("mru-is-permutation-of-jobs", "the MRU order is a permutation of exactly the live jobs", {"mru": mru, "jobs": nums}, "same set")
    else:
        # The job table (numbers, status, bg flag) must be that of SOME sequential order of the whole
        # operations.  The MRU *order* is only required to be a permutation (checked above): `bg` clears
        # the job's bg flag while it resumes it and sets it afterwards, so a concurrent get_next_task()
        # of the main thread may legitimately move that job to the front in between - the statement
        # does not promise a linearizable MRU order across threads.
        tables = {common.jdump(json.loads(o)[0]) for o in _sequential_outcomes(_PROG)}
        if common.jdump([list(t) for t in table]) not in tables:
            V("final-table-not-sequentially-explainable", "the final job table equals the result of some sequential order of the operations", v["final"], sorted(tables)[:3])
    return viols


def run_part(ctx):
    global _PROG
    bound = ctx.pick(2, 3)
    names = list(PROGRAMS) if ctx.thorough else QUICK
    _setup()
    traced = _traced()
    for n in names:
        _sequential_outcomes(n)
    total = {"executions": 0, "steps": 0, "sigs": set(), "capped": None}
    per = {}
    for name in names:
        _PROG = name
        viols, st = pysched.explore(_body, _check, traced, bound, ctx, setup=_setup, max_execs_per_shard=ctx.pick(4000, 200000), budget_s=ctx.pick(60, 120))
        ctx.add_violations(viols)
        total["executions"] += st.executions
        total["steps"] += st.steps
        total["sigs"] |= st.sigs
        total["capped"] = total["capped"] or st.capped
        per[name] = st.executions
        ctx.log(f"pysched {name}: {st.executions} schedules, {st.steps} steps, {len(viols)} raw violations, {len(_SEQ[name])} sequential outcomes")
    ctx.sample({"program": names[0], "main": PROGRAMS[names[0]][0], "alias_thread": PROGRAMS[names[0]][1], "preemption_bound": bound})
    return {
        "states": len(total["sigs"]),
        "transitions": total["steps"],
        "executions": total["executions"],
        "exhaustive": total["capped"] is None,
        "summary": {"preemption_bound": bound, "schedules_per_program": per, "capped": total["capped"]},
    }
