"""C02 input space: three small grammars (BINDERS x USES x PLACEMENTS) and the program builder.

A program is identified by a coordinate dict
    {"b": binder kind, "o": outer scope wrappers, "i": inner scope wrappers, "u": use shape,
     "w": statement wrapper around the use, "f": focus ("head" | "arg"), "mid": interlude,
     "b2": binder kind for the *other* read names (default: session global)}
and rendered to source text by build().  Every coordinate has a designated simplest value
(DEFAULT); enumeration departs from it in a bounded number of places (see c02.run) and the
minimiser walks back towards it.

Names: `n` is the name bound by the binder under test; `m`, `l`, `k` are the other names a use
reads.  Session globals always available to the programs (they are *bound*, the binder lines read
them legitimately): mk (makes an instrumented object), XE (instrumented exception class), XC (class
for class patterns), ident, q (an instrumented object tagged like the bound name), xs = [q-like],
xt = [(0, q-like)].
"""

IND = "    "

DEFAULT = {"b": "assign", "o": "", "i": "", "u": "sub-flag", "w": "none", "f": "head", "mid": "none", "b2": "sess-global"}


def ind(lines, k=1):
    return [IND * k + s for s in lines]


# --------------------------------------------------------------------------------------- USES
# template fields: H = head (leftmost) name, A / B = further read names.
# expr: a single expression (may be embedded in lambda / comprehension / f-string)
# embed: may be embedded without parentheses changing the shape
# cmd: the text is also a well-formed command line (used by the `del` clause)
# argv: expected argv of the command reading is text.split()

USES = {
    "sub-flag": dict(t="{H} -{A}", expr=1, embed=1, cmd=1, argv=1),
    "sub-spaced": dict(t="{H} - {A}", expr=1, embed=1, cmd=1, argv=1),
    "dash-dash": dict(t="{H} --{A}", expr=1, embed=1, cmd=1, argv=1),
    "two-flags": dict(t="{H} -{A} -{B}", expr=1, embed=1, cmd=1, argv=1),
    "bare": dict(t="{H}", expr=1, embed=1, cmd=1, argv=1),
    "pipe": dict(t="{H} | {A}", expr=1, embed=1, cmd=1, argv=0),
    "and": dict(t="{H} and {A}", expr=1, embed=1, cmd=0, argv=0),
    "or": dict(t="{H} or {A}", expr=1, embed=1, cmd=0, argv=0),
    "not": dict(t="not {H}", expr=1, embed=1, cmd=0, argv=0),
    "neg": dict(t="-{H}", expr=1, embed=1, cmd=0, argv=0),
    "and-flags": dict(t="{H} -{A} and {B} -{A}", expr=1, embed=1, cmd=0, argv=0),
    "or-not": dict(t="{H} or not {A}", expr=1, embed=1, cmd=0, argv=0),
    "gt": dict(t="{H} > {A}", expr=1, embed=1, cmd=1, argv=0),
    "lt": dict(t="{H} < {A}", expr=1, embed=1, cmd=1, argv=0),
    "rshift": dict(t="{H} >> {A}", expr=1, embed=1, cmd=1, argv=0),
    "chain-cmp": dict(t="{H} < {A} > {B}", expr=1, embed=1, cmd=1, argv=0),
    "attr-flag": dict(t="{H} .a -{A}", expr=1, embed=1, cmd=1, argv=1),
    "attr": dict(t="{H}.a", expr=1, embed=1, cmd=1, argv=1),
    "index-flag": dict(t="{H}[0] -{A}", expr=1, embed=1, cmd=1, argv=0),
    "tuple": dict(t="{H}, {A}", expr=1, embed=0, cmd=1, argv=0),
    "ifexp": dict(t="{H} -{A} if {H} else {A}", expr=1, embed=1, cmd=1, argv=1),
    "semi": dict(t="{H} -{A}; {B} -{A}", expr=0, embed=0, cmd=0, argv=0),
    "slash": dict(t="{H} /{A}", expr=1, embed=1, cmd=1, argv=1),
    "star": dict(t="{H} *{A}", expr=1, embed=1, cmd=0, argv=0),
    "call": dict(t="{H} ({A})", expr=1, embed=1, cmd=0, argv=0),
    "comment": dict(t="{H} -{A}  # c", expr=0, embed=0, cmd=1, argv=0),
}
USE_ORDER = list(USES)
CORE_USES = ["sub-flag", "bare", "pipe", "and", "not", "gt", "semi"]

FOCUS = {"head": dict(H="n", A="l", B="m"), "arg": dict(H="m", A="n", B="l")}


def use_text(u, f="head", name="n"):
    d = dict(FOCUS[f])
    for k, v in d.items():
        if v == "n":
            d[k] = name
    return USES[u]["t"].format(**d)


# --------------------------------------------------------------------------------------- use wrappers
# statement-level context around the use (the scoping rules must reach the use inside every body)


def _w_none(lines, expr):
    return lines


WRAPS = {
    "none": (0, lambda L, e: L),
    "if": (0, lambda L, e: ["if 1:"] + ind(L)),
    "else": (0, lambda L, e: ["if 0:", IND + "pass", "else:"] + ind(L)),
    "elif": (0, lambda L, e: ["if 0:", IND + "pass", "elif 1:"] + ind(L)),
    "while": (0, lambda L, e: ["while 1:"] + ind(L) + [IND + "break"]),
    "for": (0, lambda L, e: ["for _i in (0,):"] + ind(L)),
    "for-else": (0, lambda L, e: ["for _i in ():", IND + "pass", "else:"] + ind(L)),
    "with": (0, lambda L, e: ['with mk("w"):'] + ind(L)),
    "with-as": (0, lambda L, e: ['with mk("w") as w:'] + ind(L)),
    "try-body": (0, lambda L, e: ["try:"] + ind(L) + ["finally:", IND + "pass"]),
    "except-body": (0, lambda L, e: ["try:", IND + 'raise XE("e")', "except XE:"] + ind(L)),
    "try-else": (0, lambda L, e: ["try:", IND + "pass", "except XE:", IND + "pass", "else:"] + ind(L)),
    "finally-body": (0, lambda L, e: ["try:", IND + "pass", "finally:"] + ind(L)),
    "match-body": (0, lambda L, e: ["match 0:", IND + "case _:"] + ind(L, 2)),
    "if-if": (0, lambda L, e: ["if 1:", IND + "if 1:"] + ind(L, 2)),
    # expression-level contexts (need a single-expression use)
    "lambda": (1, lambda L, e: [f"(lambda: {e})()"]),
    "paren": (1, lambda L, e: [f"({e})"]),
    "fstring": (1, lambda L, e: ['f"{' + e + '}"']),
    "assign-rhs": (1, lambda L, e: [f"z9 = {e}"]),
    "if-test": (1, lambda L, e: [f"if {e}:", IND + "pass"]),
}
WRAP_ORDER = list(WRAPS)

# --------------------------------------------------------------------------------------- interludes
# statements between the binder and the use that must NOT disturb the binding (other scopes)

MIDS = {
    "none": [],
    "func-shadow-del": ["def s9():", IND + "{n} = 0", IND + "del {n}", "s9()"],
    "class-shadow-del": ["class S9:", IND + "{n} = 0", IND + "del {n}"],
    "param-shadow-del": ["def s9({n}):", IND + "del {n}", "s9(0)"],
    "func-shadow": ["def s9():", IND + "{n} = 0", "s9()"],
    "nested-shadow-del": ["def s9():", IND + "def t9():", IND * 2 + "{n} = 0", IND * 2 + "del {n}", IND + "t9()", "s9()"],
    "comp-shadow": ["[0 for {n} in (0,)]"],
    "lambda-shadow": ["z9 = lambda {n}: 0"],
    "other-del": ["zz9 = 0", "del zz9"],
    "other-global": ["def s9():", IND + "global zz9", IND + "zz9 = 0", "s9()"],
    "func-for-shadow": ["def s9():", IND + "for {n} in ():", IND * 2 + "pass", "s9()"],
    # `del` of a PART of the object (subscript / slice / attribute targets, alone, nested or next to a
    # real name target) leaves the container name bound
    "del-subscript": ["del {n}[0]"],
    "del-slice": ["del {n}[1:2]"],
    "del-attr": ["del {n}.a"],
    "del-attr-chain": ["del {n}.a.b"],
    "del-subscript-of-attr": ["del {n}.a[0]"],
    "del-attr-of-subscript": ["del {n}[0].a"],
    "del-tuple-subscript": ["z8 = 0", "del (z8, {n}[0])"],
    "del-list-attr": ["del [{n}.a]"],
    "del-subscript-then-name": ["z8 = 0", "del {n}[0], z8"],
    "del-name-then-attr": ["z8 = 0", "del z8, {n}.a"],
    "del-nested-tuple-subscript": ["z8 = 0", "del (z8, ({n}[0], {n}.a))"],
    # stores into a part of the object are no rebinding either (and must not disturb anything)
    # `except E as <the same name>` in the same scope: the earlier binding is not forgotten when the
    # handler ends (statically the name may still be bound; CPython keeps the value when the handler
    # did not run and raises NameError when it did - Python behaviour either way, never a command)
    "except-reuse-not-taken": ["try:", IND + "pass", "except XE as {n}:", IND + "pass"],
    "except-reuse-taken": ["try:", IND + 'raise XE("e")', "except XE as {n}:", IND + "pass"],
    "except-reuse-second-handler": ["try:", IND + "pass", "except KeyError as z8:", IND + "pass", "except XE as {n}:", IND + "pass"],
    "except-reuse-tuple-finally": ["try:", IND + "pass", "except (XE, KeyError) as {n}:", IND + "pass", "finally:", IND + "pass"],
    "except-star-reuse-not-taken": ["try:", IND + "pass", "except* XE as {n}:", IND + "pass"],
    "except-reuse-nested-in-if": ["if 1:", IND + "try:", IND * 2 + "pass", IND + "except XE as {n}:", IND * 2 + "pass"],
    "except-reuse-in-else-of-try": ["try:", IND + "pass", "except KeyError:", IND + "pass", "else:", IND + "try:", IND * 2 + "pass", IND + "except XE as {n}:", IND * 2 + "pass"],
    "store-subscript": ["{n}[0] = 0"],
    "store-subscript-aug": ["{n}[0] += 1"],
}
PART_DEL_MIDS = [k for k in MIDS if k.startswith("del-") or k.startswith("store-") or k.startswith("except-")]  # same-scope interludes that keep the binding
# interludes after which CPython itself reports the name unbound AT THE USE although it is bound
# earlier in the same scope of the same source: still judged (tree equals ast.parse, NameError on both
# sides, no spawn) instead of being dropped by the all-names-defined precondition
STATIC_BOUND_MIDS = {"except-reuse-taken"}
MID_ORDER = list(MIDS)

# --------------------------------------------------------------------------------------- BINDERS
# kind -> spec
#   pre   : lines emitted in the binder's scope
#   block : header line of a block whose body holds the use (use is inside, +1 indent)
#   btail : lines closing the block body after the use (e.g. `break`)
#   post  : lines after the block (same indent as the header), e.g. the call of a def
#   embed : list of line templates with {U}: the use is embedded as an expression (lambda/comprehension)
#   sess  : 'global' | 'local'  -> the name comes from the session namespace, no source line
#   name  : the bound name if not `n` (builtins)
#   listed: where the binder kind is named: 'statement' (properties.jsonl C02 statement) or 'guidance'
# {n} is replaced by the bound name.

B = {}


def _b(kind, pre=(), block=None, post=(), embed=None, sess=None, name=None, listed="statement", family=None, btail=()):
    B[kind] = dict(pre=list(pre), block=block, post=list(post), embed=embed, sess=sess, name=name, listed=listed, family=family or kind.split("-")[0], btail=list(btail))


MK = 'mk("{n}")'

_b("assign", [f"{{n}} = {MK}"])
_b("sess-global", sess="global")
_b("sess-local", sess="local")
_b("builtin-len", name="len", sess="builtin")
_b("builtin-zip", name="zip", sess="builtin")
_b("assign-multi", [f"z = {{n}} = {MK}"])
_b("assign-multi-first", [f"{{n}} = z = {MK}"])
_b("annassign", [f"{{n}}: int = {MK}"])
_b("augassign", ['{n} = mk("{n}0")', '{n} += mk("d")'])
_b("tuple-first", [f"{{n}}, z = {MK}, 0"], family="tuple")
_b("tuple-second", [f"z, {{n}} = 0, {MK}"], family="tuple")
_b("tuple-paren", [f"(z, {{n}}) = 0, {MK}"], family="tuple")
_b("list-target", [f"[z, {{n}}] = 0, {MK}"], family="tuple")
_b("starred-first", [f"*{{n}}, z = {MK}, 0"], family="starred")
_b("starred-last", [f"z, *{{n}} = 0, {MK}"], family="starred")
_b("nested-tuple-first", [f"({{n}}, y), z = ({MK}, 0), 0"], family="nested-tuple")
_b("nested-tuple-inner", [f"z, (y, {{n}}) = 0, (0, {MK})"], family="nested-tuple")
_b("nested-list-inner", [f"z, [y, {{n}}] = 0, (0, {MK})"], family="nested-tuple")
_b("import", ["import {n}"])
_b("import-as", ["import xvm as {n}"], family="import")
_b("import-dotted-as", ["import xvm.sub as {n}"], family="import")
_b("import-multi", ["import xvm as z, xvm as {n}"], family="import")
_b("import-dotted", ["import {n}.sub"], family="import")
_b("from-import", ["from xvm import {n}"], family="from")
_b("from-import-as", ["from xvm import q as {n}"], family="from")
_b("from-import-multi", ["from xvm import q, {n}"], family="from")
_b("from-import-paren", ["from xvm import (q, {n})"], family="from")
_b("def", ["def {n}():", IND + "pass"])
_b("def-decorated", ["@ident", "def {n}():", IND + "pass"], family="def")
_b("class", ["class {n}:", IND + "pass"])
_b("class-bases", ["class {n}(XC):", IND + "pass"], family="class")
_b("for", block=f"for {{n}} in [{MK}]:")
_b("for-after", [f"for {{n}} in [{MK}]:", IND + "pass"], family="for")
_b("for-tuple", block=f"for z, {{n}} in [(0, {MK})]:", family="for")
_b("for-nested-tuple", block=f"for z, (y, {{n}}) in [(0, (0, {MK}))]:", family="for")
_b("for-starred", block=f"for z, *{{n}} in [(0, {MK})]:", family="for")
_b("for-else", [f"for {{n}} in [{MK}]:", IND + "pass", "else:", IND + "pass"], family="for")
_b("with", block='with mk("cm:{n}") as {n}:')
_b("with-after", ['with mk("cm:{n}") as {n}:', IND + "pass"], family="with")
_b("with-tuple", block='with mk("cm2:{n}") as (z, {n}):', family="with")
_b("with-multi", block='with mk("cm:z") as z, mk("cm:{n}") as {n}:', family="with")
_b("with-list", block='with mk("cm2:{n}") as [z, {n}]:', family="with")
_b("except", ["try:", IND + 'raise XE("{n}")'], block="except XE as {n}:")
_b("except-tuple", ["try:", IND + 'raise XE("{n}")'], block="except (XE, KeyError) as {n}:", family="except")
_b("except-second", ["try:", IND + 'raise XE("{n}")', "except KeyError as z:", IND + "pass"], block="except XE as {n}:", family="except")
_b("except-star", ["try:", IND + 'raise XE("{n}")'], block="except* XE as {n}:", family="except")
_b("walrus-stmt", [f"({{n}} := {MK})"], family="walrus")
_b("walrus-call-stmt", [f"ident(({{n}} := {MK}))"], family="walrus")
_b("walrus-assign-rhs", [f"z = ({{n}} := {MK})"], family="walrus")
_b("walrus-if", block=f"if ({{n}} := {MK}):", family="walrus")
_b("walrus-if-after", [f"if ({{n}} := {MK}):", IND + "pass"], family="walrus")
_b("walrus-while", block=f"while ({{n}} := {MK}):", btail=["break"], family="walrus")
_b("walrus-comp-stmt", [f"[({{n}} := v) for v in [{MK}]]"], family="walrus")
_b("walrus-comp-assign", [f"z = [({{n}} := v) for v in [{MK}]]"], family="walrus")
_b("walrus-boolop-stmt", [f"({{n}} := {MK}) and 0"], family="walrus")
_b("walrus-not-stmt", [f"not ({{n}} := {MK})"], family="walrus")
_b("global-func", ["def g9():", IND + "global {n}", IND + f"{{n}} = {MK}", "g9()"], family="global")
_b("global-same-scope", ["global {n}", f"{{n}} = {MK}"], family="global")
_b("global-func-del-rebind", ["def g9():", IND + "global {n}", IND + '{n} = mk("{n}0")', IND + "del {n}", IND + f"{{n}} = {MK}", "g9()"], family="global")
_b("del-rebind", ['{n} = mk("{n}0")', "del {n}", f"{{n}} = {MK}"], family="del-rebind")
_b("param-pos", block="def p9({n}):", post=[f"p9({MK})"], family="param")
_b("param-posonly", block="def p9({n}, /):", post=[f"p9({MK})"], family="param")
_b("param-second", block="def p9(z, {n}):", post=[f"p9(0, {MK})"], family="param")
_b("param-default", block=f"def p9(z=0, {{n}}={MK}):", post=["p9()"], family="param")
_b("param-kwonly", block="def p9(*, {n}):", post=[f"p9({{n}}={MK})"], family="param")
_b("param-kwonly-default", block=f"def p9(*z, {{n}}={MK}):", post=["p9()"], family="param")
_b("param-vararg", block="def p9(*{n}):", post=[f"p9({MK})"], family="param")
_b("param-kwarg", block="def p9(**{n}):", post=[f"p9(z={MK})"], family="param")
_b("param-annotated", block="def p9({n}: int) -> None:", post=[f"p9({MK})"], family="param")
# the bound name is read inside a NESTED scope of the binder statement itself (analysed before the
# statement ends, run after it): a class name inside its own methods, a def name inside its own body
_b("class-in-method", ["class {n}:"], block=IND + "def m9(self):", post=["{n}().m9()"], family="selfref")
_b("class-in-plain-function", ["class {n}:"], block=IND + "def m9():", post=["{n}.m9()"], family="selfref")
_b("class-bases-in-method", ["class {n}(XC):"], block=IND + "def m9(self):", post=["{n}().m9()"], family="selfref")
_b("class-in-second-method", ["class {n}:", IND + "t9 = 0", IND + "def a9(self):", IND * 2 + "pass"], block=IND + "def m9(self):", post=["{n}().m9()"], family="selfref")
_b("class-in-nested-class-method", ["class {n}:", IND + "class K9:"], block=IND * 2 + "def m9(self):", post=["{n}.K9().m9()"], family="selfref")
_b("class-in-method-nested-def", ["class {n}:", IND + "def m9(self):"], block=IND * 2 + "def g9():", post=[IND * 2 + "g9()", "{n}().m9()"], family="selfref")
_b("class-in-lambda-attr", embed=["class {n}:", IND + "f9 = lambda self: {U}", "{n}().f9()"], family="selfref")
_b("class-in-method-lambda-default", embed=["class {n}:", IND + "def m9(self, c9=lambda: {U}):", IND * 2 + "return c9()", "{n}().m9()"], family="selfref")
_b("def-in-own-body", block="def {n}():", post=["{n}()"], family="selfref")
_b("def-in-nested-def", ["def {n}():"], block=IND + "def g9():", post=[IND + "g9()", "{n}()"], family="selfref")
_b("def-in-nested-class-method", ["def {n}():", IND + "class K9:"], block=IND * 2 + "def m9(self):", post=[IND + "K9().m9()", "{n}()"], family="selfref")
_b("def-in-own-lambda", embed=["def {n}():", IND + "return (lambda: {U})()", "{n}()"], family="selfref")

# embed binders share a line with the use: keep that line free of calls/strings (session globals
# q = the value, xs = [value], xt = [(0, value)]) so that a wrong "not in scope" verdict is not hidden
# by the subprocess re-parse of the line failing; the *-mk variants keep the mk("n") spelling.
_b("lambda-param", embed=["(lambda {n}: {U})(q)"], family="lambda")
_b("lambda-param-mk", embed=[f"(lambda {{n}}: {{U}})({MK})"], family="lambda")
_b("lambda-default", embed=["(lambda {n}=q: {U})()"], family="lambda")
_b("lambda-assigned", embed=["z = lambda {n}: {U}", "z(q)"], family="lambda")
_b("lambda-vararg", embed=["(lambda *{n}: {U})(q)"], family="lambda")
_b("lambda-in-call", embed=["ident(lambda {n}: {U})(q)"], family="lambda")
_b("lambda-kwonly", embed=["(lambda *, {n}: {U})({n}=q)"], family="lambda")
_b("listcomp", embed=["[{U} for {n} in xs]"], listed="guidance", family="comp")
_b("listcomp-mk", embed=[f"[{{U}} for {{n}} in [{MK}]]"], listed="guidance", family="comp")
_b("setcomp", embed=["{{{U} for {n} in xs}}"], listed="guidance", family="comp")
_b("genexp", embed=["list({U} for {n} in xs)"], listed="guidance", family="comp")
_b("genexp-bare", embed=["({U} for {n} in xs)"], listed="guidance", family="comp")
_b("dictcomp", embed=["{{0: {U} for {n} in xs}}"], listed="guidance", family="comp")
_b("comp-second-for", embed=["[{U} for z in xs for {n} in xs]"], listed="guidance", family="comp")
_b("comp-if", embed=["[0 for {n} in xs if {U}]"], listed="guidance", family="comp")
_b("comp-tuple-target", embed=["[{U} for z, {n} in xt]"], listed="guidance", family="comp")
_b("comp-assigned", embed=["z = [{U} for {n} in xs]"], listed="guidance", family="comp")
_b("comp-subscript", embed=["[{U} for {n} in xs][0]"], listed="guidance", family="comp")
_b("match-capture", [f"match {MK}:"], block=IND + "case {n}:", listed="guidance", family="match")
_b("match-as", [f"match {MK}:"], block=IND + "case _ as {n}:", listed="guidance", family="match")
_b("match-seq", [f"match [0, {MK}]:"], block=IND + "case [z, {n}]:", listed="guidance", family="match")
_b("match-star", [f"match [0, {MK}]:"], block=IND + "case [z, *{n}]:", listed="guidance", family="match")
_b("match-mapping", [f'match {{{{"k": {MK}}}}}:'], block=IND + 'case {{"k": {n}}}:', listed="guidance", family="match")
_b("match-mapping-rest", [f'match {{{{"k": {MK}}}}}:'], block=IND + "case {{**{n}}}:", listed="guidance", family="match")
_b("match-class", ['match XC("{n}"):'], block=IND + "case XC(a={n}):", listed="guidance", family="match")
_b("match-after", [f"match {MK}:", IND + "case {n}:", IND * 2 + "pass"], listed="guidance", family="match")

BINDER_ORDER = list(B)

# binders that may provide the *other* names (b2): statement binders without a body
B2_OK = [k for k, v in B.items() if v["block"] is None and v["embed"] is None and v["sess"] is None]


def block_depth(spec):
    """extra indentation of the use inside the binder's block header"""
    if spec["block"] is None:
        return 0
    hdr = spec["block"]
    return (len(hdr) - len(hdr.lstrip(" "))) // len(IND) + 1


# --------------------------------------------------------------------------------------- DEL forms

DELS = {
    "del": ["del {n}"],
    "del-multi": ["z8 = 0", "del {n}, z8"],
    "del-multi-last": ["z8 = 0", "del z8, {n}"],
    "del-paren": ["del ({n})"],
    "del-tuple": ["z8 = 0", "del ({n}, z8)"],
    "del-list": ["del [{n}]"],
    "del-in-with": ['with mk("w"):', IND + "del {n}"],
    "del-in-try": ["try:", IND + "del {n}", "finally:", IND + "pass"],
}
DEL_ORDER = list(DELS)

# --------------------------------------------------------------------------------------- placements

SCOPES = {"f": "def", "c": "class"}


def placements(max_depth):
    """(outer, inner) strings over {f,c}; len(outer)+len(inner) <= max_depth; simplest first."""
    import itertools

    out = []
    for total in range(max_depth + 1):
        for lo in range(total + 1):
            li = total - lo
            for o in itertools.product("fc", repeat=lo):
                for i in itertools.product("fc", repeat=li):
                    out.append(("".join(o), "".join(i)))
    return out


def scope_strings(max_depth):
    import itertools

    out = []
    for d in range(max_depth + 1):
        for o in itertools.product("fc", repeat=d):
            out.append("".join(o))
    return out


def _wrap_scopes(lines, scopes, tag):
    """wrap lines into nested def/class bodies; scopes[0] is the outermost."""
    for depth in range(len(scopes), 0, -1):
        kind = scopes[depth - 1]
        nm = f"{tag}{depth}"
        if kind == "f":
            lines = [f"def f{nm}():"] + ind(lines) + [f"f{nm}()"]
        else:
            lines = [f"class C{nm}:"] + ind(lines)
    return lines


def placement_name(o, i):
    if not o and not i:
        return "mod"
    return (o or "mod") + ("/" + i if i else "")


# --------------------------------------------------------------------------------------- builder


class NotApplicable(Exception):
    pass


def _fmt(lines, name):
    return [s.format(n=name) for s in lines]


def build(c, del_form=None, explicit=False):
    """coords -> dict(src, globals, locals, use_line (1-based line of the use), name).
    del_form: insert that `del` between binder and use (clause c); explicit: spell the use ![...]."""
    c = {**DEFAULT, **c}
    spec = B[c["b"]]
    name = spec["name"] or "n"
    u = USES[c["u"]]
    text = use_text(c["u"], c["f"], name)
    needs_expr, wfn = WRAPS[c["w"]]
    g_names, l_names = [], []
    if spec["sess"] == "global":
        g_names.append(name)
    elif spec["sess"] == "local":
        l_names.append(name)
    prelude = []
    others = [x for x in ("l", "m", "k") if x != name]
    if c["b2"] == "sess-global":
        g_names += others
    else:
        if c["b2"] not in B2_OK:
            raise NotApplicable("b2")
        for x in others[:2]:
            prelude += _fmt(B[c["b2"]]["pre"], x)
        g_names += others[2:]
    if explicit:
        if not u["cmd"]:
            raise NotApplicable("no command reading")
        text = explicit_text(c["u"], text)
    if spec["embed"] is not None:
        if not (u["expr"] and u["embed"]) or c["w"] != "none" or c["i"] or del_form or explicit:
            raise NotApplicable("embed binder needs a bare embeddable expression use")
        if c["b"] == "comp-if" and c["u"] == "ifexp":
            raise NotApplicable("a conditional expression cannot be a comprehension condition")
        use_lines = [s.replace("{U}", "\0").format(n=name).replace("\0", text) for s in spec["embed"]]
        mid = _fmt(MIDS[c["mid"]], name)
        body = mid + use_lines
        marker = use_lines[0]
    else:
        if needs_expr and not (u["expr"] and u["embed"]):
            raise NotApplicable("wrapper needs an embeddable expression")
        if needs_expr and explicit:
            raise NotApplicable("explicit form only at statement level")
        use_lines = wfn([text], text)
        marker = text if not needs_expr else use_lines[0]
        use_lines = _wrap_scopes(use_lines, c["i"], "i")
        mid = _fmt(MIDS[c["mid"]], name)
        dl = _fmt(DELS[del_form], name) if del_form else []
        inner = mid + dl + use_lines
        if spec["block"] is not None:
            hdr = spec["block"].format(n=name)
            d = block_depth(spec)
            body = _fmt(spec["pre"], name) + [hdr] + ind(inner + spec["btail"], d) + _fmt(spec["post"], name)
        else:
            body = _fmt(spec["pre"], name) + inner
    lines = prelude + _wrap_scopes(body, c["o"], "o")
    src = "\n".join(lines) + "\n"
    # 1-based line number of the (first line of the) use
    use_line = None
    mk = marker.strip()
    for idx, s in enumerate(lines):
        if s.strip() == mk:
            use_line = idx + 1
    return {"src": src, "globals": sorted(set(g_names)), "locals": sorted(set(l_names)), "use_line": use_line, "name": name, "use_text": text,
            "static_bound": c["mid"] in STATIC_BOUND_MIDS and not c["i"] and B[c["b"]]["embed"] is None}


def coords_key(c):
    c = {**DEFAULT, **c}
    return tuple(c[k] for k in ("b", "o", "i", "u", "w", "f", "mid", "b2"))


def coords_label(c):
    """`binder:<kind>:<placement>:<use-shape>` plus the non-default remaining coordinates"""
    c = {**DEFAULT, **c}
    s = f"binder:{c['b']}:{placement_name(c['o'], c['i'])}:{c['u']}"
    for k in ("w", "f", "mid", "b2"):
        if c[k] != DEFAULT[k]:
            s += f":{k}={c[k]}"
    return s


# --------------------------------------------------------------------------------------- broken tails (clause d)

TAILS = {
    "close-paren": ")",
    "open-paren": "(",
    "close-bracket": "]",
    "double-eq": "x = = 1",
    "def-colon": "def :",
    "quote-single": "'abc",
    "quote-double": 'x = "abc',
    "quote-triple": "'''abc",
    "bad-indent": "  bad_indent = 1",
    "missing-indent": "if 1:\npass",
    "open-tuple": "x = (1,",
    "stray-paren-after-cmd": "n -l)",
    "return-outside": "return 1",
    "break-outside": "break",
    "yield-outside": "yield 1",
    "nonlocal-module": "nonlocal zz",
    "dup-arg": "def f(a, a): pass",
    "dup-kwarg": "f(a=1, a=2)",
    "open-subproc": "$(",
    "open-bang": "![",
    "assign-to-call": "f() = 1",
    "star-expr": "*a",
}
TAIL_ORDER = list(TAILS)


# --------------------------------------------------------------------------------------- session histories (clause h)
# Several inputs executed one after the other in the SAME session (same Execer, same globals /
# locals dicts, same `builtins` module).  Between the inputs the name under test is added to /
# removed from one of the three places a session name can live: B = the builtins module,
# G = the session globals, L = the locals mapping passed to exec.  The change is made either by the
# harness between two inputs (mode letter "h": setattr(builtins, ...), dict stores) or by an input of
# its own (mode letter "s": `import builtins; builtins.n = ...`, `n = ...`, `del n`); the mode is a
# string with one letter per event, so an input may bind what the harness later unbinds.  After every change the
# use is submitted again; the decision must follow the bindings that exist when THAT input is
# compiled.  The first input is always a non-trivial pure-Python warm-up (so per-session caches of
# the Execer / transformer are populated before anything changes); first == "WC" additionally
# submits the use while the name is still unbound (it must run as a command) before it gets bound.

HIST_WARM = 'w0 = mk("w0")\nw0 -l\nlen -w0 and m\nc9 = [v9 -l for v9 in xs]\n'
HIST_FIRST = ("W", "WC", "WS")  # WS: warm-up only, with $XONSH_BUILTINS_TO_CMD switched ON for the whole history
HIST_BUILTIN_NAMES = ("id", "type")  # session names spelled like a builtin (and like a command on $PATH)
def hist_modes(n, mixed=True):
    """who makes each of the n changes: h = the harness between two inputs, s = an input (source).
    Uniform strings first; mixed ones (an input binds, the harness unbinds, ...) on request."""
    import itertools

    out = ["h" * n, "s" * n]
    if mixed:
        out += [m for m in ("".join(t) for t in itertools.product("hs", repeat=n)) if m not in out]
    return out


def hist_valid(events):
    state = set()
    for ev in events:
        if (ev[0] == "+") == (ev[1] in state):
            return False
        state ^= {ev[1]}
    return True
HIST_NAMES = ("n", "_")


def histories(maxlen):
    """all valid event sequences over +B -B +G -G +L -L (add only where absent, remove only where
    present) up to maxlen events, shortest first."""
    out = []

    def rec(seq, state):
        if seq:
            out.append(tuple(seq))
        if len(seq) == maxlen:
            return
        for x in "BGL":
            if x in state:
                rec(seq + ["-" + x], state - {x})
            else:
                rec(seq + ["+" + x], state | {x})

    rec([], frozenset())
    out.sort(key=lambda s: (len(s), s))
    return out


def explicit_text(u, text):
    if u == "comment":
        return "![" + text.split("  #")[0] + "]  # c"
    return "![" + text + "]"


def _hist_source(op, x, name, sep):
    if x == "B":
        return f'import builtins\nbuiltins.{name} = mk("{name}")\n' if op == "+" else f"import builtins\ndel builtins.{name}\n"
    if x == "G" and sep:
        return f'globals()["{name}"] = mk("{name}")\n' if op == "+" else f'del globals()["{name}"]\n'
    return f'{name} = mk("{name}")\n' if op == "+" else f"del {name}\n"


def hist_steps(first, mode, events, u, f="head", name="n"):
    """-> (steps, separate_locals).  A step is ["src", text, "py"|"cmd", explicit spelling | None]
    or ["add"|"rem", "B"|"G"|"L", name] (harness action between two inputs)."""
    text = use_text(u, f, name)
    like_builtin = name in HIST_BUILTIN_NAMES
    switch = first == "WS"
    if (like_builtin or switch) and (first == "WC" or any(e[1] == "B" for e in events)):
        # a builtin-named session name is never unbound (the builtin shows through) and the builtins module
        # is left alone; with the switch on "commands win over builtins" is the documented opt-in
        raise NotApplicable("no builtins events / command-first for builtin-named names or the switch")
    cmd_ok = bool(USES[u]["cmd"]) and f == "head" and not like_builtin and not switch
    expl = explicit_text(u, text) + "\n" if cmd_ok else None
    sep = any(e[1] == "L" for e in events)
    steps = [["src", HIST_WARM.replace("len -w0", "m -w0") if switch else HIST_WARM, "py", None]]
    if switch:
        steps.insert(0, ["env", "XONSH_BUILTINS_TO_CMD", True])
    if first == "WC":
        if not cmd_ok:
            raise NotApplicable("the use has no command reading to start with")
        steps.append(["src", text + "\n", "cmd", expl])
    state = set()
    assert len(mode) == len(events), (mode, events)
    for ev, md in zip(events, mode):
        op, x = ev[0], ev[1]
        if md == "h":
            steps.append(["add" if op == "+" else "rem", x, name])
        else:
            steps.append(["src", _hist_source(op, x, name, sep), "py", None])
        state ^= {x}
        if state or (like_builtin and not switch):
            # bound in the session - or not, and then the builtin of that name is read (switch off)
            steps.append(["src", text + "\n", "py", None])
        elif cmd_ok:
            # unbound again: only uses with a well-defined command reading are submitted
            steps.append(["src", text + "\n", "cmd", expl])
    return steps, sep


def hist_label(first, mode, events, u, f="head", name="n"):
    s = f"hist:{first}:{mode}:{''.join(events)}:{u}"
    if f != "head":
        s += f":f={f}"
    if name != "n":
        s += f":name={name}"
    return s


# --------------------------------------------------------------------------------------- command lines around Python (clause m)
# A compilation unit that ALSO contains real command lines (names c9 / c8 / x / y are never bound):
# the Python part - any program of the grammar above - must still be exactly Python.
# name -> (lines, number of top-level statements)

PREFIXES = {
    "bare": (["c9 -x"], 1),
    "explicit": (["![c9 -x]"], 1),
    "uncaptured": (["$[c9 -x]"], 1),
    "captured-obj": (["!(c9 -x)"], 1),
    "captured-obj-assign": (["r9 = !(c9 -x)"], 1),
    "captured-stdout-assign": (["r9 = $(c9 -x)"], 1),
    "chain-and": (["c9 -x && c8 -y"], 1),
    "chain-or": (["c9 -x || c8 -y"], 1),
    "py-chain": (["![c9 -x] and ![c8 -y]"], 1),
    "pipe": (["c9 -x | c8 -y"], 1),
    "in-if": (["if !(c9 -x):", IND + "pass"], 1),
    "in-func": (["def h9():", IND + "![c9 -x]", "h9()"], 2),
    "two": (["c9 -x", "!(c8 -y)"], 2),
}
PREFIX_ORDER = list(PREFIXES)
MIX_POS = ("before", "after", "both")
MIX_FLAGS = ("TT", "FF", "TF", "FT")  # $XONSH_SUBPROC_RAISE_ERROR, $XONSH_SUBPROC_CMD_RAISE_ERROR
BOOL_USES = ["and", "or", "not", "and-flags", "or-not"]


def mixed_src(q_src, prefix, pos):
    """-> (source, slice of top-level statements that is the Python part)"""
    lines, k = PREFIXES[prefix]
    pre = "\n".join(lines) + "\n"
    if pos == "before":
        return pre + q_src, (k, None)
    if pos == "after":
        return q_src + pre, (0, -k)
    return pre + q_src + pre, (k, -k)
