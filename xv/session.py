"""In-process xonsh sessions for harnesses (the same seam xonsh.pytest.plugin uses)."""

import os

_EXECER = None


def get_execer():
    global _EXECER
    if _EXECER is None:
        from xonsh.execer import Execer

        _EXECER = Execer()
        _EXECER.parser.parse("1\n")  # join the table loader thread
    return _EXECER


BASE_ENV = {
    "UPDATE_OS_ENVIRON": False,
    "XONSH_COLOR_STYLE": "default",
    "XONSH_ENCODING": "utf-8",
    "XONSH_ENCODING_ERRORS": "strict",
    "COMMANDS_CACHE_SAVE_INTERMEDIATE": False,
    "XONSH_SHOW_TRACEBACK": False,
    "XONSH_INTERACTIVE": False,
    "THREAD_SUBPROCS": True,
}


def load_session(env=None, ctx=None, data_dir=None, inherit_os=False, path=None):
    """(Re)load the global XSH session with a small deterministic environment."""
    from xonsh.built_ins import XSH
    from xonsh.environ import Env, default_env

    unload_session()
    if inherit_os:
        e = Env(default_env())
    else:
        e = Env()
    e.update(BASE_ENV)
    if data_dir is not None:
        e["XONSH_DATA_DIR"] = data_dir
        e["XONSH_CACHE_DIR"] = data_dir
        e["XONSH_CONFIG_DIR"] = data_dir
        e["HOME"] = data_dir
    e["PATH"] = list(path) if path is not None else ["/usr/bin", "/bin"]
    e["PWD"] = os.getcwd()
    if env:
        e.update(env)
    XSH.load(ctx={} if ctx is None else ctx, execer=get_execer(), env=e)
    return XSH


def unload_session():
    from xonsh.built_ins import XSH

    if getattr(XSH, "env", None) is not None or getattr(XSH, "_py_exit", None) is not None:
        try:
            XSH.unload()
        except Exception:
            pass
    try:
        from xonsh.procs.jobs import get_tasks

        get_tasks().clear()
    except Exception:
        pass
