"""C12, schedule part: the real JsonHistory with its real JsonHistoryFlusher threads and the
_queue/_cond ticket protocol under the controlled scheduler (threading.Condition replaced by a
cooperative one, so waiting is visible).  The main thread appends (buffer size 1: every append
starts a flusher), reads by index in between (readers take a ticket too) and finally flushes at
exit; every interleaving with <= P preemptions is executed."""

import os
import shutil

from . import common, pysched
from .session import load_session

# programs for the main thread: list of ops
PROGRAMS = {
    "3appends-b1": {"buf": 1, "hc": (), "ops": [("append", "a"), ("read",), ("append", "b"), ("read",), ("append", "c"), ("exit-flush",), ("read",)]},
    "dups-b1": {"buf": 1, "hc": ("ignoredups",), "ops": [("append", "a"), ("append", "a"), ("read",), ("append", "b"), ("exit-flush",), ("read",)]},
    "dups-b2": {"buf": 2, "hc": ("ignoredups",), "ops": [("append", "a"), ("append", "a"), ("read",), ("append", "b"), ("read",), ("exit-flush",), ("read",)]},
    "err-b2": {"buf": 2, "hc": ("ignoreerr",), "ops": [("append", "a"), ("append", "F"), ("read",), ("append", "b"), ("exit-flush",), ("read",)]},
    "flush-mid": {"buf": 3, "hc": (), "ops": [("append", "a"), ("flush",), ("append", "é"), ("flush",), ("read",), ("append", "c"), ("exit-flush",), ("read",)]},
}
QUICK = ["3appends-b1", "dups-b2", "flush-mid"]

_PROG = None
_ROOT = None
_XSH = None


def _setup():
    global _ROOT, _XSH
    import xonsh.history.json as J

    _ROOT = common.scratch_dir("c12s")
    _XSH = load_session(data_dir=_ROOT, env={"XONSH_STORE_STDOUT": False, "XONSH_HISTORY_SAVE_CWD": False})
    J.threading = pysched.threading_shim()
    J.time = pysched.time_shim()


def _traced():
    import xonsh.history.json as J

    fs = [
        J.JsonHistoryFlusher.__init__,
        J.JsonHistoryFlusher.run,
        J.JsonHistoryFlusher.dump,
        J.JsonHistoryFlusher.i_am_at_the_front,
        J.JsonCommandField.__getitem__,
        J.JsonCommandField.i_am_at_the_front,
        J.JsonHistory.append,
        J.JsonHistory.flush,
        J.JsonHistory.__len__,
    ]
    codes = pysched.codes_of(*fs)
    for c in J.JsonHistory.flush.__code__.co_consts:
        if hasattr(c, "co_name") and c.co_name == "skip":
            codes.append(c)
    for name in dir(J.JsonHistoryFlusher):
        if name.startswith("_filter") or name.startswith("_select"):
            codes.append(getattr(J.JsonHistoryFlusher, name).__code__)
    return codes


def _body(s):
    from xonsh.history.json import JsonHistory

    prog = PROGRAMS[_PROG]
    _XSH.env["HISTCONTROL"] = set(prog["hc"])
    d = os.path.join(_ROOT, "h")
    shutil.rmtree(d, ignore_errors=True)
    os.makedirs(d)
    h = JsonHistory(filename=os.path.join(d, "xonsh-sess.json"), sessionid="sess", buffersize=prog["buf"], gc=False, save_cwd=False)
    clock = [100.0]
    appended = []
    flushers = []
    obs = []
    for op in prog["ops"]:
        if op[0] == "append":
            clock[0] += 1
            rtn = 1 if op[1] == "F" else 0
            cmd = {"inp": op[1], "rtn": rtn, "ts": [clock[0], clock[0] + 0.5], "out": None}
            appended.append({"text": op[1], "rtn": rtn, "ts": clock[0]})
            flushers.append(h.append(cmd))
        elif op[0] == "flush":
            flushers.append(h.flush())
        elif op[0] == "exit-flush":
            flushers.append(h.flush(at_exit=True))
        elif op[0] == "read":
            n = len(h)
            got = []
            for i in range(n):
                try:
                    got.append((h.inps[i], h.tss[i][0]))
                except Exception as e:  # noqa: BLE001
                    got.append(("<raises>", type(e).__name__))
            obs.append({"len": n, "items": got, "appended_so_far": len(appended)})
    for t in flushers:
        if t is not None and getattr(t, "ident", None) is not None:
            t.join()
    # final on-disk decode
    from xonsh.lib.lazyjson import LazyJSON

    with LazyJSON(h.filename) as lj:
        disk = [(c["inp"], c["ts"][0]) for c in lj.load()["cmds"]]
        locked = lj.load().get("locked")
    final_len = len(h)
    return {"obs": obs, "disk": disk, "appended": appended, "final_len": final_len, "locked": locked}


def _excludable(appended, i, hc):
    e = appended[i]
    if "ignoreerr" in hc and e["rtn"] != 0:
        return True
    if "ignoredups" in hc and i > 0 and appended[i - 1]["text"] == e["text"]:
        return True
    return False


def _check(r, prefix):
    viols = []
    prog = PROGRAMS[_PROG]
    hc = prog["hc"]

    def V(key, clause, observed, expected):
        viols.append({"key": f"sched:{key}", "clause": clause, "case": {"program": _PROG}, "observed": observed, "expected": expected})

    if r.outcome or r.error or r.errors:
        V(f"abnormal:{r.outcome or 'exception'}", "no deadlock/livelock/exception under any flusher timing", [r.outcome, r.error, r.errors], "normal completion")
        return viols
    v = r.value
    app = v["appended"]
    by_ts = {e["ts"]: e for e in app}
    for o in v["obs"]:
        raised = [g for g in o["items"] if g[0] == "<raises>"]
        if raised:
            V(f"len-and-index-consistent:index-below-len-raises:{'pending-skip' if hc else 'none'}", "len(history) and indexing are mutually consistent at every point", o, "every 0 <= i < len readable")
            continue
        tss = [g[1] for g in o["items"]]
        if tss != sorted(tss) or len(set(tss)) != len(tss):
            V("append-order-no-duplicates:index", "read back in append order without duplicates", o, "strictly increasing timestamps")
        for text, ts in o["items"]:
            if ts not in by_ts or by_ts[ts]["text"] != text:
                V("text-verbatim-or-invention:index", "no inventions, same text", (text, ts), "an appended entry")
        kept = [e["ts"] for i, e in enumerate(app[: o["appended_so_far"]]) if not _excludable(app, i, hc)]
        for ts in kept:
            if ts not in tss:
                V("every-kept-command-readable:index", "every command not excluded can be read back", o, f"ts {ts} present")
    disk_ts = [d[1] for d in v["disk"]]
    if disk_ts != sorted(disk_ts) or len(set(disk_ts)) != len(disk_ts):
        V("append-order-no-duplicates:disk", "on-disk store in append order without duplicates", v["disk"], "strictly increasing timestamps")
    for text, ts in v["disk"]:
        if ts not in by_ts or by_ts[ts]["text"] != text:
            V("text-verbatim-or-invention:disk", "no inventions, same text", (text, ts), "an appended entry")
    for i, e in enumerate(app):
        if not _excludable(app, i, hc) and e["ts"] not in disk_ts:
            V("every-kept-command-on-disk-after-exit-flush", "after the exit flush every kept command is on disk", v["disk"], f"{e['text']!r} present")
    if v["final_len"] != len(v["disk"]):
        V("len-equals-disk-after-exit-flush", "len(history) equals the stored commands once everything is flushed", v["final_len"], len(v["disk"]))
    return viols


def run_part(ctx):
    global _PROG
    bound = ctx.pick(2, 3)
    names = list(PROGRAMS) if ctx.thorough else QUICK
    _setup()
    traced = _traced()
    total = {"executions": 0, "steps": 0, "sigs": set(), "capped": None}
    per = {}
    for name in names:
        _PROG = name
        viols, st = pysched.explore(_body, _check, traced, bound, ctx, setup=_setup, max_execs_per_shard=ctx.pick(3000, 100000), budget_s=ctx.pick(90, 170))
        ctx.add_violations(viols)
        total["executions"] += st.executions
        total["steps"] += st.steps
        total["sigs"] |= st.sigs
        total["capped"] = total["capped"] or st.capped
        per[name] = st.executions
        ctx.log(f"pysched {name}: {st.executions} schedules, {st.steps} steps, max {st.max_choice_points} choice points, {len(viols)} raw violations")
    ctx.sample({"program": names[0], "ops": PROGRAMS[names[0]]["ops"], "preemption_bound": bound})
    return {
        "states": len(total["sigs"]),
        "transitions": total["steps"],
        "executions": total["executions"],
        "exhaustive": total["capped"] is None,
        "summary": {"preemption_bound": bound, "schedules_per_program": per, "capped": total["capped"]},
    }
