"""C02 - Python wins: code whose names are all bound runs as Python, never as a command.

Bounded-exhaustive product of three small grammars (xv/c02_space.py): BINDERS (how a name becomes
bound) x USES (statements that look like a command but are valid Python) x PLACEMENTS (scope
nesting of binder and use, statement wrappers, interludes in other scopes), driven through the real
`Execer.parse` / `Execer.exec` with `xonsh.procs.specs.run_subproc` replaced by a recorder (nothing
is ever launched).  Bound names hold instrumented objects that log every dunder call, so running a
program under xonsh and under builtin `exec(compile(src))` from equal namespaces can be compared.

Oracle (from the statement):
 (a) tree : Execer.parse(src, names) contains no `__xonsh__.subproc_*` call and equals ast.parse(src)
            (locations, Constant.kind, type_comment ignored; `__xonsh__.builtin_cmd('len')` for a bare
            builtin name is read as the name itself - see "does not require");
 (b) exec : same operation log, same resulting bindings, same exception type as CPython, and the
            spawn recorder saw nothing;
 (c) del  : after `del n` (name bound only by that binder, same scope) the later use line is the
            tree of its explicit `![...]` spelling and runs the same spawn;
 (d) atomic: if Execer.exec(P + broken tail) raises SyntaxError then nothing of P ran (empty
            operation log, no spawn, namespace untouched);
 (m) mixed: the same input also contains real command lines (bare, ![..], $[..], !(..), chains, pipes,
            inside if/def; before / after / around the Python part; every command ending with return
            code 0 or 1; both raise flags both ways): the Python part of the compiled tree still
            equals ast.parse of the Python program, and the run does to the instrumented objects what
            CPython does, around whatever the command lines alone do;
 (h) hist : several inputs in ONE session (same Execer, same globals/locals dicts, the real builtins
            module) while the name is added to / removed from builtins, the session globals or the
            exec locals - by the harness between inputs or by an input itself - after a non-trivial
            warm-up input (and optionally a first use while still unbound, which must spawn): every
            input is judged by the bindings that exist when IT is compiled (bound anywhere -> clauses
            a+b against CPython run in lock-step; unbound again -> tree and spawn of the explicit
            ![...] spelling).  The tree is the one Execer.compile really compiles (captured at
            Execer.parse), so stale per-session state in Execer.compile is visible.

Does NOT require (never flagged):
 * any treatment of names that are not bound at the use (bound later, only in a sibling/inner scope,
   only conditionally): programs on which CPython itself raises NameError/UnboundLocalError are
   dropped (counted as `dropped_precondition`);
 * "commands win over builtins" under $XONSH_BUILTINS_TO_CMD=True; a bare builtin name may be routed
   through `__xonsh__.builtin_cmd` - unless a session namespace binds that name (then the rewrite would
   read the builtin instead of the session value: reported).  The switch is only a second configuration
   of the session histories (first == "WS"), where names bound in the session must stay Python;
 * anything about constructs xonsh's context-free parser already parses differently from CPython
   (C01's business): dropped and counted as `dropped_c01`;
 * bare-vs-explicit differences that exist without any binding involved (C03's business): such use
   shapes are dropped from clause (c) and counted;
 * that a broken tail is a syntax error for xonsh at all (`x = = 1`, `def :` are valid *commands*):
   clause (d) only speaks about inputs for which xonsh does raise SyntaxError;
 * what `n and m` means after `del n` (per-operand decision): boolean uses are not in clause (c);
   (one deliberate exception to the NameError rule above, directed by the property owner: a name bound
   earlier in the same scope and then reused by `except E as <name>` whose handler RAN is unbound for
   CPython, but the static decision must still be "Python" - judged as tree equality + NameError on both
   sides + no spawn; see c02_space.STATIC_BOUND_MIDS)
 * whether / when a failing command raises (C05): clause (m) takes the outcome of the command lines
   run alone as given and only demands that the Python part is untouched by them.
"""

import ast
import builtins
import os
import signal
import sys
import types

from . import common
from . import c02_space as S

LEVEL = "exploration"

FILENAME = "<c02>"
BASE_NAMES = ("mk", "XE", "XC", "ident", "q", "xs", "xt")  # session globals every program may read
BUILTIN_NAMES = set(dir(builtins))

# ----------------------------------------------------------------------------- instrumented objects


def tag_of(v):
    if isinstance(v, _Ops):
        return v._t
    if v is None or isinstance(v, (bool, int, float, str, bytes)):
        return repr(v)
    if isinstance(v, (list, tuple)):
        return type(v).__name__ + "[" + ",".join(tag_of(x) for x in v) + "]"
    if isinstance(v, (set, frozenset)):
        return type(v).__name__ + "{" + ",".join(sorted(tag_of(x) for x in v)) + "}"
    if isinstance(v, dict):
        return "dict{" + ",".join(f"{tag_of(k)}:{tag_of(x)}" for k, x in v.items()) + "}"
    if isinstance(v, types.ModuleType):
        return f"<module {v.__name__}>"
    if isinstance(v, type):
        return f"<class {v.__name__}>"
    if isinstance(v, BaseExceptionGroup):
        return "<group " + ",".join(tag_of(x) for x in v.exceptions) + ">"
    if callable(v) and hasattr(v, "__name__"):
        return f"<{type(v).__name__} {v.__name__}>"
    return f"<{type(v).__name__}>"


def _binop(op):
    def f(self, other):
        self._w.log.append((op, self._t, tag_of(other)))
        return self._w.new(f"{op}({self._t},{tag_of(other)})")

    f.__name__ = f"__{op}__"
    return f


def _unop(op):
    def f(self):
        self._w.log.append((op, self._t))
        return self._w.new(f"{op}({self._t})")

    f.__name__ = f"__{op}__"
    return f


class _Ops:
    """Mixin: every operator the USES grammar can reach is logged in the world's log."""

    for _op in ("sub", "rsub", "add", "radd", "or", "ror", "and", "rand", "gt", "lt", "ge", "le", "rshift", "rrshift", "lshift",
                "rlshift", "truediv", "rtruediv", "mul", "rmul", "matmul", "mod", "iadd", "isub", "floordiv", "xor"):
        locals()[f"__{_op}__"] = _binop(_op)
    for _op in ("neg", "pos", "invert"):
        locals()[f"__{_op}__"] = _unop(_op)
    del _op

    def __bool__(self):
        self._w.log.append(("bool", self._t))
        return True

    def __getattr__(self, name):
        if name.startswith("__") and name.endswith("__"):
            raise AttributeError(name)
        if name in ("_w", "_t"):
            raise AttributeError(name)
        self._w.log.append(("getattr", self._t, name))
        return self._w.new(f"{self._t}.{name}")

    def __getitem__(self, key):
        self._w.log.append(("getitem", self._t, tag_of(key)))
        return self._w.new(f"{self._t}[{tag_of(key)}]")

    def __setitem__(self, key, value):
        self._w.log.append(("setitem", self._t, tag_of(key), tag_of(value)))

    def __delitem__(self, key):
        self._w.log.append(("delitem", self._t, tag_of(key)))

    def __delattr__(self, name):
        self._w.log.append(("delattr", self._t, name))

    def __call__(self, *a, **kw):
        self._w.log.append(("call", self._t, tuple(tag_of(x) for x in a), tuple(sorted((k, tag_of(x)) for k, x in kw.items()))))
        return self._w.new(f"{self._t}()")

    def __enter__(self):
        self._w.log.append(("enter", self._t))
        r = self._w.new(self._t + ".enter")
        return (0, r) if self._t.startswith("cm2:") else r

    def __exit__(self, *exc):
        self._w.log.append(("exit", self._t, tag_of(exc[0])))
        return False

    def __format__(self, spec):
        self._w.log.append(("format", self._t, spec))
        return self._t


class Obj(_Ops):
    __slots__ = ("_w", "_t")

    def __init__(self, world, tag):
        object.__setattr__(self, "_w", world)
        object.__setattr__(self, "_t", tag)

    def __repr__(self):
        return f"<{self._t}>"


def _ident(x):
    return x


class World:
    """One execution's universe: the log and everything programs can reach."""

    def __init__(self):
        self.log = []
        w = self

        class XE(_Ops, Exception):
            _w = w

            def __init__(self, tag="e"):
                Exception.__init__(self, tag)

            @property
            def _t(self):
                return "XE:" + str(self.args[0])

        class XC:
            __match_args__ = ("a",)

            def __init__(self, tag="c"):
                self.a = w.new(tag)

        self.XE, self.XC = XE, XC

    def new(self, tag):
        return Obj(self, tag)

    def mk(self, tag):
        self.log.append(("mk", tag))
        return Obj(self, tag)

    def namespaces(self, sess):
        g = {"mk": self.mk, "XE": self.XE, "XC": self.XC, "ident": _ident, "q": self.new("n"), "xs": [self.new("n")], "xt": [(0, self.new("n"))]}
        for nm in sess["globals"]:
            g[nm] = self.new(nm)
        if sess["locals"]:
            loc = {nm: self.new(nm) for nm in sess["locals"]}
        else:
            loc = g
        return g, loc

    def modules(self):
        xvm = types.ModuleType("xvm")
        sub = types.ModuleType("xvm.sub")
        xvm.sub = sub
        xvm.n = self.new("xvm.n")
        xvm.q = self.new("xvm.q")
        for nm in ("l", "m", "len", "zip"):
            setattr(xvm, nm, self.new("xvm." + nm))
        mods = {"xvm": xvm, "xvm.sub": sub}
        for nm in ("n", "l", "m"):
            mods[nm] = self.new("mod:" + nm)
            mods[nm + ".sub"] = types.ModuleType(nm + ".sub")
        return mods


def _ns_summary(g, loc):
    out = {"g": {k: tag_of(v) for k, v in sorted(g.items()) if k != "__builtins__"}}
    if loc is not g:
        out["l"] = {k: tag_of(v) for k, v in sorted(loc.items()) if k != "__builtins__"}
    return out


# ----------------------------------------------------------------------------- the two executors

SPAWNS = []


def _canon(x):
    if isinstance(x, (list, tuple)):
        return [_canon(y) for y in x]
    if isinstance(x, str):
        return x
    return repr(x)


_PIPE_RC = None  # None: the recorder returns None; an int: it returns a finished fake pipeline with that return code


class _FakeSpec:
    background = False
    raise_subproc_error = None
    args = ["c9", "-x"]

    def __init__(self, captured):
        self.captured = captured


class _FakePipe:
    """What run_subproc hands back for a finished command, as far as the raise checks look at it."""

    def __init__(self, rc, captured):
        self.returncode = self.rtn = rc
        self.output = self.out = ""
        self.spec = _FakeSpec(captured)

    def __bool__(self):
        return self.returncode == 0


def _recorder(cmds, captured=False, envs=None, in_boolop=False):
    SPAWNS.append(_canon(cmds))
    if _PIPE_RC is None:
        return None
    from xonsh.built_ins import XSH

    cp = _FakePipe(_PIPE_RC, captured)
    XSH.lastcmd = cp  # what the real run_subproc does when the pipeline has ended
    return cp


class _Timeout(BaseException):
    pass


def _alarm(signum, frame):
    raise _Timeout()


CPU_LIMIT_S = 40.0  # the slowest input of the thorough space (`try/else` body + `; ]` tail) needs ~11 CPU-seconds in Execer._parse_ctx_free


def _run(src, sess, how, slow_ok=False, pipe=None):
    """Execute src under CPython ('ref') or the real Execer ('xonsh') from a fresh world.
    pipe = (return code, flags) makes every recorded command end with that return code under
    $XONSH_SUBPROC_RAISE_ERROR / $XONSH_SUBPROC_CMD_RAISE_ERROR = flags ('TF', ...).
    -> dict(exc, syntax, line, log, ns, spawns, ns0)"""
    global _PIPE_RC
    env_saved = None
    if pipe is not None:
        from xonsh.built_ins import XSH as _X

        env_saved = {k: _X.env.get(k) for k in ("XONSH_SUBPROC_RAISE_ERROR", "XONSH_SUBPROC_CMD_RAISE_ERROR")}
        _X.env["XONSH_SUBPROC_RAISE_ERROR"] = pipe[1][0] == "T"
        _X.env["XONSH_SUBPROC_CMD_RAISE_ERROR"] = pipe[1][1] == "T"
        _X.lastcmd = None
        _PIPE_RC = pipe[0]
    w = World()
    g, loc = w.namespaces(sess)
    ns0 = _ns_summary(g, loc)
    mods = w.modules()
    saved = {k: sys.modules.get(k) for k in mods}
    sys.modules.update(mods)
    del SPAWNS[:]
    exc = None
    syntax = False
    line = None
    # CPU-time alarm (load independent): a program of this size needs milliseconds
    signal.signal(signal.SIGVTALRM, _alarm)
    signal.setitimer(signal.ITIMER_VIRTUAL, CPU_LIMIT_S)
    try:
        if how == "ref":
            code = compile(src, FILENAME, "exec")
            exec(code, g, loc)
        else:
            from xonsh.built_ins import XSH

            XSH.execer.exec(src, mode="exec", glbs=g, locs=loc, filename=FILENAME)
    except _Timeout:
        if slow_ok:
            return None
        raise common.ToolError(f"no result within {CPU_LIMIT_S} CPU-seconds ({how}) for {src!r}") from None
    except BaseException as e:  # noqa: BLE001 - the exception type is the observation
        exc = type(e).__name__
        syntax = isinstance(e, SyntaxError)
        tb = e.__traceback__
        while tb is not None:
            if tb.tb_frame.f_code.co_filename == FILENAME:
                line = tb.tb_lineno
            tb = tb.tb_next
        del tb
    finally:
        signal.setitimer(signal.ITIMER_VIRTUAL, 0)
        for k, v in saved.items():
            if v is None:
                sys.modules.pop(k, None)
            else:
                sys.modules[k] = v
        if env_saved is not None:
            _PIPE_RC = None
            _X.lastcmd = None
            for k, v in env_saved.items():
                _X.env[k] = v
    return {"exc": exc, "syntax": syntax, "line": line, "log": [list(x) for x in w.log], "ns": _ns_summary(g, loc), "spawns": list(SPAWNS), "ns0": ns0}


def _names_of(sess):
    return set(BASE_NAMES) | set(sess["globals"]) | set(sess["locals"])


_FILTER_EXECER = None  # a second Execer that only ever sees the C03-filter programs (no binding of n)


def parse_ctx(src, sess, pristine=False):
    """What Execer.compile does before compiling: the context-aware tree.  pristine=True uses an
    Execer of its own, so that state a defective session Execer carries over from earlier inputs
    cannot poison the C03 filter."""
    from xonsh.built_ins import XSH

    global _FILTER_EXECER
    ex = XSH.execer
    if pristine:
        if _FILTER_EXECER is None:
            from xonsh.execer import Execer

            _FILTER_EXECER = Execer()
        ex = _FILTER_EXECER
    names = _names_of(sess)
    return ex.parse(src, BUILTIN_NAMES | names, mode="exec", filename=FILENAME, user_names=set(names))


def parse_ctx_free(src):
    from xonsh.built_ins import XSH

    return XSH.execer.parse(src, set(), mode="exec", filename=FILENAME, transform=False)


# ----------------------------------------------------------------------------- tree comparison

_IGNORED = {"kind", "type_comment", "type_ignores"}


def first_diff(g, e, where="root"):
    """First structural difference between trees g and e (None if equal); locations ignored."""
    if isinstance(e, ast.AST):
        if not isinstance(g, ast.AST) or type(g).__name__ != type(e).__name__:
            return where, f"{where}: {type(g).__name__} != {type(e).__name__}"
        cname = type(e).__name__
        for f in e._fields:
            if f in _IGNORED:
                continue
            gv, ev = getattr(g, f, None), getattr(e, f, None)
            if (ev is None or ev == []) and (gv is None or gv == []):
                continue
            d = first_diff(gv, ev, f"{cname}.{f}")
            if d:
                return d
        return None
    if isinstance(e, list):
        if not isinstance(g, list):
            return where, f"{where}: {type(g).__name__} != list"
        if len(g) != len(e):
            return where + ":len", f"{where}: {len(g)} element(s) != {len(e)}"
        for gi, ei in zip(g, e):
            d = first_diff(gi, ei, where)
            if d:
                return d
        return None
    if isinstance(g, (ast.AST, list)) or type(g) is not type(e) or g != e:
        return where, f"{where}: {g!r} != {e!r}"
    return None


def xonsh_calls(tree):
    """names of all `__xonsh__.<...>` helpers referenced in the tree"""
    out = []
    for n in ast.walk(tree):
        if isinstance(n, ast.Attribute) and isinstance(n.value, ast.Name) and n.value.id == "__xonsh__":
            out.append(n.attr)
    return out


class _BuiltinCmdToName(ast.NodeTransformer):
    """`__xonsh__.builtin_cmd('len')` (bare builtin name with $XONSH_BUILTINS_TO_CMD unset) -> `len`.
    deny: names bound in the session namespaces - for them the rewrite is NOT a reading of the builtin
    (it would yield the builtin instead of the session value) and is left in place, i.e. reported."""

    def __init__(self, deny=()):
        self.deny = set(deny)

    def visit_Call(self, node):
        self.generic_visit(node)
        f = node.func
        if (
            isinstance(f, ast.Attribute)
            and f.attr == "builtin_cmd"
            and isinstance(f.value, ast.Name)
            and f.value.id == "__xonsh__"
            and len(node.args) == 1
            and isinstance(node.args[0], ast.Constant)
            and isinstance(node.args[0].value, str)
            and node.args[0].value.isidentifier()  # only ever emitted for a bare name that is a builtin at compile time
            and node.args[0].value not in self.deny
        ):
            return ast.Name(id=node.args[0].value, ctx=ast.Load())
        return node


def _unparse(tree):
    try:
        return ast.unparse(tree)
    except Exception as e:  # noqa: BLE001
        return f"<unparse failed: {type(e).__name__}>"


# ----------------------------------------------------------------------------- clause evaluators


def _cmp_exec(exp, got, want_spawns=None):
    """first differing component between two runs (None if equal)"""
    if want_spawns is None and got["spawns"]:
        return "spawn"
    if want_spawns is not None and got["spawns"] != want_spawns:
        return "spawn"
    if exp["exc"] != got["exc"]:
        return "exc"
    if exp["log"] != got["log"]:
        return "log"
    if exp["ns"] != got["ns"]:
        return "ns"
    return None


def _brief(run):
    return {"exception": run["exc"], "log": run["log"][:12], "spawns": run["spawns"][:4], "bindings": run["ns"]}


def eval_py_src(src, sess):
    """clauses (a)+(b) on one source.  -> dict(status, sig, observed, expected, nontrivial)"""
    try:
        exp_tree = ast.parse(src)
    except SyntaxError as e:
        return {"status": "drop:invalid-python", "detail": str(e)}
    ref = _run(src, sess, "ref")
    if ref["exc"] in ("NameError", "UnboundLocalError"):
        # outside the precondition "every name read is defined" - except when the name IS bound earlier in
        # the same scope of the source and only an `except ... as <same name>` block that ran unbound it:
        # xonsh decides statically, the line stays Python (NameError at the use on both sides, no spawn)
        if not (sess.get("static_bound") and sess.get("use_line") is not None and ref["line"] == sess["use_line"]):
            return {"status": "drop:precondition"}
    a_sig = None
    a_obs = None
    try:
        tree = parse_ctx(src, sess)
    except SyntaxError as e:
        tree = None
        a_sig = "reject"
        a_obs = f"SyntaxError: {e}"[:200]
    except Exception as e:  # noqa: BLE001 - the transformer itself fell over on valid Python
        tree = None
        a_sig = "crash:" + type(e).__name__
        a_obs = f"{type(e).__name__}: {e}"[:200]
    if tree is not None:
        tree = _BuiltinCmdToName().visit(tree)
        calls = xonsh_calls(tree)
        if any(c.startswith("subproc_") for c in calls):
            a_sig = "cmd"
            a_obs = _unparse(tree)
        else:
            d = first_diff(tree, exp_tree)
            if d:
                a_sig = "tree:" + d[0]
                a_obs = d[1] + " | " + _unparse(tree)
    if a_sig is not None:
        # C01 filter: does the context-free parser already disagree with CPython?
        try:
            cf_ok = first_diff(parse_ctx_free(src), exp_tree) is None
        except SyntaxError:
            cf_ok = False
        if not cf_ok:
            return {"status": "drop:c01"}
    got = _run(src, sess, "xonsh")
    b_sig = _cmp_exec(ref, got)
    nontrivial = len(ref["log"]) > 0
    if a_sig is None and b_sig is None:
        return {"status": "ok", "nontrivial": nontrivial, "log_len": len(ref["log"])}
    sig = a_sig if a_sig is not None else "exec:" + b_sig
    return {
        "status": "viol",
        "sig": sig,
        "nontrivial": nontrivial,
        "observed": {"tree": a_obs if a_sig else "equal to ast.parse", "run": _brief(got)},
        "expected": {"tree": _unparse(exp_tree), "run": _brief(ref)},
    }


def eval_mixed_src(q_src, sess, prefix, pos, rc, flags):
    """clause (m): a unit made of real command lines and the pure-Python program q_src.  The Python
    part of the compiled tree must equal ast.parse(q_src); running the unit must do to the
    instrumented objects exactly what CPython does for q_src, around whatever the command lines
    alone do (observed by running them alone - whether a failing command raises is C05's business)."""
    try:
        exp_tree = ast.parse(q_src)
    except SyntaxError as e:
        return {"status": "drop:invalid-python", "detail": str(e)}
    ref = _run(q_src, sess, "ref")
    if ref["exc"] in ("NameError", "UnboundLocalError"):
        return {"status": "drop:precondition"}
    whole, (lo, hi) = S.mixed_src(q_src, prefix, pos)
    pre = "\n".join(S.PREFIXES[prefix][0]) + "\n"
    sig = obs = None
    try:
        tree = parse_ctx(whole, sess)
    except Exception as e:  # noqa: BLE001
        tree = None
        sig, obs = ("reject" if isinstance(e, SyntaxError) else "crash:" + type(e).__name__), f"{type(e).__name__}: {e}"[:200]
    if tree is not None:
        part = ast.Module(body=tree.body[lo:hi], type_ignores=[])
        part = _BuiltinCmdToName().visit(part)
        if any(c.startswith("subproc_") for c in xonsh_calls(part)):
            sig, obs = "cmd", _unparse(part)
        else:
            d = first_diff(part, exp_tree)
            if d:
                sig, obs = "tree:" + d[0], d[1] + " | " + _unparse(part)
    if sig is not None:
        try:
            cf_ok = first_diff(parse_ctx_free(q_src), exp_tree) is None
        except SyntaxError:
            cf_ok = False
        if not cf_ok:
            return {"status": "drop:c01"}
    alone = _run(pre, sess, "xonsh", pipe=(rc, flags))
    got = _run(whole, sess, "xonsh", pipe=(rc, flags))
    # expected outcome composed from "commands alone" and "Python alone"
    n_pre = {"before": 1, "after": 0, "both": 1}[pos]
    n_post = {"before": 0, "after": 1, "both": 1}[pos]
    exp = {"exc": None, "log": [], "spawns": [], "ns": None}
    if n_pre:
        exp["spawns"] += alone["spawns"]
        exp["exc"] = alone["exc"]
    if exp["exc"] is None:
        exp["log"] = ref["log"]
        exp["exc"] = ref["exc"]
        if exp["exc"] is None and n_post:
            exp["spawns"] += alone["spawns"]
            exp["exc"] = alone["exc"]
        if exp["exc"] is None:
            # bindings = what the Python program leaves + what the command lines alone add (r9, h9),
            # in whichever mapping they land (globals, or the separate locals of a session-local run)
            exp["ns"] = {}
            for part, names in ref["ns"].items():
                d = dict(names)
                d.update({k: v for k, v in alone["ns"].get(part, {}).items() if k not in alone["ns0"].get(part, {})})
                exp["ns"][part] = dict(sorted(d.items()))
    if sig is None:
        if got["spawns"] != exp["spawns"]:
            sig = "exec:spawn"
        elif got["exc"] != exp["exc"]:
            sig = "exec:exc"
        elif got["log"] != exp["log"]:
            sig = "exec:log"
        elif exp["ns"] is not None and got["ns"] != exp["ns"]:
            sig = "exec:ns"
        if sig is not None:
            obs = "Python part equal to ast.parse"
    if sig is None:
        return {"status": "ok", "nontrivial": len(ref["log"]) > 0 and len(alone["spawns"]) > 0}
    return {
        "status": "viol",
        "sig": sig,
        "nontrivial": True,
        "observed": {"tree_of_python_part": obs, "run": _brief(got)},
        "expected": {"tree_of_python_part": _unparse(exp_tree), "run": {"exception": exp["exc"], "log": exp["log"][:12], "spawns": exp["spawns"][:4], "bindings": exp["ns"]}, "commands_alone": _brief(alone)},
    }


_USE_ALONE = {}


def _use_alone_ok(coords):
    """C03 filter for clause (c): with the head name unbound and nothing else around, does the bare
    use already equal its explicit spelling?  (If not, the difference is not about `del`.)"""
    c = {**S.DEFAULT, **coords}
    key = (c["u"], c["w"])
    if key not in _USE_ALONE:
        try:
            bare = S.build({"b": "sess-global", "u": c["u"], "w": c["w"]})
            expl = S.build({"b": "sess-global", "u": c["u"], "w": c["w"]}, explicit=True)
            sess = {"globals": [x for x in bare["globals"] if x != "n"], "locals": []}
            tb = parse_ctx(bare["src"], sess, pristine=True)
            te = parse_ctx(expl["src"], sess, pristine=True)
            ok = first_diff(tb, te) is None and any(x.startswith("subproc_") for x in xonsh_calls(tb))
        except (S.NotApplicable, SyntaxError):
            ok = False
        _USE_ALONE[key] = ok
    return _USE_ALONE[key]


def eval_del_src(bare, expl, sess, use_line, argv=None):
    """clause (c) on a pair of sources (bare use / explicit ![...] use after the del)."""
    try:
        ast.parse(bare)
    except SyntaxError as e:
        return {"status": "drop:invalid-python", "detail": str(e)}
    ref = _run(bare, sess, "ref")
    if not (ref["exc"] in ("NameError", "UnboundLocalError") and ref["line"] == use_line):
        return {"status": "drop:del-precondition"}  # CPython does not see the name as deleted at the use
    try:
        te = parse_ctx(expl, sess)
    except Exception:  # noqa: BLE001 - the explicit spelling itself is not accepted: nothing to compare with
        return {"status": "drop:explicit-unparsable"}
    sig = obs = None
    try:
        tb = parse_ctx(bare, sess)
    except SyntaxError as e:
        tb = None
        sig, obs = "reject", f"SyntaxError: {e}"[:200]
    except Exception as e:  # noqa: BLE001
        tb = None
        sig, obs = "crash:" + type(e).__name__, f"{type(e).__name__}: {e}"[:200]
    if tb is not None:
        d = first_diff(tb, te)
        if d:
            still = not any(x.startswith("subproc_") for x in xonsh_calls(tb))
            sig = "still-python" if still else "tree:" + d[0]
            obs = _unparse(tb)
    want = _run(expl, sess, "xonsh")
    got = _run(bare, sess, "xonsh")
    if sig is None:
        b = _cmp_exec(want, got, want_spawns=want["spawns"])
        if b is None and not got["spawns"]:
            b = "nospawn"
        if b is None and argv is not None and got["spawns"][0] != [argv]:
            b = "argv"
        if b is not None:
            sig = "exec:" + b
            obs = "tree equal to explicit spelling"
    if sig is None:
        return {"status": "ok", "nontrivial": True}
    return {
        "status": "viol",
        "sig": sig,
        "nontrivial": True,
        "observed": {"tree": obs, "run": _brief(got)},
        "expected": {"tree": _unparse(te), "run": _brief(want), "argv": argv},
    }


def atomic_src(p_src, tail, sep, pos):
    t = S.TAILS[tail]
    p = p_src.rstrip("\n")
    if sep == "nl":
        src = p + "\n" + t + "\n"
    else:
        if "\n" in t:
            raise S.NotApplicable("multi-line tail")
        src = p + "; " + t + "\n"
    if pos == "mid":
        src += 'mk("after")\n'
    return src


def eval_atomic_src(src, sess):
    """clause (d): SyntaxError => nothing ran."""
    got = _run(src, sess, "xonsh", slow_ok=True)
    if got is None:
        # the subprocess-retry loop of Execer._parse_ctx_free needs seconds of CPU on this input; whether
        # and when it ends is C03's clause ("detection terminates"), nothing ran so far either way
        return {"status": "drop:slow-parse"}
    if not got["syntax"]:
        return {"status": "accepted", "exc": got["exc"]}
    clean = not got["log"] and not got["spawns"] and got["ns"] == got["ns0"]
    if clean:
        return {"status": "ok", "nontrivial": True}
    return {
        "status": "viol",
        "sig": "partial",
        "nontrivial": True,
        "observed": {"exception": got["exc"], "log": got["log"][:12], "spawns": got["spawns"][:4], "bindings": got["ns"]},
        "expected": {"exception": got["exc"], "log": [], "spawns": [], "bindings": got["ns0"]},
    }


# ----------------------------------------------------------------------------- clause (h): session histories

_ABSENT = object()


def _run_seq(steps, sep, how):
    """Run a history (c02_space.hist_steps) in ONE session: one world, one globals / locals pair, the
    real `builtins` module (restored afterwards).  how: 'ref' = CPython exec, command-expected steps
    skipped; 'xonsh' = the real Execer; 'xonsh-explicit' = the real Execer with command-expected
    steps spelled ![...].  -> per step None | dict(exc, log, ns, spawns, tree)"""
    w = World()
    g, _ = w.namespaces({"globals": ["l", "m", "k"], "locals": []})
    loc = {} if sep else g
    names = sorted(({st[2] for st in steps if st[0] in ("add", "rem")} | set(S.HIST_NAMES)) - BUILTIN_NAMES)  # never touch real builtins
    env_saved = {}
    saved = {nm: getattr(builtins, nm, _ABSENT) for nm in names}
    for nm, v in saved.items():
        if v is not _ABSENT:
            delattr(builtins, nm)
    captured = []
    execer = None
    if how != "ref":
        from xonsh.built_ins import XSH

        execer = XSH.execer
        real_parse = execer.parse

        def _parse(*a, **kw):  # Execer.compile calls self.parse: keep the tree it compiles
            t = real_parse(*a, **kw)
            captured.append(t)
            return t

        execer.parse = _parse
    out = []
    signal.signal(signal.SIGVTALRM, _alarm)
    try:
        for st in steps:
            if st[0] == "env":
                if how != "ref":
                    env_saved.setdefault(st[1], XSH.env.get(st[1]))
                    XSH.env[st[1]] = st[2]
                out.append(None)
                continue
            if st[0] in ("add", "rem"):
                _, where, nm = st
                if st[0] == "add":
                    v = w.new(nm)
                    if where == "B":
                        setattr(builtins, nm, v)
                    else:
                        (g if where == "G" else loc)[nm] = v
                elif where == "B":
                    delattr(builtins, nm)
                else:
                    del (g if where == "G" else loc)[nm]
                out.append(None)
                continue
            _, text, expect, expl = st
            if how == "ref" and expect == "cmd":
                out.append(None)
                continue
            src = expl if (how == "xonsh-explicit" and expect == "cmd") else text
            n0 = len(w.log)
            del SPAWNS[:]
            del captured[:]
            exc = None
            pre = sorted((set(g) | set(loc)) & (set(S.HIST_BUILTIN_NAMES) | set(S.HIST_NAMES)))  # session-bound when this input is compiled
            signal.setitimer(signal.ITIMER_VIRTUAL, CPU_LIMIT_S)
            try:
                if how == "ref":
                    exec(compile(src, FILENAME, "exec"), g, loc)
                else:
                    execer.exec(src, mode="exec", glbs=g, locs=loc, filename=FILENAME)
            except _Timeout:
                raise common.ToolError(f"no result within {CPU_LIMIT_S} CPU-seconds ({how}) for {src!r}") from None
            except BaseException as e:  # noqa: BLE001
                exc = type(e).__name__
            finally:
                signal.setitimer(signal.ITIMER_VIRTUAL, 0)
            ns = _ns_summary(g, loc)
            ns["b"] = {nm: tag_of(getattr(builtins, nm)) for nm in names if hasattr(builtins, nm)}
            out.append({"exc": exc, "log": [list(x) for x in w.log[n0:]], "ns": ns, "spawns": list(SPAWNS), "tree": captured[-1] if captured else None, "pre": pre})
    finally:
        if execer is not None:
            del execer.parse
        for k_, v_ in env_saved.items():
            if v_ is None:
                XSH.env.pop(k_, None)
            else:
                XSH.env[k_] = v_
        for nm, v in saved.items():
            if v is _ABSENT:
                if hasattr(builtins, nm):
                    delattr(builtins, nm)
            else:
                setattr(builtins, nm, v)
    return out


def _brief_step(r):
    return None if r is None else {"exception": r["exc"], "log": r["log"][:12], "spawns": r["spawns"][:4], "bindings": {k: v for k, v in r["ns"].items() if k != "g"} | {"g": {k: v for k, v in r["ns"]["g"].items() if k in ("n", "_")}}}


def eval_hist_steps(steps, sep):
    """clause (h): every input of the history is judged against the bindings that exist when it is
    compiled: name bound somewhere (builtins / globals / locals) -> clauses (a)+(b) against CPython
    run in lock-step; name unbound -> tree and spawn of the explicit ![...] spelling."""
    ref = _run_seq(steps, sep, "ref")
    got = _run_seq(steps, sep, "xonsh")
    expl = _run_seq(steps, sep, "xonsh-explicit") if any(st[0] == "src" and st[2] == "cmd" for st in steps) else None
    checked = 0
    for k, st in enumerate(steps):
        if st[0] != "src":
            continue
        _, text, expect, _e = st
        g = got[k]
        sig = obs = None
        if expect == "py":
            r = ref[k]
            if r["exc"] in ("NameError", "UnboundLocalError"):
                return {"status": "drop:precondition"}
            exp_tree = ast.parse(text)
            if g["tree"] is not None:
                tree = _BuiltinCmdToName(deny=g["pre"]).visit(g["tree"])
                if any(c.startswith("subproc_") for c in xonsh_calls(tree)):
                    sig, obs = "py:cmd", _unparse(tree)
                elif "builtin_cmd" in xonsh_calls(tree):
                    sig, obs = "py:builtin-instead-of-session-value", _unparse(tree)
                else:
                    d = first_diff(tree, exp_tree)
                    if d:
                        try:
                            cf_ok = first_diff(parse_ctx_free(text), exp_tree) is None
                        except SyntaxError:
                            cf_ok = False
                        if not cf_ok:
                            return {"status": "drop:c01"}
                        sig, obs = "py:tree:" + d[0], d[1] + " | " + _unparse(tree)
            if sig is None:
                b = _cmp_exec(r, g)
                if b is not None:
                    sig, obs = "py:exec:" + b, "tree equal to ast.parse" if g["tree"] is not None else "no tree (compile raised)"
            want = r
            exp_t = _unparse(exp_tree)
        else:
            e = expl[k]
            if e["tree"] is None:
                return {"status": "drop:explicit-unparsable"}
            if g["tree"] is None:
                sig, obs = "cmd:reject", f"{g['exc']}"
            else:
                d = first_diff(g["tree"], e["tree"])
                if d:
                    still = not any(x.startswith("subproc_") for x in xonsh_calls(g["tree"]))
                    sig, obs = ("cmd:still-python" if still else "cmd:tree:" + d[0]), _unparse(g["tree"])
            if sig is None:
                b = _cmp_exec(e, g, want_spawns=e["spawns"])
                if b is None and not g["spawns"]:
                    b = "nospawn"
                if b is not None:
                    sig, obs = "cmd:exec:" + b, "tree equal to explicit spelling"
            want = e
            exp_t = _unparse(e["tree"])
        checked += 1
        if sig is not None:
            return {
                "status": "viol",
                "sig": sig,
                "nontrivial": True,
                "observed": {"step": k, "input": text, "expected_reading": expect, "tree": obs, "run": _brief_step(g)},
                "expected": {"step": k, "tree": exp_t, "run": _brief_step(want)},
            }
    return {"status": "ok", "nontrivial": checked >= 2, "checked_inputs": checked}


# ----------------------------------------------------------------------------- items, minimiser

_CACHE = {}


def _coords(t):
    return dict(zip(("b", "o", "i", "u", "w", "f", "mid", "b2"), t))


def _eval_item(item):
    if item in _CACHE:
        return _CACHE[item]
    kind = item[0]
    try:
        if kind == "hi":
            first, mode, events, u, f, name = item[1]
            if first == "WC" and not _use_alone_ok({"u": u}):
                raise S.NotApplicable("bare and explicit spelling differ without any binding (C03)")
            steps, sep = S.hist_steps(first, mode, events, u, f, name)
            if not _use_alone_ok({"u": u}):
                steps = [st for st in steps if st[0] != "src" or st[2] != "cmd"]
            r = eval_hist_steps(steps, sep)
            r["case"] = {"clause": "hist", "steps": steps, "separate_locals": sep}
            if len(_CACHE) > 200000:
                _CACHE.clear()
            _CACHE[item] = r
            return r
        c = _coords(item[1])
        if kind == "py":
            bt = S.build(c)
            r = eval_py_src(bt["src"], bt)
            r["case"] = {"clause": "py", "src": bt["src"], "globals": bt["globals"], "locals": bt["locals"], "static_bound": bt["static_bound"], "use_line": bt["use_line"]}
        elif kind == "del":
            if not _use_alone_ok(c):
                r = {"status": "drop:c03"}
            else:
                bare = S.build(c, del_form=item[2])
                expl = S.build(c, del_form=item[2], explicit=True)
                argv = bare["use_text"].split() if S.USES[c["u"]]["argv"] else None
                r = eval_del_src(bare["src"], expl["src"], bare, bare["use_line"], argv)
                r["case"] = {"clause": "del", "src": bare["src"], "explicit_src": expl["src"], "globals": bare["globals"], "locals": bare["locals"], "use_line": bare["use_line"], "argv": argv}
        elif kind == "mx":
            bt = S.build(c)
            prefix, pos, rc, flags = item[2:6]
            r = eval_mixed_src(bt["src"], bt, prefix, pos, rc, flags)
            r["case"] = {"clause": "mixed", "src": S.mixed_src(bt["src"], prefix, pos)[0], "python_src": bt["src"], "globals": bt["globals"], "locals": bt["locals"], "prefix": prefix, "pos": pos, "rc": rc, "flags": flags}
        else:
            bt = S.build(c)
            src = atomic_src(bt["src"], item[2], item[3], item[4])
            r = eval_atomic_src(src, bt)
            r["case"] = {"clause": "atomic", "src": src, "globals": bt["globals"], "locals": bt["locals"]}
    except S.NotApplicable:
        r = {"status": "na"}
    if len(_CACHE) > 200000:
        _CACHE.clear()
    _CACHE[item] = r
    return r


def _shorter(s):
    """simpler scope strings: empty first, then every single deletion"""
    out = [""]
    for i in range(len(s)):
        t = s[:i] + s[i + 1 :]
        if t and t not in out:
            out.append(t)
    return out


def _minimise(item, sig):
    """Deterministic walk to the smallest program with the same failure signature: every coordinate
    is moved to its simplest value while the failure is preserved, a non-trivial binder of the
    *other* names is promoted to the binder under test, and finally the use shape / focus are
    replaced by the first (in grammar order) that still fails - so every program failing for the
    same binder kind lands on the same key.  Evaluations are cached."""
    kind = item[0]
    cur = list(item[1])
    extra = list(item[2:])
    names = ("b", "o", "i", "u", "w", "f", "mid", "b2")
    B_, U_, F_, B2_ = 0, 3, 5, 7

    def fails(ct, ex):
        r = _eval_item((kind, tuple(ct), *ex))
        return r["status"] == "viol" and r["sig"] == sig

    changed = True
    while changed:
        changed = False
        if kind == "del" and extra[0] != "del" and fails(cur, ["del"]):
            extra = ["del"]
            changed = True
        if kind == "mx":
            for pos_, simple in ((3, "TT"), (2, 0), (1, "before"), (0, "bare")):
                if extra[pos_] != simple:
                    t = list(extra)
                    t[pos_] = simple
                    if fails(cur, t):
                        extra, changed = t, True
        if cur[B2_] != S.DEFAULT["b2"]:
            trial = list(cur)
            trial[B_], trial[B2_], trial[F_] = cur[B2_], S.DEFAULT["b2"], "head"
            if fails(trial, extra):
                cur = trial
                changed = True
        for idx in (7, 6, 4, 5, 2, 1, 3, 0):
            k = names[idx]
            if cur[idx] == S.DEFAULT[k]:
                continue
            cands = _shorter(cur[idx]) if k in ("o", "i") else [S.DEFAULT[k]]
            for cand in cands:
                trial = list(cur)
                trial[idx] = cand
                if fails(trial, extra):
                    cur = trial
                    changed = True
                    break
    # canonical (use, focus): the first in grammar order that still fails
    done = False
    for u in S.USE_ORDER:
        for f in ("head", "arg"):
            if (u, f) == (cur[U_], cur[F_]):
                done = True
                break
            trial = list(cur)
            trial[U_], trial[F_] = u, f
            if fails(trial, extra):
                cur = trial
                done = True
                break
        if done:
            break
    return (kind, tuple(cur), *extra)


def _minimise_hist(item, sig):
    """smallest history with the same failure signature: plain name, warm-up only, head focus,
    events dropped one at a time while the rest stays a valid history, every change made by the
    harness where possible, then the first use shape in grammar order."""
    first, mode, events, u, f, name = item[1]

    def fails(t):
        r = _eval_item(("hi", tuple(t)))
        return r["status"] == "viol" and r["sig"] == sig

    cur = [first, mode, tuple(events), u, f, name]
    changed = True
    while changed:
        changed = False
        for idx, simple in ((5, "n"), (0, "W"), (4, "head")):
            if cur[idx] != simple:
                t = list(cur)
                t[idx] = simple
                if fails(t):
                    cur, changed = t, True
        for k in range(len(cur[2])):
            ev = cur[2][:k] + cur[2][k + 1 :]
            if not ev or not S.hist_valid(ev):
                continue
            t = list(cur)
            t[2], t[1] = ev, cur[1][:k] + cur[1][k + 1 :]
            if fails(t):
                cur, changed = t, True
                break
        for k in range(len(cur[1])):
            if cur[1][k] != "h":
                t = list(cur)
                t[1] = cur[1][:k] + "h" + cur[1][k + 1 :]
                if fails(t):
                    cur, changed = t, True
    for uu in S.USE_ORDER:
        if uu == cur[3]:
            break
        t = list(cur)
        t[3] = uu
        if fails(t):
            cur = t
            break
    return ("hi", tuple(cur))


def _check(item):
    """worker entry: -> (status, nontrivial, violation dict | None)"""
    r = _eval_item(item)
    st = r["status"]
    if st != "viol":
        return (st, bool(r.get("nontrivial")), None)
    if item[0] == "hi":
        small = _minimise_hist(item, r["sig"])
        rs = _eval_item(small)
        case = dict(rs["case"])
        case["coords"] = {"first": small[1][0], "mode": small[1][1], "events": list(small[1][2]), "use": small[1][3], "focus": small[1][4], "name": small[1][5]}
        case["first_seen_as"] = [list(x) if isinstance(x, tuple) else x for x in item[1]]
        v = {
            "key": f"{S.hist_label(*small[1])}#{rs['sig']}",
            "clause": "each input of a session is decided by the bindings that exist when it is compiled",
            "case": case,
            "observed": rs["observed"],
            "expected": rs["expected"],
            "note": "",
        }
        return (st, True, v)
    small = _minimise(item, r["sig"])
    if small[0] == "mx":
        # the same Python program failing the same way WITHOUT any command line is a finding of
        # clauses (a)/(b), not of the mixing
        alone = ("py", small[1])
        ra = _eval_item(alone)
        if ra["status"] == "viol" and ra["sig"] == r["sig"]:
            small = _minimise(alone, r["sig"])
    rs = _eval_item(small)
    c = _coords(small[1])
    label = S.coords_label(c)
    kind = small[0]
    if kind == "py":
        key = f"{label}#{rs['sig']}"
        clause = "bound names run as Python (tree equals ast.parse, execution equals CPython, no spawn)"
    elif kind == "del":
        key = f"del:{small[2]}:{label}#{rs['sig']}"
        clause = "after `del n` the later line is a command again (tree of the explicit ![...] spelling)"
    elif kind == "mx":
        key = f"mixed:{small[2]}:{small[3]}:rc{small[4]}:{small[5]}:{label}#{rs['sig']}"
        clause = "bound names run as Python also when the same input contains command lines"
    else:
        key = f"atomic:{small[2]}:{small[3]}:{small[4]}:{label}#{rs['sig']}"
        clause = "a SyntaxError leaves nothing of the input executed"
    case = dict(rs["case"])
    case["coords"] = c
    case["extra"] = list(small[2:])
    case["first_seen_as"] = {"coords": _coords(item[1]), "extra": list(item[2:])}
    v = {"key": key, "clause": clause, "case": case, "observed": rs["observed"], "expected": rs["expected"], "note": ""}
    return (st, bool(r.get("nontrivial")), v)


# ----------------------------------------------------------------------------- session


def _fake_bin(d):
    """executables named like every name the programs use: 'the command exists' is the adversarial
    situation for a Python-vs-command decision (nothing is ever launched - run_subproc is recorded)."""
    for nm in ("n", "m", "l", "k", "len", "zip", "z", "not", "def", "x", "id", "type"):
        p = os.path.join(d, nm)
        with open(p, "w") as f:
            f.write("#!/bin/sh\nexit 0\n")
        os.chmod(p, 0o755)


def _init_worker():
    from .session import load_session

    d = common.scratch_dir("c02")
    _fake_bin(d)
    load_session(data_dir=d, path=[d])
    import xonsh.procs.specs as specs

    specs.run_subproc = _recorder
    import warnings

    warnings.simplefilter("ignore", SyntaxWarning)  # `n (l)` with a tuple-valued n: CPython's compile-time hint, not an error
    _CACHE.clear()
    _USE_ALONE.clear()


# ----------------------------------------------------------------------------- enumeration


def _T(**kw):
    return S.coords_key(kw)


def enumerate_items(thorough):
    """Simplest-first list of items.  Every slice is a *full product* of the named grammars with the
    remaining coordinates at their simplest value (the deviation bound; sizes go to the evidence)."""
    items = []
    seen = set()
    slices = {}

    def add(it):
        if it not in seen:
            seen.add(it)
            items.append(it)

    class _Slice:
        def __init__(self, name):
            self.name = name

        def __enter__(self):
            self.n0 = len(items)

        def __exit__(self, *a):
            slices[self.name] = len(items) - self.n0

    binders = S.BINDER_ORDER
    uses = S.USE_ORDER
    core = S.CORE_USES
    wraps = S.WRAP_ORDER
    mids = [m for m in S.MID_ORDER if m not in S.PART_DEL_MIDS]  # other-scope interludes
    pmids = S.PART_DEL_MIDS  # same-scope `del n[0]` / `del n.a` ...: the container stays bound
    pl1, pl2, pl3 = S.placements(1), S.placements(2), S.placements(3)
    sc1, sc2, sc3 = S.scope_strings(1), S.scope_strings(2), S.scope_strings(3)
    both = ("head", "arg")
    delb = [b for b in binders if S.B[b]["embed"] is None]
    cmd_uses = [u for u in uses if S.USES[u]["cmd"]]
    stmt_wraps = [w for w in wraps if not S.WRAPS[w][0]]
    reps = ["assign", "for", "param-pos", "import", "with", "global-func"]
    fam_reps = list({S.B[b]["family"]: b for b in reversed(binders)}.values())[::-1]  # first binder of each family

    # ---------------- clauses (a)+(b)
    with _Slice("py: every binder in its minimal context"):
        for b in binders:
            add(("py", _T(b=b)))
    with _Slice("py: binder x use (module level; both focuses for core uses, all uses in thorough)"):
        for b in binders:
            for u in uses:
                for f in both:
                    if thorough or f == "head" or u in core:
                        add(("py", _T(b=b, u=u, f=f)))
    if not thorough:
        with _Slice("py: binder x placement(depth<=2) x focus"):
            for o, i in pl2:
                for b in binders:
                    for f in both if len(o) + len(i) <= 1 else ("head",):
                        add(("py", _T(b=b, o=o, i=i, f=f)))
        with _Slice("py: binder x placement(depth 1) x {bare, and, semi}"):
            for o, i in pl1:
                for b in binders:
                    for u in ("bare", "and", "semi"):
                        add(("py", _T(b=b, o=o, i=i, u=u)))
        with _Slice("py: binder x wrapper; representative binders x wrapper x use"):
            for w in wraps:
                for b in binders:
                    add(("py", _T(b=b, w=w)))
            for w in wraps:
                for b in reps[:2]:
                    for u in uses:
                        add(("py", _T(b=b, w=w, u=u)))
        with _Slice("py: binder x interlude x {module, function}"):
            for o in ("", "f"):
                for mid in mids:
                    for b in binders:
                        if o == "" or b in fam_reps:
                            add(("py", _T(b=b, o=o, mid=mid)))
        with _Slice("py: binder pairs (assign x every b2, every binder x b2=assign)"):
            for f in both:
                for b2 in S.B2_OK:
                    add(("py", _T(b="assign", b2=b2, f=f)))
                for b in binders:
                    add(("py", _T(b=b, b2="assign", f=f)))
    else:
        with _Slice("py: binder x placement(depth<=3) x {sub-flag x focus, bare, and, semi}"):
            for o, i in pl3:
                for b in binders:
                    for f in both:
                        add(("py", _T(b=b, o=o, i=i, f=f)))
                    for u in ("bare", "and", "semi"):
                        add(("py", _T(b=b, o=o, i=i, u=u)))
        with _Slice("py: binder x placement(depth<=2) x every use"):
            for o, i in pl2:
                for b in binders:
                    for u in uses:
                        add(("py", _T(b=b, o=o, i=i, u=u)))
        with _Slice("py: binder x wrapper x 3 placements x 2 uses; one binder per family x wrapper x every use"):
            for o, i in (("", ""), ("f", ""), ("", "f")):
                for w in wraps:
                    for b in binders:
                        for u in ("sub-flag", "and"):
                            add(("py", _T(b=b, o=o, i=i, w=w, u=u)))
            for w in wraps:
                for b in fam_reps:
                    for u in uses:
                        add(("py", _T(b=b, w=w, u=u)))
        with _Slice("py: binder x interlude x placement(depth<=1) x 2 uses"):
            for o, i in pl1:
                for mid in mids:
                    for b in binders:
                        for u in ("sub-flag", "and"):
                            add(("py", _T(b=b, o=o, i=i, mid=mid, u=u)))
        with _Slice("py: binder pairs: every binder x every b2 x focus"):
            for b2 in S.B2_OK:
                for b in binders:
                    for f in both:
                        add(("py", _T(b=b, f=f, b2=b2)))
            for b2 in S.B2_OK:
                add(("py", _T(b="assign", o="f", b2=b2)))
            for b in binders:
                add(("py", _T(b=b, o="f", b2="assign")))

    with _Slice("py: binder x `del`/store of a PART of the object (subscript, slice, attribute, nested) x use"):
        if not thorough:
            for mid in pmids:
                for b in fam_reps:
                    for u in ("sub-flag", "not", "and"):
                        add(("py", _T(b=b, mid=mid, u=u)))
            for mid in ("del-subscript", "del-attr", "del-tuple-subscript", "except-reuse-not-taken", "except-reuse-taken"):
                for b in binders:
                    add(("py", _T(b=b, mid=mid)))
            for o, i in pl1:
                for mid in pmids:
                    add(("py", _T(o=o, i=i, mid=mid)))
                    add(("py", _T(o=o, i=i, mid=mid, u="and", f="arg")))
        else:
            for o, i in pl1:
                for mid in pmids:
                    for b in binders:
                        for u in ("sub-flag", "and"):
                            add(("py", _T(b=b, o=o, i=i, mid=mid, u=u)))
            for mid in pmids:
                for b in fam_reps:
                    for u in uses:
                        for f in both:
                            add(("py", _T(b=b, mid=mid, u=u, f=f)))
            for o, i in pl2:
                for mid in pmids:
                    for u in core:
                        add(("py", _T(o=o, i=i, mid=mid, u=u)))

    # ---------------- clause (m): command lines in the same compilation unit
    with _Slice("mixed: command line(s) x position x return code x raise flags x Python program"):
        bool_uses = S.BOOL_USES
        if not thorough:
            for prefix in S.PREFIX_ORDER:
                for u in uses:
                    add(("mx", _T(u=u), prefix, "before", 1, "TT"))
                for u in bool_uses:
                    for rc in (0, 1):
                        for flags in S.MIX_FLAGS:
                            add(("mx", _T(u=u), prefix, "before", rc, flags))
                for u in ("sub-flag", "and"):
                    for pos in ("after", "both"):
                        add(("mx", _T(u=u), prefix, pos, 1, "FF"))
            for prefix in ("bare", "captured-obj"):
                for b in fam_reps:
                    for u in ("sub-flag", "and"):
                        add(("mx", _T(b=b, u=u), prefix, "before", 1, "TT"))
                for w in wraps:
                    for u in ("and", "or-not"):
                        add(("mx", _T(u=u, w=w), prefix, "before", 1, "TT"))
                for o, i in pl1:
                    add(("mx", _T(o=o, i=i, u="and"), prefix, "before", 1, "TT"))
        else:
            for prefix in S.PREFIX_ORDER:
                for u in uses:
                    for pos in S.MIX_POS:
                        for rc in (0, 1):
                            for flags in (S.MIX_FLAGS if u in bool_uses or pos == "before" else ("TT", "FF")):
                                add(("mx", _T(u=u), prefix, pos, rc, flags))
            for prefix in ("bare", "explicit", "captured-obj", "in-func", "chain-or"):
                for b in binders:
                    for u in core:
                        for rc in (0, 1):
                            add(("mx", _T(b=b, u=u), prefix, "before", rc, "TT"))
                for w in wraps:
                    for u in uses:
                        add(("mx", _T(u=u, w=w), prefix, "before", 1, "TT"))
                for o, i in pl2:
                    for u in bool_uses:
                        add(("mx", _T(o=o, i=i, u=u), prefix, "before", 1, "FF"))

    # ---------------- clause (c)
    with _Slice("del: binder x scope x del form x use x wrapper"):
        for b in delb:
            add(("del", _T(b=b), "del"))
        if not thorough:
            for o in sc1:
                for dform in S.DEL_ORDER:
                    for b in delb:
                        if o == "" or b in fam_reps:
                            add(("del", _T(b=b, o=o), dform))
            for o in sc2:
                for b in delb:
                    if len(o) <= 1 or b in fam_reps:
                        add(("del", _T(b=b, o=o), "del"))
            for b in delb:
                for u in cmd_uses:
                    if b in fam_reps or u in core:
                        add(("del", _T(b=b, u=u), "del"))
            for w in stmt_wraps:
                for b in delb:
                    if b in fam_reps:
                        add(("del", _T(b=b, w=w), "del"))
        else:
            for o in sc2:
                for dform in S.DEL_ORDER:
                    for b in delb:
                        for u in ("sub-flag", "bare", "pipe"):
                            add(("del", _T(b=b, o=o, u=u), dform))
            for o in sc3:
                for b in delb:
                    for dform in S.DEL_ORDER:
                        add(("del", _T(b=b, o=o), dform))
            for o in sc1:
                for b in delb:
                    for u in cmd_uses:
                        add(("del", _T(b=b, o=o, u=u), "del"))
            for o in ("", "f"):
                for w in stmt_wraps:
                    for dform in ("del", "del-multi", "del-in-with"):
                        for b in delb:
                            add(("del", _T(b=b, o=o, w=w), dform))

    # ---------------- clause (d)
    with _Slice("atomic: program x broken tail x separator x position"):
        progs = [_T(b=b) for b in (binders if thorough else fam_reps)]
        if not thorough:
            progs += [_T(o=o, i=i) for o, i in pl2]
            progs += [_T(u=u) for u in uses]
            mid_progs = [_T(b=b) for b in fam_reps[:10]]
        else:
            progs += [_T(b=b, u="semi") for b in binders]
            progs += [_T(o=o, i=i, u=u) for o, i in pl3 for u in ("sub-flag", "semi")]
            progs += [_T(u=u) for u in uses]
            progs += [_T(u=u, w=w) for u in core for w in wraps]
            mid_progs = [p for p in progs if p[4] == "none"]
        progs = list(dict.fromkeys(progs))
        if thorough:
            semi_progs = progs
        else:
            semi_progs = [p for p in progs if p[0] in fam_reps]
            mid_progs = [p for p in mid_progs if p[0] in fam_reps]
        for tail in S.TAIL_ORDER:
            for p in progs:
                add(("at", p, tail, "nl", "end"))
        for tail in S.TAIL_ORDER:
            for p in semi_progs:
                add(("at", p, tail, "semi", "end"))
        for tail in S.TAIL_ORDER:
            for p in mid_progs:
                add(("at", p, tail, "nl", "mid"))
    # ---------------- clause (h): session histories
    with _Slice("hist: history (<=%d binding changes in builtins/globals/locals) x who makes each change (harness/input) x first input x use x focus x name" % (3 if thorough else 2)):
        hs2 = S.histories(2)
        hs3 = [h for h in S.histories(3) if len(h) == 3]

        def firsts(u):
            return ("W", "WC") if S.USES[u]["cmd"] else ("W",)

        # session names spelled like a builtin (bound by an EARLIER input / the harness), and the
        # $XONSH_BUILTINS_TO_CMD switch as a second configuration (first == "WS")
        for ev in (hs2 + hs3 if thorough else hs2):
            if any(e[1] == "B" for e in ev):
                continue
            for mode in S.hist_modes(len(ev), mixed=thorough):
                for u in uses:
                    for name in S.HIST_BUILTIN_NAMES + ("n",):
                        for first in ("W", "WS"):
                            if name == "n" and first == "W":
                                continue  # already above
                            add(("hi", (first, mode, ev, u, "head", name)))
                            if thorough or u in core:
                                add(("hi", (first, mode, ev, u, "arg", name)))

        for ev in (hs2 + hs3 if thorough else hs2):
            for mode in S.hist_modes(len(ev)):
                uniform = len(set(mode)) == 1
                for u in uses:
                    if not uniform and u not in core and (not thorough or len(ev) == 3):
                        continue  # who-made-the-change mixes: core uses (thorough: every use up to 2 events)
                    for first in firsts(u):
                        add(("hi", (first, mode, ev, u, "head", "n")))
                    if uniform and (thorough or u in core):
                        add(("hi", ("W", mode, ev, u, "arg", "n")))
        for ev in (hs2 + hs3 if thorough else hs2):
            if "+B" not in ev:
                continue
            for mode in S.hist_modes(len(ev), mixed=False):
                for u in (uses if thorough else core):
                    for first in firsts(u):
                        add(("hi", (first, mode, ev, u, "head", "_")))
    return items, slices


# ----------------------------------------------------------------------------- run / replay


def run(ctx):
    from . import tables

    tables.ensure_tables(completion=False)
    items, slices = enumerate_items(ctx.thorough)
    ctx.log(f"{len(items)} items: " + ", ".join(f"{k}={v}" for k, v in slices.items()))
    res = common.pmap(_check, items, ctx.jobs, chunk=64, init=_init_worker, seed=ctx.seed)
    counts = {}
    nontrivial = {"py": 0, "del": 0, "at": 0, "hi": 0, "mx": 0}
    reached = {"py": 0, "del": 0, "at": 0, "hi": 0, "mx": 0}
    accepted_tails = {}
    syntax_tails = {}
    viols = []
    for it, (st, nt, v) in zip(items, res):
        kind = it[0]
        counts[f"{kind}:{st}"] = counts.get(f"{kind}:{st}", 0) + 1
        if st in ("ok", "viol"):
            reached[kind] += 1
            if nt:
                nontrivial[kind] += 1
        if kind == "at":
            d = syntax_tails if st in ("ok", "viol") else accepted_tails if st == "accepted" else None
            if d is not None:
                d[it[2]] = d.get(it[2], 0) + 1
        if v is not None:
            viols.append(v)
    # one violation per (key): keep the count in the note of the first
    per_key = {}
    for v in viols:
        per_key.setdefault(v["key"], []).append(v)
    for key, vs in per_key.items():
        vs[0]["note"] = f"{len(vs)} enumerated programs minimise to this key"
        ctx.add_violations(vs)
    if not reached["py"] or not reached["del"] or not reached["hi"] or not reached["mx"] or not syntax_tails:
        known = {k.get("key") for k in common.load_known_findings() if k.get("property") == ctx.prop and k.get("status") == "open"}
        msg = f"a clause was never exercised: {reached} syntax-error tails={sorted(syntax_tails)}"
        if all(k in known for k in per_key):
            raise common.ToolError(msg)  # nothing new to report: the run itself is not trustworthy
        ctx.notes.append(msg + " (reported next to the new violations instead of a tool error)")
    # evidence samples: real programs, one per clause / interesting corner
    for c, extra in (
        (dict(b="assign"), None),
        (dict(b="param-kwonly", o="c", i="f", u="pipe"), None),
        (dict(b="for-tuple", o="f", u="and", w="try-body"), None),
        (dict(b="global-func", o="f", u="semi", mid="func-shadow-del"), None),
        (dict(b="from-import", u="attr-flag", f="arg", b2="def"), None),
        (dict(b="with", o="f", u="sub-flag"), ("del", "del")),
        (dict(b="assign", u="gt", o="c"), ("del", "del-multi")),
        (dict(b="assign", u="sub-flag"), ("at", "return-outside", "nl", "end")),
        (dict(b="def", u="bare"), ("at", "close-paren", "semi", "mid")),
        (None, ("hi", ("WC", "hh", ("+B", "-B"), "sub-flag", "head", "n"))),
        (None, ("hi", ("W", "ss", ("+L", "+B"), "and", "arg", "n"))),
        (None, ("hi", ("W", "sh", ("+G", "-G"), "pipe", "head", "n"))),
    ):
        if c is None:
            steps, sep = S.hist_steps(*extra[1])
            ctx.sample({"clause": "hist", "steps": steps, "separate_locals": sep, "result": _sample_status(items, res, extra)})
            continue
        t = S.coords_key(c)
        try:
            if extra is None:
                bt = S.build(c)
                ctx.sample({"clause": "py", "src": bt["src"], "session_globals": bt["globals"], "result": _sample_status(items, res, ("py", t))})
            elif extra[0] == "del":
                bt = S.build(c, del_form=extra[1])
                ctx.sample({"clause": "del", "src": bt["src"], "result": _sample_status(items, res, ("del", t, extra[1]))})
            else:
                bt = S.build(c)
                ctx.sample({"clause": "atomic", "src": atomic_src(bt["src"], extra[1], extra[2], extra[3]), "result": _sample_status(items, res, ("at", t, *extra[1:]))})
        except S.NotApplicable:
            pass
    drops = {k: v for k, v in sorted(counts.items()) if ":drop" in k or k.endswith(":na") or k.endswith(":accepted")}
    slow = counts.get("at:drop:slow-parse", 0)
    depth = 3 if ctx.thorough else 2
    ctx.coverage.update(
        evaluations=sum(reached.values()),
        distinct_nontrivial=sum(nontrivial.values()),
        rule=(
            f"every program of the product BINDERS({len(S.BINDER_ORDER)}) x USES({len(S.USE_ORDER)}) x PLACEMENTS (def/class nesting of binder "
            f"and use to total depth {depth}, {len(S.WRAP_ORDER)} statement wrappers, {len(S.MID_ORDER)} interludes, head/arg focus, binder pairs) in the slices "
            f"listed under `slices`, plus {len(S.DEL_ORDER)} del forms, {len(S.TAIL_ORDER)} broken tails x 2 separators x 2 positions and session histories "
            f"(every valid sequence of <= {3 if ctx.thorough else 2} add/remove events of the name in builtins / session globals / exec locals, made by the harness or by an input, "
            "use re-submitted after every event, after a non-trivial warm-up input and optionally a first use while still unbound); "
            "evaluations = distinct programs that reached an oracle comparison (CPython accepted and ran them without NameError; for atomic: "
            "xonsh raised SyntaxError); non-trivial = those whose CPython run logged at least one operation on an instrumented object "
            "(py), whose name CPython reports deleted at the use line (del), whose input raised SyntaxError (atomic), or histories with >= 2 judged inputs (hist)"
        ),
        exhaustive=slow == 0,
        caps_hit={"cpu_limit_s": CPU_LIMIT_S, "atomic_inputs_cut_by_cpu_limit": slow},
        items=len(items),
        slices=slices,
        reached_by_clause=reached,
        nontrivial_by_clause=nontrivial,
        outcome_counts=dict(sorted(counts.items())),
        dropped=drops,
        tails_raising_syntaxerror=dict(sorted(syntax_tails.items())),
        tails_accepted_as_commands=dict(sorted(accepted_tails.items())),
        bounds={"history_events": 3 if ctx.thorough else 2, "scope_depth": depth, "names_read": 3, "binders": len(S.BINDER_ORDER), "uses": len(S.USE_ORDER), "wrappers": len(S.WRAP_ORDER), "interludes": len(S.MID_ORDER), "del_forms": len(S.DEL_ORDER), "tails": len(S.TAIL_ORDER)},
        distinct_violation_keys=len(per_key),
    )
    ctx.assumptions += [
        "mode='exec' through Execer.exec(src, glbs, locs) with explicit namespaces (interactive mode='single' input is the same path with a different compile mode)",
        "$XONSH_BUILTINS_TO_CMD unset; fake executables named like every program name exist on $PATH, nothing is launched (xonsh.procs.specs.run_subproc is a recorder)",
        "programs on which CPython raises NameError/UnboundLocalError are outside the property's precondition and dropped (counted)",
        "constructs the context-free xonsh parser parses differently from CPython are C01's business and dropped (counted); bare-vs-explicit differences without bindings are C03's",
        "binder kinds `match` and comprehension variables come from the design guidance, the statement text names assignment/import/def/class/for/with/except/walrus/global/parameter",
    ]


def _sample_status(items, res, item):
    try:
        return res[items.index(item)][0]
    except ValueError:
        return "not in this tier"


def replay(rec):
    from . import tables

    tables.ensure_tables(completion=False)
    _init_worker()
    case = rec["case"]
    print("key     :", rec.get("key"))
    if case["clause"] == "hist":
        print("history : one session, separate locals mapping:", case["separate_locals"])
        for k, st in enumerate(case["steps"]):
            if st[0] == "src":
                print(f"  [{k}] input (expected reading: {st[2]}): {st[1]!r}")
            else:
                print(f"  [{k}] harness: {st[0]} {st[2]!r} in {dict(B='builtins', G='session globals', L='exec locals')[st[1]]}")
        sess = None
    else:
        sess = {"globals": case["globals"], "locals": case["locals"], "static_bound": case.get("static_bound", False), "use_line": case.get("use_line")}
        print("source  :")
        for ln in case["src"].splitlines():
            print("    " + ln)
        print("session : globals", sess["globals"], "locals", sess["locals"], "(+ mk, XE, XC, ident, q, xs, xt)")
    if case["clause"] == "hist":
        r = eval_hist_steps(case["steps"], case["separate_locals"])
    elif case["clause"] == "py":
        r = eval_py_src(case["src"], sess)
    elif case["clause"] == "mixed":
        print(f"commands: prefix {case['prefix']!r} placed {case['pos']}, every command ends with return code {case['rc']}, $XONSH_SUBPROC_RAISE_ERROR/$XONSH_SUBPROC_CMD_RAISE_ERROR = {case['flags']}")
        r = eval_mixed_src(case["python_src"], sess, case["prefix"], case["pos"], case["rc"], case["flags"])
    elif case["clause"] == "del":
        print("explicit:")
        for ln in case["explicit_src"].splitlines():
            print("    " + ln)
        r = eval_del_src(case["src"], case["explicit_src"], sess, case["use_line"], case.get("argv"))
    else:
        r = eval_atomic_src(case["src"], sess)
    print("status  :", r["status"], r.get("sig", ""))
    if r["status"] == "viol":
        print("observed:", common.jdump(r["observed"]))
        print("expected:", common.jdump(r["expected"]))
        return 1
    return 0
