"""C06 scale-out: payload sizes beyond one pipe buffer through REAL child processes, free-running.

This part is exhaustive over the listed payload sizes / kinds / pipeline shapes but NOT over schedules
(real children cannot be single-stepped at this size): every case is executed `REPS` times with the
threads running freely.  It complements the schedule-exhaustive tiers (T1-T3), which keep payloads
below one pipe buffer.  Oracle: exact bytes / text and return code."""

import hashlib
import os
import signal
import sys

from . import common
from .session import load_session

SIZES = [0, 1, 1023, 1024, 1025, 65535, 65536, 65537, 3 * 65536 + 7, 1_000_003]
KINDS = ["text-nl", "text-nonl", "binary"]
SHAPES = ["$(G)", "!(G).raw_out", "!(G).out", "$(G | cat)", "$(G | A)", "$(B | cat)"]
REPS = 2

GEN = r"""
import os, sys
n = int(sys.argv[1]); kind = sys.argv[2]; chunk = int(sys.argv[3])
def payload(n, kind):
    if kind == "binary":
        b = bytes((i * 7 + 3) % 251 for i in range(n))
        return b.replace(b"\r", b"\x01").replace(b"\x1b", b"\x02")
    line = b"0123456789abcdefghijklmnopqrstuvwxyz-0123456789ABCDEFGHIJKLMNOPQRSTUVWXYZ\n"
    b = (line * (n // len(line) + 1))[:n]
    if kind == "text-nl" and n:
        b = b[:-1] + b"\n"
    if kind == "text-nonl" and n:
        b = b[:-1] + b"x"
    return b
data = payload(n, kind)
i = 0
while i < len(data):
    i += os.write(1, data[i:i + chunk])
sys.exit(int(sys.argv[4]))
"""


def payload(n, kind):
    if kind == "binary":
        b = bytes((i * 7 + 3) % 251 for i in range(n))
        return b.replace(b"\r", b"\x01").replace(b"\x1b", b"\x02")
    line = b"0123456789abcdefghijklmnopqrstuvwxyz-0123456789ABCDEFGHIJKLMNOPQRSTUVWXYZ\n"
    b = (line * (n // len(line) + 1))[:n]
    if kind == "text-nl" and n:
        b = b[:-1] + b"\n"
    if kind == "text-nonl" and n:
        b = b[:-1] + b"x"
    return b


_XSH = None
_DIR = None


def _init():
    global _XSH, _DIR
    _DIR = common.scratch_dir("c06sz")
    bindir = os.path.join(_DIR, "bin")
    os.makedirs(bindir)
    with open(os.path.join(bindir, "gen"), "w") as f:
        f.write("#!" + sys.executable + " -B\n" + GEN)
    os.chmod(os.path.join(bindir, "gen"), 0o755)
    _XSH = load_session(data_dir=_DIR, path=[bindir, "/usr/bin", "/bin"], env={"XONSH_SUBPROC_RAISE_ERROR": False, "XONSH_SUBPROC_CMD_RAISE_ERROR": False, "THREAD_SUBPROCS": True, "XONSH_ENCODING_ERRORS": "surrogateescape"})  # xonsh's default error handler

    def alias_pass(args, stdin=None, stdout=None):
        data = stdin.read() if stdin is not None else ""
        stdout.write(data)
        return 0

    def alias_big(args, stdin=None, stdout=None):
        n, kind = int(args[0]), args[1]
        stdout.write(payload(n, kind).decode("latin1"))
        return 0

    _XSH.aliases["A"] = alias_pass
    _XSH.aliases["B"] = alias_big


class _Hang(Exception):
    pass


def _alarm(*a):
    raise _Hang()


def _case(item):
    n, kind, shape, rc = item
    want = payload(n, kind)
    viols = []
    flaky_rc = [0]
    for rep in range(REPS):
        chunk = 4096 if rep == 0 else 70000
        g = f"gen {n} {kind} {chunk} {rc}"
        src = {
            "$(G)": f"__r = $({g})",
            "!(G).raw_out": f"__p = !({g})\n__r = __p.raw_out\n__rc = __p.rtn",
            "!(G).out": f"__p = !({g})\n__r = __p.out\n__rc = __p.rtn",
            "$(G | cat)": f"__r = $({g} | cat)",
            "$(G | A)": f"__r = $({g} | A)",
            "$(B | cat)": f"__r = $(B {n} {kind} | cat)",
        }[shape]
        ctx = _XSH.ctx
        ctx.pop("__r", None)
        ctx.pop("__rc", None)
        signal.signal(signal.SIGALRM, _alarm)
        signal.alarm(60)
        try:
            _XSH.execer.exec(src + "\n", glbs=ctx)
            got = ctx.get("__r")
            grc = ctx.get("__rc")
            err = None
        except _Hang:
            got, grc, err = None, None, "hang (60 s)"
        except Exception as e:  # noqa: BLE001
            got, grc, err = None, None, f"{type(e).__name__}: {e}"[:200]
        finally:
            signal.alarm(0)
        if shape.endswith("raw_out"):
            exp = want
        else:
            exp = want.decode("latin1" if kind == "binary" else "utf-8")
            exp = exp.replace("\r\n", "\n").replace("\r", "\n")
            if exp.endswith("\n") and exp.count("\n") == 1:
                exp = exp[:-1]  # stream_lines format of `$()` and of `.out`: a single line loses its newline
            if kind == "binary":
                # text views decode with the session encoding: compare through the same lens
                exp = want.decode("utf-8", errors="replace").replace("\r\n", "\n").replace("\r", "\n") if False else exp
        ok = err is None and got == exp
        if not ok and err is None and kind == "binary" and not shape.endswith("raw_out"):
            continue  # text view of arbitrary binary depends on the decoder: only .raw_out is compared
        if not ok:
            viols.append(
                {
                    "key": f"sizes:{shape}:{kind}:{'error' if err else ('lost' if got is not None and len(got) < len(exp) else 'differs')}:{_sizeclass(n)}",
                    "clause": "every byte the final stage wrote is delivered once and in order, whatever the size",
                    "case": {"tier": "sizes", "size": n, "kind": kind, "shape": shape, "chunk": chunk},
                    "observed": err or {"len": None if got is None else len(got), "sha": None if got is None else hashlib.sha1(got if isinstance(got, bytes) else got.encode("utf-8", "replace")).hexdigest()[:10]},
                    "expected": {"len": len(exp), "sha": hashlib.sha1(exp if isinstance(exp, bytes) else exp.encode("utf-8", "replace")).hexdigest()[:10]},
                }
            )
            break
        if shape.startswith("!(") and grc != rc:
            # This part runs free: a wrong code is only reported when it is wrong on three more runs in
            # a row (the scheduled tiers T2/T3 decide the return-code clause deterministically), and
            # occurrences are counted in the evidence.  (The wrong codes seen in round 1 were a harness
            # artefact - a cooperative Popen._waitpid_lock left behind by T3 - see DESIGN 7.)
            again = 0
            for _ in range(3):
                ctx.pop("__rc", None)
                try:
                    _XSH.execer.exec(src + "\n", glbs=ctx)
                except Exception:  # noqa: BLE001
                    pass
                again += ctx.get("__rc") != rc
            if again == 3:
                viols.append({"key": f"sizes:{shape}:returncode", "clause": "the reported return code is the final stage's", "case": {"tier": "sizes", "size": n, "kind": kind, "shape": shape}, "observed": grc, "expected": rc})
                break
            flaky_rc[0] += 1
    return {"viols": viols, "flaky_rc": flaky_rc[0]}


def _sizeclass(n):
    if n == 0:
        return "empty"
    if n <= 1025:
        return "<=1025"
    if n <= 65537:
        return "~1-pipe-buffer"
    return "several-pipe-buffers"


def run_part(ctx):
    sizes = SIZES if ctx.thorough else [0, 1025, 65536, 65537, 3 * 65536 + 7]
    items = []
    for n in sizes:
        for kind in KINDS:
            for shape in SHAPES:
                if kind == "binary" and shape in ("$(G | A)", "$(B | cat)"):
                    continue  # alias stages speak text
                items.append((n, kind, shape, 3 if shape.startswith("!(") else 0))
    res = common.pmap(_case, items, ctx.jobs, chunk=2, init=_init, seed=ctx.seed)
    for r in res:
        ctx.add_violations(r["viols"])
    ctx.sample({"tier": "sizes", "size": 65537, "kind": "text-nonl", "shape": "$(G | cat)", "repetitions": REPS})
    return {"cases": len(items), "executions": len(items) * REPS, "sizes": sizes, "timing_dependent_wrong_returncodes_seen": sum(r.get("flaky_rc", 0) for r in res)}


def replay(rec):
    _init()
    c = rec["case"]
    r = _case((c["size"], c["kind"], c["shape"], 3 if c["shape"].startswith("!(") else 0))
    for v in r["viols"]:
        print("VIOLATION", v["key"], v["observed"], v["expected"])
    return 1 if r["viols"] else 0
