"""Shared plumbing for every check: run context, violation artefacts, known-findings
matching, evidence writing, deterministic parallel map and scratch hygiene."""

from __future__ import annotations

import atexit
import hashlib
import json
import os
import shutil
import sys
import time
import traceback

VERIF = os.path.dirname(os.path.dirname(os.path.abspath(__file__)))
REPO = os.environ.get("XV_REPO", "/repo")
BUILD = os.path.join(VERIF, ".build")
# runs against a scratch worktree (XV_REPO=...) must not overwrite the artefacts / evidence of /repo
ARTROOT = VERIF if REPO == "/repo" else os.path.join(BUILD, "alt", hashlib.sha256(REPO.encode()).hexdigest()[:10])
LEVELS = {
    "exploration",
    "fault_enumeration",
    "model_checking",
    "proof",
    "translation_validation",
    "other",
}

_scratch_root = None


def scratch_root() -> str:
    """Per-process-tree scratch directory on /dev/shm, removed at exit of the creator."""
    global _scratch_root
    if _scratch_root is None:
        base = "/dev/shm" if os.path.isdir("/dev/shm") else os.path.join(VERIF, ".build")
        path = os.path.join(base, f"xverif.{os.getpid()}")
        os.makedirs(path, exist_ok=True)
        _scratch_root = path
        owner = os.getpid()

        def _cleanup():
            if os.getpid() == owner:
                shutil.rmtree(path, ignore_errors=True)

        atexit.register(_cleanup)
    return _scratch_root


_scratch_n = 0


def scratch_dir(prefix="d") -> str:
    global _scratch_n
    _scratch_n += 1
    path = os.path.join(scratch_root(), f"{prefix}.{os.getpid()}.{_scratch_n}")
    os.makedirs(path, exist_ok=True)
    return path


def jdump(obj) -> str:
    return json.dumps(obj, sort_keys=True, ensure_ascii=True, default=repr)


def short_hash(obj) -> str:
    return hashlib.sha256(jdump(obj).encode()).hexdigest()[:12]


class Violation:
    __slots__ = ("key", "clause", "case", "observed", "expected", "note")

    def __init__(self, key, clause, case, observed=None, expected=None, note=""):
        self.key = key
        self.clause = clause
        self.case = case
        self.observed = observed
        self.expected = expected
        self.note = note

    def to_json(self):
        return {
            "key": self.key,
            "clause": self.clause,
            "case": self.case,
            "observed": self.observed,
            "expected": self.expected,
            "note": self.note,
        }

    @classmethod
    def from_json(cls, d):
        return cls(d["key"], d["clause"], d["case"], d.get("observed"), d.get("expected"), d.get("note", ""))


class ToolError(Exception):
    """The machinery itself misbehaved (nondeterministic replay, cap hit, harness bug)."""


class Ctx:
    """Run context handed to each check's run()."""

    def __init__(self, prop, tier, seed, jobs, level):
        assert level in LEVELS
        self.prop = prop
        self.tier = tier
        self.seed = seed
        self.jobs = jobs
        self.level = level
        self.t0 = time.time()
        self.violations: list[Violation] = []
        self.coverage: dict = {}
        self.assumptions: list[str] = []
        self.notes: list[str] = []
        self.samples: list = []
        self._sample_cap = 12

    @property
    def thorough(self):
        return self.tier == "thorough"

    def pick(self, quick, thorough):
        return thorough if self.thorough else quick

    def violation(self, key, clause, case, observed=None, expected=None, note=""):
        self.violations.append(Violation(key, clause, case, observed, expected, note))

    def add_violations(self, vs):
        for v in vs:
            if isinstance(v, dict):
                v = Violation.from_json(v)
            self.violations.append(v)

    def sample(self, case):
        """Keep a deterministic, seed-rotated handful of explored cases for the evidence."""
        if len(self.samples) < self._sample_cap:
            self.samples.append(case)

    def log(self, msg):
        print(f"[{self.prop} {time.time() - self.t0:6.1f}s] {msg}", flush=True)


def load_known_findings():
    path = os.path.join(VERIF, "known_findings.json")
    if not os.path.exists(path):
        return []
    with open(path) as f:
        return json.load(f)


def finish(ctx: Ctx) -> int:
    """Match violations against the committed known-findings file, write artefacts and
    evidence, print the interface lines and return the exit status."""
    known = [k for k in load_known_findings() if k.get("property") == ctx.prop and k.get("status") == "open"]
    known_by_key = {k["key"]: k for k in known}
    matched: dict[str, int] = {}
    fresh: list[Violation] = []
    for v in ctx.violations:
        if v.key in known_by_key:
            matched[v.key] = matched.get(v.key, 0) + 1
        else:
            fresh.append(v)
    for key, n in sorted(matched.items()):
        k = known_by_key[key]
        print(f"KNOWN-FINDING: property={ctx.prop} {k['what']} [key={key}; {n} case(s) this run]")
    outdir = os.path.join(ARTROOT, "out", ctx.prop)
    if fresh:
        shutil.rmtree(outdir, ignore_errors=True)
        os.makedirs(outdir, exist_ok=True)
    # one artefact per distinct key (first = smallest, enumeration is simplest-first)
    seen_keys = {}
    for v in fresh:
        seen_keys.setdefault(v.key, []).append(v)
    n_print = 0
    for i, (key, vs) in enumerate(seen_keys.items()):  # discovery order = simplest first
        path = os.path.join(outdir, f"{i:04d}.json")
        rec = vs[0].to_json()
        rec["property"] = ctx.prop
        rec["same_key_cases"] = len(vs)
        with open(path, "w") as f:
            json.dump(rec, f, indent=1, sort_keys=True, default=repr)
        if n_print < 40:
            print(f"VIOLATION property={ctx.prop} replay={path}  # {vs[0].clause}: {key} ({len(vs)} case(s))")
            n_print += 1
    if len(seen_keys) > n_print:
        print(f"... {len(seen_keys) - n_print} further distinct violation keys written under {outdir}")
    cov = dict(ctx.coverage)
    cov.setdefault("samples", ctx.samples[: ctx._sample_cap] or ["<none>"])
    cov["known_findings_matched"] = sorted(matched)
    ev = {
        "property_id": ctx.prop,
        "tier": ctx.tier,
        "seed": ctx.seed,
        "level": ctx.level,
        "coverage": cov,
        "assumptions": ctx.assumptions,
        "wall_s": round(time.time() - ctx.t0, 2),
        "violations": len(seen_keys),
        "known_finding_cases": sum(matched.values()),
        "notes": ctx.notes,
    }
    os.makedirs(os.path.join(ARTROOT, "evidence"), exist_ok=True)
    tmp = os.path.join(ARTROOT, "evidence", f".{ctx.prop}.json.{os.getpid()}")
    with open(tmp, "w") as f:
        json.dump(ev, f, indent=1, sort_keys=True, default=repr)
        f.write("\n")
    os.replace(tmp, os.path.join(ARTROOT, "evidence", f"{ctx.prop}.json"))
    summary = {k: v for k, v in cov.items() if isinstance(v, (int, float, bool, str)) and k not in ("rule", "explanation")}
    print(f"[{ctx.prop}] tier={ctx.tier} seed={ctx.seed} wall={ev['wall_s']}s violations={len(seen_keys)} known={len(matched)} coverage={jdump(summary)}")
    return 1 if fresh else 0


# ---------------------------------------------------------------------------
# deterministic parallel map.  Plain os.fork from the main thread (multiprocessing.Pool forks from
# helper threads and dead-locked at exit when stdout was a pipe); static round-robin sharding, so
# which worker handles which item is a function of the index only; results come back through
# pickle files on /dev/shm.

import pickle

_pmap_n = 0


def _run_shard(fn, init, chunks, path):
    global _scratch_root
    _scratch_root = None
    try:
        if init is not None:
            init()
        out = []
        for idx, items in chunks:
            res = []
            for it in items:
                try:
                    res.append(fn(it))
                except ToolError:
                    raise
                except BaseException as e:  # noqa: BLE001 - a harness crash must not be silent
                    raise ToolError(f"worker crashed on item {it!r}: {type(e).__name__}: {e}\n{traceback.format_exc()}") from None
            out.append((idx, res))
        with open(path, "wb") as f:
            pickle.dump(("ok", out), f)
    except BaseException as e:  # noqa: BLE001
        with open(path, "wb") as f:
            pickle.dump(("err", f"{type(e).__name__}: {e}\n{traceback.format_exc()}"), f)


def pmap(fn, items, jobs, chunk=32, init=None, seed=0):
    """Apply fn to every item; results come back in item order whatever the dispatch order.
    `seed` only rotates which worker gets which chunk (coverage is independent of it)."""
    global _pmap_n
    items = list(items)
    if not items:
        return []
    chunks = [(i, items[i : i + chunk]) for i in range(0, len(items), chunk)]
    nproc = max(1, min(jobs, len(chunks)))
    results = {}
    if nproc == 1:
        if init is not None:
            init()
        for idx, its in chunks:
            results[idx] = [fn(it) for it in its]
    else:
        _pmap_n += 1
        root = scratch_root()
        sys.stdout.flush()
        sys.stderr.flush()
        pids = []
        for r in range(nproc):
            mine = [c for k, c in enumerate(chunks) if (k + seed) % nproc == r]
            path = os.path.join(root, f"pmap.{_pmap_n}.{r}.pkl")
            pid = os.fork()
            if pid == 0:
                code = 0
                try:
                    _run_shard(fn, init, mine, path)
                    sys.stdout.flush()
                    sys.stderr.flush()
                except BaseException:  # noqa: BLE001
                    code = 3
                finally:
                    os._exit(code)
            pids.append((pid, path))
        errors = []
        for pid, path in pids:
            _, status = os.waitpid(pid, 0)
            if not os.path.exists(path):
                errors.append(f"worker {pid} died without result (status {status})")
                continue
            with open(path, "rb") as f:
                kind, payload = pickle.load(f)
            os.unlink(path)
            if kind == "err":
                errors.append(payload)
            else:
                for idx, res in payload:
                    results[idx] = res
        if errors:
            raise ToolError("worker failure:\n" + "\n".join(errors[:3]))
    flat = []
    for i in sorted(results):
        flat.extend(results[i])
    return flat


def cleanup_worker_scratch():
    """Remove scratch roots of dead worker processes (called by the CLI at exit)."""
    base = "/dev/shm"
    if not os.path.isdir(base):
        return
    for name in os.listdir(base):
        if name.startswith("xverif."):
            try:
                pid = int(name.split(".")[1])
            except ValueError:
                continue
            if not os.path.exists(f"/proc/{pid}"):
                shutil.rmtree(os.path.join(base, name), ignore_errors=True)


def rotate(seq, seed):
    seq = list(seq)
    if not seq:
        return seq
    r = seed % len(seq)
    return seq[r:] + seq[:r]


def pick_samples(cases, seed, n=8):
    cases = list(cases)
    if len(cases) <= n:
        return cases
    step = max(1, len(cases) // n)
    off = seed % step
    return [cases[(off + i * step) % len(cases)] for i in range(n)]
