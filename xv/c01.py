"""C01 - every valid Python program parses to CPython's syntax tree.

Bounded-exhaustive exploration of the real xonsh parser (`xonsh.parser.Parser().parse`, PLY tables
regenerated from the working tree) against the running interpreter's own parser:

  abstract layer  every typed syntax tree under a deviation budget, built from the ASDL signatures
                  in `ast.<Node>.__doc__` (xv/c01_gen.py), rendered with `ast.unparse`;
  concrete layer  every instance of every rule of a catalogue of text respellings (xv/c01_rw.py):
                  spacing, parentheses, trailing commas, string / number spellings, statement layout;
  sequence layer  every ordered pair (thorough: triple) of lexically stateful statements as one
                  program (xv/c01_seq.py);
  alternation     for every repetition construct of CPython's grammar (comprehension clauses, elif /
  layer           handlers / with-items / cases / decorators, operator chains, trailers, argument,
                  parameter, subscript, target, import, type-parameter lists, string and f-string
                  parts, `;` lines, block nesting) EVERY sequence over the construct's element alphabet
                  up to length 3 (thorough 4), names pairwise different (xv/c01_alt.py) - the merge
                  step of a right-recursive rule goes wrong for particular alternation patterns
                  (`for..if..if..for`) that a deviation budget never builds;
  domain filter   a text is an input iff `ast.parse(text, mode=m)` accepts it, and CPython's tree of
                  *that text* is the expected tree (no generator or rule is trusted);
  modes           exec for every text; eval for expression programs (canonical texts and the full rewrite
                  class); single for one-statement canonical texts.

Oracle (from the statement): xonsh accepts the text, its tree equals CPython's after removing only
compiler-invisible differences, and compile() of xonsh's tree succeeds whenever compile() of
CPython's tree does.

Does NOT require (never flagged):
  * equal lineno/col_offset/end_* values (only that compile() accepts xonsh's locations);
  * equal `Constant.kind`, `type_comment`, `Module.type_ignores` (the compiler never reads them;
    CPython fills type comments only on request);
  * a field that is absent on one side and None / [] on the other (ast.AST treats them alike);
  * how the literal text of an f-string is cut into Constant pieces (adjacent pieces are concatenated
    by the compiler, empty pieces contribute nothing);
  * any behaviour for texts CPython rejects, or for xonsh-only syntax;
  * a particular result object for an empty program: Parser.parse returns None, which Execer
    compiles as an empty module, so None is read as a module with an empty body;
  * a final newline handling of Parser.parse itself: the parser is driven the way every xonsh entry
    point (Execer.parse/eval/exec, script loading) drives it - exec/single text gets a final "\\n" if
    it has none, eval text has trailing newlines stripped.

Classification.  Every failing input is minimised deterministically (xv/c01_min.py: replace sub-trees
of CPython's own derivation of the text by the simplest alternative, hoist children, delete token /
line windows, simplify literals, operators and layout - always keeping CPython acceptance and the
failure).  key = "<signature> @ <minimised text>" ("[eval] "/"[single] " before the text when the
failure does not occur in exec mode) where the signature is
  reject:<class of the parser's message, e.g. code:= / code:NAME / unexpected newline>,
  ast-diff:<Node.field> where the trees first part (":len" for a list of different length),
  compile-fail:<class of compile()'s message>, crash:<exception type> or hang.
Identifier differences that vanish when the *input text* is NFKC-normalised are attributed to one key
(repair transform).  Many inputs share one key; a failing input whose minimised form differs from
every listed known finding is a new violation."""

from __future__ import annotations

import ast
import hashlib
import json
import keyword
import os
import re
import signal
import time
import unicodedata
import warnings

from . import common
from . import c01_gen as gen
from . import c01_rw as rw
from . import c01_min as cmin
from . import c01_seq as cseq
from . import c01_alt as calt

LEVEL = "exploration"

# ----------------------------------------------------------------------------- the two parsers

_PARSER = None


def _parser(fresh=False):
    global _PARSER
    if _PARSER is None or fresh:
        from xonsh.parser import Parser

        _PARSER = Parser()
    return _PARSER


class _Timeout(Exception):
    pass


def _alarm(signum, frame):
    raise _Timeout()


def feed_text(text, mode):
    """What xonsh's own entry points hand to Parser.parse for this source text."""
    if mode == "eval":
        return text.rstrip("\n")
    return text if text.endswith("\n") else text + "\n"


def cpython_parse(text, mode):
    """CPython's tree, or None when the text is not a program of the running interpreter."""
    try:
        return ast.parse(text, "<c01>", mode)
    except (SyntaxError, ValueError, OverflowError, RecursionError, MemoryError):
        return None


def xonsh_parse(text, mode):
    """-> ('ok', tree) | ('reject', msgclass) | ('crash', exc type) | ('hang', '')."""
    p = _parser()
    signal.signal(signal.SIGPROF, _alarm)  # CPU-time budget: independent of how loaded the machine is
    signal.setitimer(signal.ITIMER_PROF, 20.0)
    try:
        tree = p.parse(feed_text(text, mode), filename="<c01>", mode=mode)
        return "ok", tree
    except _Timeout:
        _parser(fresh=True)
        return "hang", "no result within 20 s of CPU time"
    except SyntaxError as e:
        return "reject", _msg_class(e)
    except RecursionError:
        _parser(fresh=True)
        return "crash", "RecursionError"
    except Exception as e:  # noqa: BLE001 - any other exception escaping the parser is a failure too
        _parser(fresh=True)
        return "crash", type(e).__name__
    finally:
        signal.setitimer(signal.ITIMER_PROF, 0)


_NUM = re.compile(r"\d+")


def _msg_class(e):
    """Stable class of a xonsh SyntaxError: the offending token kind, not its text or position."""
    msg = getattr(e, "msg", None) or (e.args[0] if e.args else "") or ""
    msg = str(msg)
    m = re.search(r"code: (.*)$", msg.split("\n")[0])
    if m:
        tok = m.group(1).strip()
        if keyword.iskeyword(tok):
            return "code:" + tok
        if re.fullmatch(r"[^\W\d]\w*", tok):
            return "code:NAME"
        if re.fullmatch(r"[\d.][\w.+-]*", tok):
            return "code:NUMBER"
        if tok[:1] in "'\"" or re.match(r"[A-Za-z]{1,3}['\"]", tok):
            return "code:STRING"
        if len(tok) > 3:
            return "code:OTHER"
        return "code:" + tok
    first = msg.split("\n")[0]
    first = re.sub(r"^<c01>:\d+:\d+: ", "", first)
    first = re.sub(r"['\"].*?['\"]", "Q", first)
    first = _NUM.sub("N", first)
    first = re.sub(r"[^\x00-\x7f]+", "U", first)  # the offending non-ASCII text itself is not part of the class
    return (type(e).__name__ + ":" if type(e) is not SyntaxError else "") + first[:60]


# ----------------------------------------------------------------------------- tree comparison

_IGNORED = {"kind", "type_comment", "type_ignores"}
_ALIAS = {"Expression.body": "Expr.value", "Interactive.body": "Module.body"}


def _leaf(x):
    if x is None or isinstance(x, bool) or (isinstance(x, int) and -10 < x < 10):
        return repr(x)
    return type(x).__name__


def _fparts(values):
    """Literal parts of an f-string as the compiler sees them: adjacent string constants are
    concatenated and empty ones contribute nothing (CPython appends Constant('') to a nested format
    spec, xonsh keeps '' pieces of implicit concatenations; the built string is the same)."""
    if not isinstance(values, list):
        return values
    out = []
    for v in values:
        if isinstance(v, ast.Constant) and isinstance(v.value, str):
            if v.value == "":
                continue
            if out and isinstance(out[-1], ast.Constant) and isinstance(out[-1].value, str):
                out[-1] = ast.Constant(value=out[-1].value + v.value)
                continue
        out.append(v)
    return out


def first_diff(g, e, where="root"):
    """First structural difference between xonsh's tree g and CPython's tree e (None if equal):
    (signature detail, human detail).  The signature names only the field where the trees part."""
    where = _ALIAS.get(where, where)
    if isinstance(e, ast.AST):
        if not isinstance(g, ast.AST):
            return where, f"{where}: {_leaf(g)} != {type(e).__name__}"
        if type(g) is not type(e):
            return where, f"{where}: {type(g).__name__} != {type(e).__name__}"
        cname = type(e).__name__
        for f in e._fields:
            if f in _IGNORED:
                continue
            gv, ev = getattr(g, f, None), getattr(e, f, None)
            if cname == "JoinedStr" and f == "values":
                gv, ev = _fparts(gv), _fparts(ev)
            if ev is None or ev == []:
                if gv is None or gv == []:
                    continue  # absent / None / empty are the same to the compiler
            d = first_diff(gv, ev, f"{cname}.{f}")
            if d:
                return d
        return None
    if isinstance(e, list):
        if not isinstance(g, list):
            return where, f"{where}: {_leaf(g)} != list"
        if len(g) != len(e):
            return where + ":len", f"{where}: {len(g)} element(s) != {len(e)}"
        for gi, ei in zip(g, e):
            d = first_diff(gi, ei, where)
            if d:
                return d
        return None
    if isinstance(g, (ast.AST, list)):
        return where, f"{where}: {type(g).__name__} != {_leaf(e)}"
    if type(g) is not type(e) or repr(g) != repr(e):
        if isinstance(g, str) and isinstance(e, str) and unicodedata.normalize("NFKC", g) == e:
            return "identifier-nfkc", f"{where}: {g!r} != {e!r} (not NFKC-normalised)"
        return where, f"{where}: {g!r} != {e!r}"
    return None


def _compile_class(exc):
    msg = str(exc.args[0]) if exc.args else ""
    msg = re.sub(r"['\"].*?['\"]", "Q", msg)
    msg = _NUM.sub("N", msg)
    return f"{type(exc).__name__}:{msg[:70]}"


def _empty(mode):
    return {"exec": ast.Module(body=[], type_ignores=[]), "single": ast.Interactive(body=[]), "eval": None}[mode]


_EVAL_CACHE = {}


def evaluate(text, mode):
    """-> None (not a CPython program) | 'ok' | failure signature string."""
    key = (mode, text)
    r = _EVAL_CACHE.get(key, 0)
    if r != 0:
        return r
    r = _evaluate(text, mode)
    if len(_EVAL_CACHE) > 400000:
        _EVAL_CACHE.clear()
    _EVAL_CACHE[key] = r
    return r


def _evaluate(text, mode):
    exp = cpython_parse(text, mode)
    if exp is None:
        return None
    kind, got = xonsh_parse(text, mode)
    if kind != "ok":
        return f"{kind}:{got}"
    if got is None:
        got = _empty(mode)
    d = first_diff(got, exp)
    if d:
        return "ast-diff:" + d[0]
    try:
        compile(exp, "<c01>", mode, dont_inherit=True)
    except Exception:  # noqa: BLE001 - CPython itself does not compile it: nothing to require
        return "ok"
    try:
        compile(got, "<c01>", mode, dont_inherit=True)
    except Exception as e:  # noqa: BLE001
        return "compile-fail:" + _compile_class(e)
    return "ok"


def describe(text, mode):
    """Human-readable observed/expected for replay and artefacts."""
    exp = cpython_parse(text, mode)
    if exp is None:
        return "n/a", "CPython rejects this text (not an input)"
    kind, got = xonsh_parse(text, mode)
    if kind != "ok":
        return f"xonsh parser: {kind} ({got})", ast.dump(exp)
    if got is None:
        got = _empty(mode)
    obs = ast.dump(got)
    d = first_diff(got, exp)
    if d:
        obs = f"[first difference: {d[1]}]  " + obs
    try:
        compile(exp, "<c01>", mode, dont_inherit=True)
        try:
            compile(got, "<c01>", mode, dont_inherit=True)
        except Exception as e:  # noqa: BLE001
            obs += f"  [compile() of xonsh's tree: {type(e).__name__}: {e}]"
    except Exception:  # noqa: BLE001
        pass
    return obs, ast.dump(exp)


# ----------------------------------------------------------------------------- classification

_MIN = None


def _minimiser():
    global _MIN
    if _MIN is None:
        _MIN = cmin.Minimiser(evaluate)
    return _MIN


NFKC_SIG = "ast-diff:identifier-nfkc"


def classify(text, mode, sig):
    """-> (key, minimal text, mode of the minimal text, signature of the minimal text)."""
    m = mode
    if mode != "exec" and evaluate(text, "exec") == sig:
        m = "exec"  # not mode specific: classify along the exec derivation so all modes share the key
    if sig == NFKC_SIG:
        # repair transform: the failure is attributed to "identifiers are not NFKC-normalised" only if
        # normalising exactly that in the input makes the input pass
        fixed = unicodedata.normalize("NFKC", text)
        if fixed != text and evaluate(fixed, m) == "ok":
            mt = "\uff58"
            if evaluate(mt, m) == sig:
                return f"{sig} @ {json.dumps(mt, ensure_ascii=True)}", mt, m, sig
    mt, msig = _minimiser().minimise(text, m, sig)
    shown = mt.rstrip("\n") if mt.rstrip("\n") else mt
    tag = "" if m == "exec" else f"[{m}] "
    return f"{msig} @ {tag}{json.dumps(shown, ensure_ascii=True)}", mt, m, msig


# ----------------------------------------------------------------------------- exploration

def _digest(mode, text):
    return hashlib.blake2b((mode[0] + text).encode("utf-8", "surrogatepass"), digest_size=8).digest()


def _init_worker():
    warnings.simplefilter("ignore")
    _parser(fresh=True)


def _gen_root(item):
    """Stage 1: all canonical texts of one root form under one budget."""
    root, bud, red, maxlen = item
    en = gen.Enumerator(maxlen=maxlen)
    out = {}
    raw = 0
    for text, is_expr, cost in en.root_programs(root, bud, red):
        raw += 1
        text += "\n"
        if text not in out:
            out[text] = (is_expr, cost)
    return raw, [(t, e, c) for t, (e, c) in out.items()]


def _explore(item):
    """Stage 2: one canonical program: itself plus every rewrite instance its class is entitled to.
    item = (text, klass): klass 'pairs' > 'full' > 'light' (see _plan)."""
    text, klass = item
    t0 = time.perf_counter()
    stats = {"candidates": 0, "accepted": 0, "evals": 0, "fail_inputs": 0}
    digests = []
    fails = {}
    seen = set()

    def consider(t, rule, all_modes):
        stats["candidates"] += 1
        if t in seen:
            return False
        seen.add(t)
        tree = cpython_parse(t, "exec")
        if tree is None:
            return False
        modes = ["exec"]
        if all_modes >= 1 and len(tree.body) == 1 and isinstance(tree.body[0], ast.Expr):
            modes.append("eval")
        if all_modes >= 2 and len(tree.body) == 1:
            modes.append("single")
        any_ok = False
        for m in modes:
            t_m = t.rstrip("\n") if m == "eval" else t  # an expression text as eval() receives it
            r = evaluate(t_m, m)
            if r is None:
                continue
            any_ok = True
            stats["accepted"] += 1
            stats["evals"] += 1
            digests.append(_digest(m, t_m))
            if r != "ok":
                stats["fail_inputs"] += 1
                key, mt, mm, msig = classify(t_m, m, r)
                f = fails.get(key)
                ex = (len(t_m), t_m, m, rule)
                if f is None:
                    fails[key] = [1, ex, mt, mm, msig]
                else:
                    f[0] += 1
                    if ex < f[1]:
                        f[1] = ex
        return any_ok

    consider(text, "canonical", 2)
    tree0 = cpython_parse(text, "exec")
    kinds = sorted({type(n).__name__ for n in ast.walk(tree0)}) if tree0 is not None else []
    first = []
    for name, new in rw.rewrites(text, light=(klass == "light")):
        if consider(new, name, 0 if klass == "light" else 1) and klass == "pairs" and name in PAIR_RULES:
            first.append(new)
    # a second rewrite instance on top of every accepted first one
    for t1 in first:
        for name, new in rw.rewrites(t1, PAIR_RULES):
            consider(new, "pair:" + name, 0)
    stats["wall"] = time.perf_counter() - t0
    stats["kinds"] = kinds
    return stats, b"".join(digests), fails


# ----------------------------------------------------------------------------- sequences (xv/c01_seq.py)

def _explore_seq(text):
    """Stage 3: one sequence of lexically stateful statements, exec mode."""
    stats = {"candidates": 1, "accepted": 0, "evals": 0, "fail_inputs": 0}
    fails = {}
    r = evaluate(text, "exec")
    if r is None:
        return stats, b"", fails
    stats["accepted"] = stats["evals"] = 1
    if r != "ok":
        stats["fail_inputs"] = 1
        key, mt, mm, msig = classify(text, "exec", r)
        fails[key] = [1, (len(text), text, "exec", "sequence"), mt, mm, msig]
    return stats, _digest("exec", text), fails


# ----------------------------------------------------------------------------- alternations (xv/c01_alt.py)

_ALT_EVAL = False


def _explore_alt(item):
    """Stage 4: one program of an alternation family; exec mode (+ eval for expressions, thorough)."""
    fam, text = item
    stats = {"candidates": 1, "accepted": 0, "evals": 0, "fail_inputs": 0}
    fails = {}
    digests = []
    tree = cpython_parse(text, "exec")
    if tree is None:
        return stats, b"", fails
    modes = ["exec"]
    if _ALT_EVAL and len(tree.body) == 1 and isinstance(tree.body[0], ast.Expr):
        modes.append("eval")
    for m in modes:
        t_m = text.rstrip("\n") if m == "eval" else text
        r = evaluate(t_m, m)
        if r is None:
            continue
        stats["accepted"] += 1
        stats["evals"] += 1
        digests.append(_digest(m, t_m))
        if r != "ok":
            stats["fail_inputs"] += 1
            key, mt, mm, msig = classify(t_m, m, r)
            ex = (len(t_m), t_m, m, "alt:" + fam)
            f = fails.get(key)
            if f is None:
                fails[key] = [1, ex, mt, mm, msig]
            else:
                f[0] += 1
                f[1] = min(f[1], ex)
    return stats, b"".join(digests), fails


def _all_kinds():
    out = set()
    for sort in ("stmt", "expr", "pattern", "type_param", "excepthandler", "boolop", "operator", "unaryop", "cmpop"):
        out.update(gen.SUMS.get(sort) or gen.ENUMS[sort])
    out.update(("arguments", "arg", "keyword", "alias", "withitem", "match_case", "comprehension", "Load", "Store", "Del"))
    return out


def _plan(ctx):
    """Bounds per tier.  A layer is (name, max edits by number of constructor deviations, reduced
    alphabet?).  `klass(devs, edits, layer)` says which part of the rewrite catalogue a canonical
    program of that cost class receives."""
    if ctx.thorough:

        def klass(dv, ed, layer):
            if layer != "full":
                return "light"
            if (dv, ed) == (0, 0):
                return "pairs"
            return "full" if (dv, ed) in ((0, 1), (0, 2), (1, 0)) else "light"

        return {"maxlen": 3, "layers": [("full", (3, 1), False), ("two-deviations", (0, 0, 0), True)], "klass": klass}

    def klass(dv, ed, layer):
        return "full" if (dv, ed) in ((0, 0), (0, 1)) else "light"

    return {"maxlen": 3, "layers": [("full", (2, 0), False)], "klass": klass}


PAIR_RULES = ("gap-remove", "gap-add", "paren-add", "paren-remove", "comma", "backslash", "bracket-newline", "semicolon", "inline-body")


def run(ctx):
    from . import tables

    warnings.simplefilter("ignore")
    regen = tables.ensure_tables(completion=False)
    ctx.log(f"parser tables validated against the working tree (regenerated: {regen['parser']})")
    plan = _plan(ctx)
    # ---- stage 1: abstract layer
    items = []
    en = gen.Enumerator(maxlen=plan["maxlen"])
    for lname, bud, red in plan["layers"]:
        for root in en.roots(red):
            items.append((root, bud, red, plan["maxlen"]))
    res = common.pmap(_gen_root, items, ctx.jobs, chunk=1, seed=ctx.seed)
    canon = {}
    raw = 0
    for (root, bud, red, _), (n, progs) in zip(items, res):
        raw += n
        layer = "two-deviations" if red else "full"
        for text, is_expr, cost in progs:
            old = canon.get(text)
            rank = (0 if layer == "full" else 1, 2 * cost[0] + cost[1], cost)
            if old is None or rank < old[2]:
                canon[text] = (cost, layer, rank)
    ctx.log(f"abstract layer: {raw} typed trees -> {len(canon)} distinct canonical texts")
    # ---- stage 2: concrete layer + oracle
    work = []
    nklass = {"pairs": 0, "full": 0, "light": 0}
    for text in sorted(canon, key=lambda t: (len(t), t)):
        (dv, ed), layer, _rank = canon[text]
        k = plan["klass"](dv, ed, layer)
        nklass[k] += 1
        work.append((text, k))
    ctx.log(f"rewrite entitlement of the canonical texts: {nklass}")
    res = common.pmap(_explore, work, ctx.jobs, chunk=4, init=_init_worker, seed=ctx.seed)
    tot = {"candidates": 0, "accepted": 0, "evals": 0, "fail_inputs": 0}
    blob = []
    fails = {}
    slow = []
    kinds = set()
    for (text, k), (st, dg, fl) in zip(work, res):
        kinds.update(st["kinds"])
        for kk in tot:
            tot[kk] += st[kk]
        slow.append((st["wall"], text))
        blob.append(dg)
        for key, (n, ex, mt, mm, sig) in fl.items():
            f = fails.get(key)
            if f is None:
                fails[key] = [n, ex, mt, mm, sig]
            else:
                f[0] += n
                if tuple(ex) < tuple(f[1]):
                    f[1] = ex
    # ---- stage 3: sequences of lexically stateful statements
    seqs = cseq.sequences(ctx.thorough)
    res3 = common.pmap(_explore_seq, seqs, ctx.jobs, chunk=16, init=_init_worker, seed=ctx.seed)
    seq_tot = {"candidates": 0, "accepted": 0, "fail_inputs": 0}
    for st, dg, fl in res3:
        for kk in seq_tot:
            seq_tot[kk] += st[kk]
        for kk in tot:
            tot[kk] += st[kk]
        blob.append(dg)
        for key, (n, ex, mt, mm, sig) in fl.items():
            f = fails.get(key)
            if f is None:
                fails[key] = [n, ex, mt, mm, sig]
            else:
                f[0] += n
                if tuple(ex) < tuple(f[1]):
                    f[1] = ex
    ctx.log(f"sequence layer: {seq_tot['candidates']} sequences of {len(cseq.LEX_SNIPPETS)} lexically stateful statements, {seq_tot['accepted']} accepted by CPython, {seq_tot['fail_inputs']} failing")
    # ---- stage 4: alternation patterns of right-recursive rules
    global _ALT_EVAL
    _ALT_EVAL = ctx.thorough
    alts = calt.programs(ctx.thorough)
    res4 = common.pmap(_explore_alt, alts, ctx.jobs, chunk=16, init=_init_worker, seed=ctx.seed)
    alt_tot = {"candidates": 0, "accepted": 0, "fail_inputs": 0}
    alt_fam = {}
    for (fam, _t), (st, dg, fl) in zip(alts, res4):
        af = alt_fam.setdefault(fam, [0, 0, 0])
        af[0] += 1
        af[1] += st["accepted"]
        af[2] += st["fail_inputs"]
        for kk in alt_tot:
            alt_tot[kk] += st[kk]
        for kk in tot:
            tot[kk] += st[kk]
        blob.append(dg)
        for key, (n, ex, mt, mm, sig) in fl.items():
            f = fails.get(key)
            if f is None:
                fails[key] = [n, ex, mt, mm, sig]
            else:
                f[0] += n
                if tuple(ex) < tuple(f[1]):
                    f[1] = ex
    ctx.log(f"alternation layer: {alt_tot['candidates']} programs in {len(alt_fam)} families (length bound {4 if ctx.thorough else 3}), {alt_tot['accepted']} inputs accepted by CPython, {alt_tot['fail_inputs']} failing")
    data = b"".join(blob)
    distinct = len({data[i : i + 8] for i in range(0, len(data), 8)})
    ctx.log(f"concrete layer: {tot['candidates']} candidate texts, {tot['accepted']} (text, mode) inputs accepted by CPython, {distinct} distinct; {tot['fail_inputs']} failing inputs in {len(fails)} classes")
    if os.environ.get("XV_C01_DEBUG"):
        slow.sort(reverse=True)
        ctx.log(f"cpu in stage 2: {sum(w for w, _ in slow):.0f}s; slowest items: " + "; ".join(f"{w:.1f}s {t!r}" for w, t in slow[:8]))
    if os.environ.get("XV_C01_DUMP"):
        with open(os.environ["XV_C01_DUMP"], "w") as f:
            json.dump({k: v for k, v in sorted(fails.items())}, f, indent=1)
    # ---- report: re-check every class on a fresh parser (fresh state, no exploration history)
    for key in sorted(fails):
        n, ex, mt, mm, sig = fails[key]
        _EVAL_CACHE.clear()
        _parser(fresh=True)
        again = evaluate(mt, mm)
        if again != sig:
            raise common.ToolError(f"replay of {key!r} diverged: {sig!r} in the explorer, {again!r} on a fresh parser")
        obs, exp = describe(mt, mm)
        ctx.violation(
            key=key,
            clause=sig.split(":")[0],
            case={"src": mt, "mode": mm, "signature": sig, "example_input": ex[1], "example_mode": ex[2], "example_rule": ex[3], "failing_inputs": n},
            observed=obs,
            expected=exp,
            note=f"{n} failing input(s) minimise to this program",
        )
    # ---- evidence
    for t in common.pick_samples([w[0] for w in work], ctx.seed, 40):
        tree = cpython_parse(t, "exec")
        if tree is not None and len(ctx.samples) < 8:
            ctx.sample({"src": t, "mode": "exec", "verdict": evaluate(t, "exec"), "cpython": ast.dump(tree)[:300]})
    bounds = {
        "layers": [{"name": n, "max_edits_by_constructor_deviations": list(b), "reduced_alphabet": r} for n, b, r in plan["layers"]],
        "max_list_len": plan["maxlen"],
        "canonical_texts_by_rewrite_class": nklass,
        "rewrite_rules": list(rw.RULES),
        "light_rules": dict(rw.LIGHT),
        "pair_rules": list(PAIR_RULES) if ctx.thorough else [],
    }
    ctx.coverage.update(
        evaluations=tot["evals"],
        distinct_nontrivial=distinct,
        rule="every typed AST (constructors/fields read from ast.<Node>.__doc__) within the deviation budget, rendered by ast.unparse, plus every instance of every rewrite rule its cost class is entitled to (pairs > full > light), plus every pair/triple of lexically stateful statements, plus every element sequence up to the length bound of every repetition construct of the grammar (alternation layer); an input is a (text, mode) pair that ast.parse accepts; non-trivial = distinct accepted inputs that reached the tree comparison",
        exhaustive=True,
        typed_trees=raw,
        canonical_texts=len(canon),
        candidate_texts=tot["candidates"],
        failing_inputs=tot["fail_inputs"],
        failure_classes=len(fails),
        ast_node_kinds_in_accepted_programs=len(kinds),
        ast_node_kinds_missing=sorted(_all_kinds() - kinds),
        bounds=bounds,
        alternation_layer={"length_bound": 4 if ctx.thorough else 3, "programs": alt_tot["candidates"], "accepted_inputs": alt_tot["accepted"], "failing": alt_tot["fail_inputs"], "families": {k: {"programs": v[0], "accepted_inputs": v[1], "failing": v[2]} for k, v in alt_fam.items()}},
        sequence_layer={"snippets": len(cseq.LEX_SNIPPETS), "lengths": [2, 3] if ctx.thorough else [2], "sequences": seq_tot["candidates"], "accepted_by_cpython": seq_tot["accepted"], "failing": seq_tot["fail_inputs"]},
    )
    ctx.assumptions += [
        "Parser.parse is driven as xonsh's entry points drive it: exec/single text gets a final newline if missing, eval text has trailing newlines stripped; an empty program (parse() -> None) is read as an empty module",
        "the expected tree is ast.parse of the running interpreter (3.12) on exactly the same text; xonsh-only syntax and texts CPython rejects are out of scope",
        "differences ignored: node locations (compile() must still accept them), Constant.kind, type_comment, type_ignores, absent vs None/[] fields",
    ]


def replay(rec):
    from . import tables

    warnings.simplefilter("ignore")
    tables.ensure_tables(completion=False)
    case = rec["case"]
    rc = 0
    for label, text, mode in (("minimised", case["src"], case["mode"]), ("example input", case.get("example_input"), case.get("example_mode"))):
        if text is None:
            continue
        _parser(fresh=True)
        r = evaluate(text, mode)
        obs, exp = describe(text, mode)
        print(f"--- {label}: mode={mode} src={text!r}")
        print(f"verdict : {r}")
        print(f"observed: {obs}")
        print(f"expected: {exp}")
        if label == "minimised":
            rc = 0 if r in ("ok", None) else 1
    return rc
