"""C07 - redirections and pipes deliver each stream to exactly the documented place.

Bounded-exhaustive exploration of the real implementation: every generated command line is run
through `XSH.execer.exec` in its own forked process whose fds 0/1/2 are owned by the harness
(xv/c07_harness.py), and the place where every tagged byte ended up (target files, the next
stage's stdin, the capture, terminal fd 1 / fd 2) is compared with a table-driven reference router
written from docs/tutorial.rst "Input/Output Redirection" and docs/subprocess.rst "Summary table".

Sentences used for the oracle
  tutorial.rst: "The operators >, out>, o>, and 1> (POSIX) all execute cmd and write its regular
    output (stdout) to a file, creating it if it does not exist" / "append ... by replacing > with
    >>" / "err>, e>, and 2> ... write its error output (stderr) to a file" / "all>, a>, and &> all
    send both regular output and error output to the same location" / "err>out, err>o, e>out, e>o,
    and 2>&1 all explicitly merge stderr into stdout so that error messages are reported to the same
    location as regular output" / "out>err, out>e, o>err, o>e, and 1>&2 all send stdout to stderr" /
    "a>p (all>p) and e>p (err>p) add stderr to the following | pipe. The pipe still carries stdout
    as usual, unless an explicit o> file diverts stdout elsewhere ... These operators require a
    following pipe." / "cmd < input.txt", "< input.txt cmd" / the combined example
    "cmd1 e>o < input.txt | cmd2 > output.txt e>> errors.txt".
  tutorial.rst + subprocess.rst: "$() captures and returns the standard output stream" (capture
    stderr: no); "!(cmd) operator captures stdout and stderr" (summary table: "yes for thread");
    "![cmd] streams stdout and stderr to the screen"; "$[cmd] streams stdout and stderr directly to
    the terminal and returns None"; "@$(cmd) captures stdout, splits it ... and injects the
    resulting tokens as separate arguments".

Does NOT require (never flagged):
  * any order between bytes of two different streams/stages that share one sink (such sinks are
    compared as multisets of lines); a single stream into a single sink is compared byte-exactly;
  * whether `$()` / `!().out` keep the trailing newline(s) of the captured text;
  * for `!()`: whether unredirected stderr of a stage is in `.err` or on terminal fd 2 (the docs say
    "captured ... yes for thread" and nothing about stages that are not last) - it must be in
    exactly one of them; for an *unthreadable* alias under `!()` the same latitude for stdout
    (`.out` or terminal fd 1) because the docs only promise capture "for thread";
  * unthreadable aliases inside a pipeline: xonsh declares them unsupported with an explicit
    XonshError; that error (or correct routing) is accepted;
  * spellings admitted only by the decoding tables / tokenizer (2>1, 1>e, a>>, 2>p, no-space `>f`
    ...) may be rejected with XonshError/SyntaxError or behave exactly like their documented
    sibling - never a third thing;
  * two redirects that give one stream the *same* destination twice (`a> f e>o`): error or the
    agreed routing are both accepted;
  * a legal combination that contains a merge operator (`e> f o>e`, `o>e e>p |`, `> f e>o`) may
    follow any of three defensible readings: order-independent "merged" (the docs' wording), POSIX
    left-to-right (`2> f 1>&2` differs from `1>&2 2> f`), or "the other stream's original place"
    (`o>e e>p |` as a swap); `e>o o>e` may be rejected or follow the POSIX / swap reading;
  * what neighbouring stages of a rejected command line do (only: the line is reported as an error
    and nothing of the offending stage is delivered anywhere);
  * leftover helper threads / zombie children after a case (measured and reported in the
    evidence, not a violation of this property);
  * the unredirected stdin of the first stage (the harness gives /dev/null);
  * a glob / regex-glob target without any match: it is one word (the pattern itself, as in POSIX
    shells), so the file of that name is the target; only 0-word, >= 2-word and '' expansions must
    be rejected (statement: "malformed redirects are reported as errors rather than silently
    misrouted"), and then no candidate file may be created or modified.
"""

import itertools
import os
import re

from . import c07_harness as H
from . import common

LEVEL = "exploration"

OUT_NAMES = ("", "1", "o", "out")
ERR_NAMES = ("2", "e", "err")
ALL_NAMES = ("&", "a", "all")

# ------------------------------------------------------------------ spellings


def _universe():
    """Every spelling of the documentation table and of the decoding tables (specs.py _REDIR_*,
    _E2O_MAP, _O2E_MAP, _A2P_MAP, _E2P_MAP; tokenize.py _redir_map/_redir_names), written out
    statically so that an edit of those tables cannot shrink the explored space."""
    u = []
    for src in OUT_NAMES + ERR_NAMES + ALL_NAMES:
        for mode in (">", ">>"):
            u.append(src + mode)
    for e in ERR_NAMES:
        for o in ("1", "o", "out"):
            u.append(f"{e}>{o}")
        u.append(f"{e}>&1")
    for o in ("1", "o", "out"):
        for e in ERR_NAMES:
            u.append(f"{o}>{e}")
        u.append(f"{o}>&2")
    u += ["a>p", "all>p", "e>p", "err>p", "2>p", "<"]
    return u


UNIVERSE = _universe()

# docs/tutorial.rst, section "Input/Output Redirection" (the `>>` forms by "replacing > with >>")
DOCUMENTED = frozenset(
    [">", "out>", "o>", "1>", ">>", "out>>", "o>>", "1>>"]
    + ["err>", "e>", "2>", "err>>", "e>>", "2>>"]
    + ["all>", "a>", "&>"]
    + ["err>out", "err>o", "e>out", "e>o", "2>&1"]
    + ["out>err", "out>e", "o>err", "o>e", "1>&2"]
    + ["a>p", "all>p", "e>p", "err>p", "<"]
)

_OP_RE = re.compile(r"^(out|o|1|err|e|2|all|a|&|)(>>|>|<)(&?)(out|o|1|err|e|2|p|)$")

CLASSES = ("OUT_W", "OUT_A", "ERR_W", "ERR_A", "ALL_W", "ALL_A", "E2O", "O2E", "A2P", "E2P", "IN")
CANON = {"OUT_W": ">", "OUT_A": ">>", "ERR_W": "e>", "ERR_A": "e>>", "ALL_W": "a>", "ALL_A": "a>>", "E2O": "e>o", "O2E": "o>e", "A2P": "a>p", "E2P": "e>p", "IN": "<"}
FILE_CLASSES = ("OUT_W", "OUT_A", "ERR_W", "ERR_A", "ALL_W", "ALL_A", "IN")


def classify(op):
    """Operator class of a spelling, or None when no table (documented or decoding) admits it."""
    m = _OP_RE.match(op)
    if not m:
        return None
    src, mode, amp, dst = m.groups()
    if mode == "<":
        return "IN" if not (src or amp or dst) else None
    s = "OUT" if src in OUT_NAMES else "ERR" if src in ERR_NAMES else "ALL"
    if dst == "":
        if amp:
            return None
        return f"{s}_{'A' if mode == '>>' else 'W'}"
    if mode == ">>":
        return None
    if dst == "p":
        if amp or src == "&":
            return None
        return {"ALL": "A2P", "ERR": "E2P"}.get(s)
    if amp and dst not in ("1", "2"):
        return None
    d = "OUT" if dst in ("1", "o", "out") else "ERR"
    if s == "ERR" and d == "OUT":
        return "E2O"
    if s == "OUT" and d == "ERR" and src != "":
        return "O2E"
    return None


# ------------------------------------------------------------------ the reference router

T1, T2, CAPOUT, CAPERR = "T1", "T2", "CAPOUT", "CAPERR"
OLD = "old1\nold2\n"
INPUT = "F1\nF2\n"


class _Reject(Exception):
    def __init__(self, why, soft=False):
        super().__init__(why)
        self.why = why
        self.soft = soft


def _tgt(r):
    """File name a redirect refers to: the literal target, or - for a target FORM (glob, @(...),
    $VAR, quoted) - the single word it expands to.  A list = the expansion is not exactly one
    non-empty word (the redirect must be rejected)."""
    if "words" in r:
        w = r["words"]
        return w[0] if len(w) == 1 and w[0] != "" else list(w)
    return r.get("target")


def _stage_plan(st, i, n, cap, pre, mode="final"):
    """Resolve the redirects of one stage.  Returns dict(out=dest, err=dest, infile=name|None,
    soft=bool).  dest = ('pipe',) | ('file', name, mode) | ('default',).  Raises _Reject for a
    conflicting / malformed stage."""
    assigns = {"out": [], "err": []}
    infiles = []
    soft = False
    for r in st.get("redirs", ()):
        op, tgt = r["op"], _tgt(r)
        c = classify(op)
        if c is None:
            raise _Reject(f"malformed operator {op!r}")
        if c in FILE_CLASSES:
            if tgt is None:
                raise _Reject(f"{op!r} without a target")
            if isinstance(tgt, list):
                raise _Reject(f"target of {op!r} expands to {len(tgt)} words {tgt!r} (exactly one file name is required)")
            if "/" in tgt:
                if pre.get(tgt.split("/")[0]) != "<dir>":
                    raise _Reject(f"directory of target {tgt!r} is missing or not writable")
            elif pre.get(tgt) in ("<dir>", "<rodir>"):
                raise _Reject(f"target {tgt!r} is a directory")
        elif tgt is not None:
            raise _Reject(f"{op!r} takes no target")
        if c == "IN":
            if pre.get(tgt) is None:
                raise _Reject(f"input file {tgt!r} does not exist")
            infiles.append(tgt)
        elif c in ("OUT_W", "OUT_A"):
            assigns["out"].append(("file", tgt, c[-1]))
        elif c in ("ERR_W", "ERR_A"):
            assigns["err"].append(("file", tgt, c[-1]))
        elif c in ("ALL_W", "ALL_A"):
            assigns["out"].append(("file", tgt, c[-1]))
            assigns["err"].append(("file", tgt, c[-1]))
        elif c == "E2O":
            assigns["err"].append(("same", "out"))
        elif c == "O2E":
            assigns["out"].append(("same", "err"))
        elif c in ("A2P", "E2P"):
            if i == n:
                raise _Reject(f"{op!r} requires a following pipe")
            assigns["err"].append(("pipe",))
            if c == "A2P":
                assigns["out"].append(("pipe",))
    if len(infiles) > 1:
        raise _Reject("two inputs for stdin")
    if infiles and i > 1:
        raise _Reject("`<` on a stage that already reads from a pipe")

    default_out = ("pipe",) if i < n else ("default",)

    def resolve(stream, seen=()):
        lst = assigns[stream]
        if not lst:
            return {default_out if stream == "out" else ("default-err",)}
        outs = set()
        for a in lst:
            if a[0] == "same":
                if a[1] in seen or stream in seen:
                    if mode != "final":
                        continue  # `e>o o>e` is only a conflict under the order-independent reading
                    raise _Reject("stdout and stderr redirected into each other", soft=True)
                outs |= resolve(a[1], seen + (stream,))
            else:
                outs.add(a)
        return outs

    res = {}
    for stream in ("out", "err"):
        dests = resolve(stream)
        if len(dests) > 1:
            raise _Reject(f"two different redirections of std{stream}")
        if len(assigns[stream]) > 1:
            soft = True  # the same destination given twice
        res[stream] = next(iter(dests)) if dests else None
    if i < n and res["out"] != ("pipe",) and res["err"] != ("pipe",) and None not in res.values():
        raise _Reject("stdout redirected away from a stage that is piped into the next one")
    if mode != "final":
        # other defensible readings of a *legal* combination that contains a merge operator:
        #  'seq'  POSIX: redirects take effect left to right and a merge operator copies the current
        #         binding of the other stream (`2> f 1>&2` differs from `1>&2 2> f`)
        #  'orig' the merge operator refers to where the other stream pointed before any redirect of
        #         this command (so `o>e e>p |` swaps: stdout to the terminal's stderr, stderr piped)
        cur = {"out": default_out, "err": ("default-err",)}
        for r in st.get("redirs", ()):
            c = classify(r["op"])
            tgt = _tgt(r)
            if c in ("OUT_W", "OUT_A"):
                cur["out"] = ("file", tgt, c[-1])
            elif c in ("ERR_W", "ERR_A"):
                cur["err"] = ("file", tgt, c[-1])
            elif c in ("ALL_W", "ALL_A"):
                cur["out"] = cur["err"] = ("file", tgt, c[-1])
            elif c == "E2O":
                cur["err"] = cur["out"] if mode == "seq" else default_out
            elif c == "O2E":
                cur["out"] = cur["err"] if mode == "seq" else ("default-err",)
            elif c == "A2P":
                cur["out"] = cur["err"] = ("pipe",)
            elif c == "E2P":
                cur["err"] = ("pipe",)
        res = cur
    return {"out": res["out"], "err": res["err"], "infile": infiles[0] if infiles else None, "soft": soft}


def model(case, mode="final"):
    """Reference outcome of a case.

    {'error': why, 'stage': i, 'soft': bool}            the line must be rejected
    {'sinks': {sink: [chunk, ...]}, 'files': {name: (prefix, [chunks])}, 'soft': bool, ...}
    """
    stages, cap, pre = case["stages"], case["capture"], case.get("pre", {})
    n = len(stages)
    plans = []
    soft = False
    for i, st in enumerate(stages, 1):
        try:
            p = _stage_plan(st, i, n, cap, pre, mode)
        except _Reject as e:
            return {"error": e.why, "stage": i, "cycle": e.soft}
        soft = soft or p["soft"]
        plans.append(p)
    unthr_in_pipe = n > 1 and any(st["kind"] == "unthr" for st in stages)
    sinks = {T1: [], T2: [], CAPOUT: [], CAPERR: [], "EFLEX": [], "OFLEX": []}
    files = {}
    pipe_lines = []
    for i, (st, p) in enumerate(zip(stages, plans), 1):
        if p["infile"] is not None:
            stdin_lines = pre[p["infile"]].splitlines()
        elif i > 1 and not st.get("early"):
            stdin_lines = pipe_lines
        else:
            stdin_lines = []  # first stage, or a consumer that leaves without reading
        chunks = {"out": H.stage_stdout(i, stdin_lines, list(st.get("args", ())) + list(st.get("args_after", ())), {"out": True, "drip": H.FILL_DRIP}.get(H._bulk(st), False)), "err": H.stage_stderr(i, H._bulk(st) == "err")}
        pipe_lines = []
        for stream in ("out", "err"):
            d = p[stream]
            text = chunks[stream]
            if d == ("pipe",):
                pipe_lines += text.splitlines()
            elif d[0] == "file":
                _, name, mode = d
                ent = files.setdefault(name, [OLD if (mode == "A" and pre.get(name) is not None) else "", [], mode])
                if ent[2] != mode:
                    raise AssertionError("generator bug: one file, two modes")
                ent[1].append(text)
            elif d == ("default",):  # where unredirected stdout of the last stage goes
                if cap in ("bare", "![]", "$[]"):
                    sinks[T1].append(text)
                elif cap == "!()" and st["kind"] == "unthr":
                    sinks["OFLEX"].append(text)
                else:
                    sinks[CAPOUT].append(text)
            elif d == ("default-err",):
                if cap == "!()":
                    sinks["EFLEX"].append(text)
                else:
                    sinks[T2].append(text)
            else:  # pragma: no cover
                raise AssertionError(d)
    return {"sinks": sinks, "files": {k: (v[0], v[1]) for k, v in files.items()}, "soft": soft, "unthr_in_pipe": unthr_in_pipe}


# ------------------------------------------------------------------ comparing an observation


def _lines(s):
    return sorted((s or "").splitlines(True))


def _cmp_sink(obs, prefix, chunks, multiset=False):
    """None when the sink content is acceptable, else (missing lines, extra lines)."""
    obs = obs or ""
    if not obs.startswith(prefix):
        return (_lines(prefix + "".join(chunks)), _lines(obs))
    rest = obs[len(prefix) :]
    if len(chunks) <= 1 and not multiset:
        if rest == "".join(chunks):
            return None
    elif _lines(rest) == _lines("".join(chunks)):
        return None
    exp, got = _lines("".join(chunks)), _lines(rest)
    missing = list(exp)
    extra = []
    for ln in got:
        if ln in missing:
            missing.remove(ln)
        else:
            extra.append(ln)
    if not missing and not extra:
        return (["<order>"], ["<order>"])
    return (missing, extra)


_TOKEN_LINE = re.compile(r"^(?:[OE]\d|I\d_\w*\dI|A\d_\w*\dA|Z\d+|old\d|F\d)$")


def _norm_line(ln, t=None):
    """Stable, path-free rendering of one observed/expected line for violation keys."""
    ln = ln.rstrip("\n")
    if _TOKEN_LINE.match(ln) or ln == "<order>":
        return ln
    return "<msg>"


def _sig(diffs, t):
    parts = []
    for sink in sorted(diffs):
        missing, extra = diffs[sink]
        m = ",".join(sorted({_norm_line(x, t) for x in missing}))
        e = ",".join(sorted({_norm_line(x, t) for x in extra}))
        parts.append(f"{sink}(-{m}|+{e})")
    return ";".join(parts)


def observe_sinks(case, res):
    cap = case["capture"]
    o = {T1: res.get("term1") or "", T2: res.get("term2") or "", CAPOUT: "", CAPERR: ""}
    if cap == "$()":
        o[CAPOUT] = res.get("cap_out") or ""
    elif cap == "!()":
        o[CAPOUT] = res.get("cap_out") or ""
        o[CAPERR] = res.get("cap_err") or ""
    elif cap == "@$()":
        o[CAPOUT] = "".join(a + "\n" for a in (res.get("cap_args") or []))
    return {k: H.canon_text(v) for k, v in o.items()}


def _nl(s):
    return s if not s or s.endswith("\n") else s + "\n"


def _norm_cap(s):
    s = s.replace("\r\n", "\n")
    s = s.rstrip("\n")
    return s + "\n" if s else ""


def _stage_tokens_anywhere(res, i):
    blob = "\n".join(
        [res.get("term1") or "", res.get("term2") or "", res.get("cap_out") or "", res.get("cap_err") or "", " ".join(res.get("cap_args") or [])]
        + [v for v in (res.get("files") or {}).values() if isinstance(v, str)]
    )
    return sorted(set(re.findall(rf"(?<![A-Za-z0-9])(?:O{i}|E{i})(?![A-Za-z0-9])|I{i}_", blob)))


def _files_changed(res):
    before, after = res.get("before") or {}, res.get("files") or {}
    ch = []
    for k in sorted(set(before) | set(after)):
        if before.get(k) != after.get(k):
            ch.append(k)
    return ch


def _is_clean_reject(case, res, stage):
    """The line was reported as an error (XonshError / SyntaxError out of exec) and nothing of the
    offending stage was delivered anywhere.  Returns (ok, signature)."""
    exc = res.get("exc")
    if exc is None:
        leaked = _stage_tokens_anywhere(res, stage)
        return False, "no-error" + (":ran" if leaked else ":silent")
    proper = exc[0] in ("XonshError", "SyntaxError") or (exc[0] == "Exception" and exc[1].startswith("Unsupported redirect"))
    if not proper:
        return False, f"crash:{exc[0]}"
    leaked = _stage_tokens_anywhere(res, stage)
    if leaked:
        return False, "error-but-delivered:" + ",".join(leaked)
    return True, ""


def _write_targets(case):
    out = set()
    for st in case["stages"]:
        for r in st.get("redirs", ()):
            if r.get("target") is not None and classify(r["op"]) not in (None, "IN"):
                out |= set(r["words"]) if "words" in r else {r["target"]}
    return out


def _touched(case, res):
    """'' when no file changed, 'created' / 'truncated' / 'created+truncated' when the only changes
    are that write targets named on the line were created empty / emptied, else 'other'."""
    before, after = res.get("before") or {}, res.get("files") or {}
    ch = _files_changed(res)
    if not ch:
        return ""
    kinds = set()
    targets = _write_targets(case)
    for k in ch:
        if k in targets and after.get(k) == "":
            kinds.add("truncated" if k in before else "created")
        else:
            return "other"
    return "+".join(sorted(kinds))


def _has_merge_combo(case):
    for st in case["stages"]:
        cs = [classify(r["op"]) for r in st.get("redirs", ())]
        if len(cs) > 1 and ("E2O" in cs or "O2E" in cs):
            return True
    return False


def _alt_reading_holds(case, res):
    """A combination with a merge operator may also follow the 'seq' or 'orig' reading."""
    for mode in ("seq", "orig"):
        m2 = model(case, mode)
        if "error" not in m2 and not _route_diffs(case, res, m2):
            return True
    return False


def _route_diffs(case, res, m):
    obs = observe_sinks(case, res)
    cap = case["capture"]
    diffs = {}
    exp = m["sinks"]
    capout_obs = obs[CAPOUT]
    if cap in ("$()", "!()"):
        capout_obs = _norm_cap(capout_obs)
        capout_exp_chunks = [_norm_cap("".join(exp[CAPOUT]))] if len(exp[CAPOUT]) <= 1 else exp[CAPOUT]
    else:
        capout_exp_chunks = exp[CAPOUT]
    # flexible sinks: !() stderr may be in .err or on fd 2; unthreadable alias stdout in .out or fd 1
    if exp["OFLEX"]:
        d = _cmp_sink(_norm_cap(obs[CAPOUT]) + obs[T1], "", exp[CAPOUT] + exp[T1] + exp["OFLEX"], multiset=True)
        if d:
            diffs["T1+CAPOUT"] = d
    else:
        d = _cmp_sink(capout_obs, "", capout_exp_chunks)
        if d:
            diffs[CAPOUT] = d
        d = _cmp_sink(obs[T1], "", exp[T1])
        if d:
            diffs[T1] = d
    if cap == "!()":
        # each stderr chunk must be in exactly one of the two places (the multiset counts occurrences)
        d = _cmp_sink(_nl(obs[CAPERR]) + obs[T2], "", exp[CAPERR] + exp[T2] + exp["EFLEX"], multiset=True)
        if d:
            diffs["T2+CAPERR"] = d
    else:
        d = _cmp_sink(obs[T2], "", exp[T2])
        if d:
            diffs[T2] = d
        d = _cmp_sink(obs[CAPERR], "", exp[CAPERR])
        if d:
            diffs[CAPERR] = d
    after = {k: H.canon_text(v) for k, v in (res.get("files") or {}).items()}
    pre = case.get("pre", {})
    for name in sorted(set(after) | set(m["files"]) | {k for k, v in pre.items() if v is not None}):
        if name.endswith("/") and name[:-1] in pre:
            continue
        if name in m["files"]:
            prefix, chunks = m["files"][name]
            if name not in after:
                diffs[f"file:{name}"] = (_lines(prefix + "".join(chunks)), ["<absent>"])
                continue
            d = _cmp_sink(after[name], prefix, chunks)
        elif pre.get(name) in ("<dir>", "<rodir>"):
            d = None
        elif pre.get(name) is not None:
            d = None if after.get(name) == pre[name] else (_lines(pre[name]), _lines(after.get(name)) or ["<emptied>"])
        else:
            d = ([], ["<stray-file>"] + _lines(after.get(name)))
        if d:
            diffs[f"file:{name}"] = d
    return diffs


ROOT_TOUCH = "rejected-line-touches-write-target"
ROOT_READER = "upstream-pipe-reader-closed-under-middle-alias-when-last-stage-exits"


def _reader_closed_under_alias(case, res):
    """One root cause with many faces (found by the thorough tier under load, then made deterministic
    with a slow first stage): when the LAST stage of a pipeline exits while a callable-alias stage in the
    MIDDLE is still reading its stdin, CommandPipeline._close_prev_procs closes the read end of the pipe
    the alias reads from; the alias thread dies with EBADF before its first write and all of its output
    is lost.  Recognised only when exactly that is observed: the alias thread's EBADF report is there and
    nothing at all of the alias arrived anywhere."""
    meta = case.get("meta", {})
    if meta.get("family") != "earlyexit" or meta.get("pos") != "mid3":
        return False
    t = meta["t"]
    word = H.stage_word("thr", t, case["stages"][t - 1])
    errs = (res.get("term2") or "") + (res.get("cap_err") or "")
    if "[Errno 9] Bad file descriptor" not in errs or f"'alias': '{word}'" not in errs:
        return False
    everything = errs + (res.get("term1") or "") + str(res.get("cap_out") or "") + "".join(v or "" for v in (res.get("files") or {}).values())
    return not any(tag in everything for tag in (f"O{t}\n", f"I{t}_", f"E{t}\n"))


def judge(case, res):
    """-> None (held) or (clause, signature, observed, expected).  A signature that starts with
    ROOT_TOUCH is a complete key by itself (one root cause, whatever the operator / stage kind)."""
    m = model(case)
    if case.get("dropcaps") and not res.get("caps_dropped", True):
        return None  # permission bits do not bind in this sandbox: the case says nothing
    if res.get("hang"):
        return ("delivery completes", "hang", "no result within %.0f s" % H.CASE_TIMEOUT, _exp_text(m))
    meta = case.get("meta", {})
    exc = res.get("exc")
    if "error" in m:
        ok, sig = _is_clean_reject(case, res, m["stage"])
        if not ok and m.get("cycle") and exc is None and _alt_reading_holds(case, res):
            return None  # `e>o o>e` executed as POSIX would / as a swap: not a misroute
        if not ok:
            return ("conflicting/malformed redirect is reported as an error", "reject:" + sig, _obs_text(case, res), _exp_text(m))
        t = _touched(case, res)
        if t:
            return ("a rejected command line creates/modifies no file", f"{ROOT_TOUCH}:{t}", _obs_text(case, res), _exp_text(m))
        return None
    # ---- a routed case
    may_reject = m["soft"] or not meta.get("documented", True)
    if exc is not None:
        if m["unthr_in_pipe"] and exc[0] == "XonshError" and "unthreadable" in exc[1]:
            return None
        if may_reject:
            ok, _sg = _is_clean_reject(case, res, meta.get("t", 1))
            if ok:
                t = _touched(case, res)
                if t:
                    return ("a rejected command line creates/modifies no file", f"{ROOT_TOUCH}:{t}", _obs_text(case, res), _exp_text(m))
                return None
        # (what was delivered before the exception is racy, so it is not part of the signature)
        return ("documented redirect is executed without error", f"raised:{exc[0]}", _obs_text(case, res), _exp_text(m))
    diffs = _route_diffs(case, res, m)
    if diffs and _has_merge_combo(case) and _alt_reading_holds(case, res):
        return None
    if not diffs:
        return None
    if _reader_closed_under_alias(case, res):
        return ("each stream ends up completely and only where the operators say", ROOT_READER, _obs_text(case, res), _exp_text(m))
    return ("each stream ends up completely and only where the operators say", "route:" + _sig(diffs, None), _obs_text(case, res), _exp_text(m))


def _obs_text(case, res):
    keep = {}
    for k in ("exc", "term1", "term2", "cap_out", "cap_err", "cap_args", "files", "hang"):
        v = res.get(k)
        if v not in (None, "", [], {}):
            keep[k] = v
    if res.get("files") == res.get("before"):
        keep.pop("files", None)
        keep["files"] = "<unchanged>"
    return keep


def _exp_text(m):
    if "error" in m:
        return {"rejected": m["error"], "how": "XonshError or SyntaxError, nothing of stage %d delivered" % m["stage"]}
    return {
        "sinks": {k: v for k, v in m["sinks"].items() if v},
        "files": {k: {"keeps": v[0], "then": v[1]} for k, v in m["files"].items()},
        "note": "EFLEX = .err or terminal fd 2; OFLEX = .out or terminal fd 1; several chunks in one sink = any order",
    }


# ------------------------------------------------------------------ the explored space

POSITIONS = {"only": (1, 1), "first2": (1, 2), "last2": (2, 2), "mid3": (2, 3), "first3": (1, 3), "first4": (1, 4), "second4": (2, 4), "third4": (3, 4)}
PRODUCT_POS = ("only", "first2", "last2", "mid3")
# the product position whose single-operator case is the simpler sibling of a chain position
POS_ANALOG = {"first3": "first2", "first4": "first2", "second4": "mid3", "third4": "mid3"}
CAPTURES = ("bare", "![]", "$[]", "$()", "!()", "@$()")


def _pipeline(kind, pos, redirs, neigh):
    t, n = POSITIONS[pos]
    stages = []
    ni = iter(neigh)
    for i in range(1, n + 1):
        if i == t:
            stages.append({"kind": kind, "redirs": redirs})
        else:
            stages.append({"kind": next(ni), "redirs": []})
    return stages, t


def _neighbour_sets(pos, kinds):
    _, n = POSITIONS[pos]
    return list(itertools.product(kinds, repeat=n - 1))


def gen_cases(thorough):
    """Simplest first.  Every case is a complete, self-describing dict."""
    kinds = ("ext", "thr", "unthr") if thorough else ("ext", "thr")
    nkinds = ("ext", "thr") if thorough else ("ext",)
    cases = []

    def add(family, klass, spelling, kind, pos, cap, redirs, pre, neigh, documented, target=None, extra=None):
        stages, t = _pipeline(kind, pos, redirs, neigh)
        meta = {"family": family, "class": klass, "spelling": spelling, "kind": kind, "pos": pos, "t": t, "documented": documented, "neigh": list(neigh), "target": target}
        if extra:
            meta.update(extra)
        cases.append({"stages": stages, "capture": cap, "pre": pre, "meta": meta})

    # 0. baseline: no redirect at all (pipes, captures and the terminal alone)
    for kind in kinds:
        for pos in PRODUCT_POS:
            for neigh in _neighbour_sets(pos, nkinds):
                for cap in CAPTURES:
                    add("base", "NONE", "", kind, pos, cap, [], {}, neigh, True)
    if thorough:  # the 4-stage shapes used by the chain family
        for k in ("ext", "thr"):
            for cap in CAPTURES:
                add("base", "NONE", "", k, "first4", cap, [], {}, (k, k, k), True)

    # 1. the full product: spelling x stage kind x position x capture form x target state
    for sp in UNIVERSE:
        c = classify(sp)
        assert c is not None, sp
        doc = sp in DOCUMENTED
        forms = [(sp, False)]
        if c == "IN":
            forms.append((sp, True))  # `< input.txt cmd`
        for op, lead in forms:
            for kind in kinds:
                for pos in PRODUCT_POS:
                    for neigh in _neighbour_sets(pos, nkinds):
                        for cap in CAPTURES:
                            if c in FILE_CLASSES:
                                for target in ("missing", "existing"):
                                    if c == "IN":
                                        pre = {"f": INPUT if target == "existing" else None}
                                    else:
                                        pre = {"f": OLD if target == "existing" else None}
                                    add("product", c, sp + ("(lead)" if lead else ""), kind, pos, cap, [{"op": op, "target": "f", "lead": lead}], pre, neigh, doc, target)
                            else:
                                add("product", c, sp, kind, pos, cap, [{"op": op}], {}, neigh, doc)

    # 2. every ordered pair of operator classes on one stage (canonical documented spelling): the
    #    reference decides which pairs are conflicts (two redirects of one stream, `>` with `|`,
    #    e>p/a>p without pipe, merge cycles) and which are legal combinations (`o> f e>p |`, `> f e>o`)
    pair_pos = ("only", "first2")
    pair_caps = ("bare", "$()", "!()") if thorough else ("bare", "$()")
    for c1, c2 in itertools.product(CLASSES, repeat=2):
        for kind in kinds:
            for pos in pair_pos:
                if kind == "unthr" and pos != "only":
                    continue
                for cap in pair_caps:
                    redirs = []
                    pre = {}
                    for j, c in enumerate((c1, c2), 1):
                        r = {"op": CANON[c]}
                        if c in FILE_CLASSES:
                            r["target"] = f"f{j}"
                            pre[f"f{j}"] = INPUT if c == "IN" else OLD
                        redirs.append(r)
                    neigh = _neighbour_sets(pos, ("ext",))[0]
                    add("pair", f"{c1}+{c2}", f"{CANON[c1]} {CANON[c2]}", kind, pos, cap, redirs, pre, neigh, True, "existing")

    # 3. malformed operators and unusable targets
    mal = [
        ("3>", {"op": "3>", "target": "f"}, {}),
        ("0<", {"op": "0<", "target": "f"}, {"f": INPUT}),
        (">&", {"op": ">&", "target": "f"}, {}),
        ("2>&3", {"op": "2>&3"}, {}),
        (">-notarget", {"op": ">"}, {}),
        ("<-notarget", {"op": "<"}, {}),
        ("e>-notarget", {"op": "e>"}, {}),
        (">-missingdir", {"op": ">", "target": "nodir/f"}, {}),
        ("e>>-missingdir", {"op": "e>>", "target": "nodir/f"}, {}),
        ("a>-missingdir", {"op": "a>", "target": "nodir/f"}, {}),
        (">-isdir", {"op": ">", "target": "d"}, {"d": "<dir>"}),
        (">-rodir", {"op": ">", "target": "ro/f"}, {"ro": "<rodir>"}),
        (">>-rodir", {"op": ">>", "target": "ro/f"}, {"ro": "<rodir>"}),
    ]
    for name, r, pre in mal:
        for kind in kinds:
            for pos in ("only", "first2", "last2"):
                if kind == "unthr" and pos != "only":
                    continue
                for cap in ("bare", "$()", "!()"):
                    neigh = _neighbour_sets(pos, ("ext",))[0]
                    add("malformed", "MAL", name, kind, pos, cap, [dict(r)], dict(pre), neigh, True)
                    if "rodir" in name:
                        cases[-1]["dropcaps"] = True

    # 4. the no-space form (`>f`): documented as a SyntaxError; accepted = error, or exactly the
    #    spaced sibling
    #    (`e>x`, `e>>o`, `&>p`, `o>p` are no-space forms too: a file called x / o / p)
    for sp, tname in ((">", "f"), (">>", "f"), ("e>", "f"), ("a>", "f"), ("o>", "f"), ("2>", "f"), ("<", "f"), ("e>", "x"), ("e>>", "o"), ("&>", "p"), ("o>", "p")):
        c = classify(sp)
        for kind in kinds:
            for pos in ("only", "last2") if (sp, tname) not in (("<", "f"), ("o>", "p")) else ("only", "first2"):
                if kind == "unthr" and pos != "only":
                    continue
                for cap in ("bare", "$()"):
                    pre = {tname: INPUT if c == "IN" else OLD}
                    neigh = _neighbour_sets(pos, ("ext",))[0]
                    add("nospace", c, sp + tname, kind, pos, cap, [{"op": sp, "target": tname, "nospace": True}], pre, neigh, False, "existing")

    # 5. the combined example of the tutorial: cmd1 e>o < input.txt | cmd2 > output.txt e>> errors.txt
    for k1, k2 in itertools.product(("ext", "thr"), repeat=2):
        for cap in CAPTURES:
            for errs in (None, OLD):
                stages = [
                    {"kind": k1, "redirs": [{"op": "e>o"}, {"op": "<", "target": "input"}]},
                    {"kind": k2, "redirs": [{"op": ">", "target": "output"}, {"op": "e>>", "target": "errors"}]},
                ]
                meta = {"family": "docexample", "class": "DOCEX", "spelling": "e>o < | > e>>", "kind": f"{k1}-{k2}", "pos": "both", "t": 1, "documented": True, "neigh": [], "target": "existing" if errs else "missing"}
                cases.append({"stages": stages, "capture": cap, "pre": {"input": INPUT, "errors": errs, "output": None}, "meta": meta})

    # 6. chains: every single operator class and every ordered pair of classes that is LEGAL on a
    #    non-last stage (decided by the reference: `o> f e>p`, `e> f` + plain pipe, `a>p`, `e>p e>o` ...)
    #    on the FIRST and MIDDLE stage of 3-stage pipelines (thorough: also every non-last stage of 4),
    #    so that what one stage's redirects do to the wiring of every LATER `|` is observed
    def redirs_for(classes, tag="f"):
        redirs, pre = [], {}
        for j, c in enumerate(classes, 1):
            r = {"op": CANON[c]}
            if c in FILE_CLASSES:
                r["target"] = f"{tag}{j}"
                pre[f"{tag}{j}"] = INPUT if c == "IN" else OLD
            redirs.append(r)
        return redirs, pre

    chain_pos = ("first3", "mid3") + (("first4", "second4", "third4") if thorough else ())
    chain_caps = CAPTURES if thorough else ("bare", "$()", "!()")
    class_sets = [(c,) for c in CLASSES] + list(itertools.product(CLASSES, repeat=2))
    for classes in class_sets:
        for pos in chain_pos:
            t, n = POSITIONS[pos]
            redirs, pre = redirs_for(classes)
            probe = {"stages": _pipeline("ext", pos, redirs, ("ext",) * (n - 1))[0], "capture": "bare", "pre": pre}
            if "error" in model(probe):
                continue  # illegal on a non-last stage: rejected while the specs are built, covered by family 2
            for kind in ("ext", "thr"):
                for nk in ("ext", "thr") if thorough else ("ext",):
                    for cap in chain_caps:
                        redirs, pre = redirs_for(classes)
                        add("chain", "+".join(classes), " ".join(CANON[c] for c in classes), kind, pos, cap, redirs, pre, (nk,) * (n - 1), True, "existing")

    # 7. redirects on several stages of one 3-stage pipeline at once
    s1 = [(), ("ERR_W",), ("E2O",), ("A2P",), ("E2P",), ("OUT_W", "E2P"), ("E2P", "OUT_W"), ("IN",)]
    s2 = [(), ("ERR_W",), ("E2O",), ("A2P",), ("E2P",), ("OUT_W", "E2P")]
    s3 = [(), ("OUT_W",), ("OUT_A",), ("ERR_W",), ("ALL_W",), ("E2O",)]
    if not thorough:  # quick: 8 x 5 x 4 sets
        s2 = [x for x in s2 if x != ("E2O",)]
        s3 = [x for x in s3 if x not in (("OUT_A",), ("ALL_W",))]
    cross_shapes = (("ext",) * 3, ("thr",) * 3, ("ext", "thr", "ext"), ("thr", "ext", "thr")) if thorough else (("ext",) * 3,)
    cross_caps = CAPTURES if thorough else ("bare", "$()")
    for a, b, c3 in itertools.product(s1, s2, s3):
        if sum(1 for x in (a, b, c3) if x) < 2:
            continue  # fewer than two redirected stages: families 1 and 6
        for shp in cross_shapes:
            for cap in cross_caps:
                stages, pre = [], {}
                for j, (k, classes) in enumerate(zip(shp, (a, b, c3)), 1):
                    redirs, p = redirs_for(classes, tag=f"s{j}f")
                    pre.update(p)
                    stages.append({"kind": k, "redirs": redirs})
                name = "|".join("+".join(x) or "-" for x in (a, b, c3))
                meta = {"family": "cross", "class": name, "spelling": name, "kind": "-".join(shp), "pos": "multi", "t": 1, "documented": True, "neigh": [], "target": "existing"}
                cases.append({"stages": stages, "capture": cap, "pre": pre, "meta": meta})

    # 8. target FORMS: the word after the operator is not a literal name but something that expands.
    #    Exactly one non-empty word = that file; anything else (0 or >= 2 words, '') must be rejected
    #    and no candidate file may be created or modified.
    env = {"C07T": "p1", "C07S": "sp ace"}
    forms = [
        ("glob0", "g0*.txt", ["g0*.txt"]),  # no match: the pattern itself, one word (as in POSIX shells)
        ("glob1", "g1*.txt", ["g1a.txt"]),
        ("glob2", "g2*.txt", ["g2a.txt", "g2b.txt"]),
        ("rx1", "`g1.*`", ["g1a.txt"]),
        ("rx2", "`g2.*`", ["g2a.txt", "g2b.txt"]),
        ("list0", "@([])", []),
        ("list1", "@(['p1'])", ["p1"]),
        ("list2", "@(['p1', 'p2'])", ["p1", "p2"]),
        ("tuple2", "@(('p1', 'p2'))", ["p1", "p2"]),
        ("str", "@('p1')", ["p1"]),
        ("emptystr", "@('')", [""]),
        ("var", "$C07T", ["p1"]),
        ("varspace", "$C07S", ["sp ace"]),
        ("squote", "'sp ace'", ["sp ace"]),
        ("dquote", '"sp ace"', ["sp ace"]),
    ]
    for sp in (">", ">>", "e>", "e>>", "a>", "<") if thorough else (">", ">>", "e>", "<"):
        c = classify(sp)
        content = INPUT if c == "IN" else OLD
        for fname, text, words in forms:
            for kind in kinds:
                for pos in ("only", "first2" if c == "IN" else "last2"):
                    if kind == "unthr" and pos != "only":
                        continue
                    for cap in CAPTURES if thorough else ("bare", "$()"):
                        pre = {"g1a.txt": content, "g2a.txt": content, "g2b.txt": content, "p1": content, "p2": content, "sp ace": content}
                        neigh = _neighbour_sets(pos, ("ext",))[0]
                        add("tform", c, f"{sp} {fname}", kind, pos, cap, [{"op": sp, "target": text, "words": list(words)}], pre, neigh, True, "existing")
                        cases[-1]["env"] = dict(env)

    # 9. argv delivered == argv written: every spelling between two ordinary arguments
    #    (`cmd w1 o>err w2`); the stage echoes its argv, so an operator that is lexed short
    #    (`o>e` + stray `rr`), long (eats the next word) or glued to a neighbour shows up
    for sp in UNIVERSE:
        c = classify(sp)
        for lead in (False, True) if c == "IN" else (False,):
            for kind in kinds:
                pos = "first2" if c in ("A2P", "E2P") else "only"
                if kind == "unthr" and pos != "only":
                    continue
                for cap in ("bare", "$()"):
                    r = {"op": sp, "lead": lead}
                    pre = {}
                    if c in FILE_CLASSES:
                        r["target"] = "f"
                        pre = {"f": INPUT if c == "IN" else OLD}
                    neigh = _neighbour_sets(pos, ("ext",))[0]
                    add("argv", c, sp + ("(lead)" if lead else ""), kind, pos, cap, [r], pre, neigh, sp in DOCUMENTED, "existing" if pre else None)
                    st = cases[-1]["stages"][POSITIONS[pos][0] - 1]
                    st["args"], st["args_after"] = ["w1"], ["w2"]

    # 10. every source x destination name combination that is NOT an operator of the grammar
    #     (`a>o`, `o>out`, `e>2`, `>err`, `2>&2`, `o>&1` ...), generated from the documented name
    #     lists: without `&` it can only be the no-space form of `src>` with a file called like the
    #     destination (error, or exactly the spaced sibling); with `&` it must be rejected
    for src in OUT_NAMES + ERR_NAMES + ALL_NAMES:
        for amp in ("", "&"):
            for dst in ("o", "out", "1", "e", "err", "2"):
                op = f"{src}>{amp}{dst}"
                if op in UNIVERSE:
                    continue
                for kind in ("ext", "thr") if thorough else ("ext",):
                    if amp:
                        assert classify(op) is None, op
                        add("combo", "MAL", op, kind, "only", "bare", [{"op": op}], {}, (), True)
                    else:
                        c = classify(src + ">")
                        add("combo", c, op, kind, "only", "bare", [{"op": src + ">", "target": dst, "nospace": True}], {dst: OLD}, (), False, "existing")
                    cases[-1]["stages"][0]["args"], cases[-1]["stages"][0]["args_after"] = ["w1"], ["w2"]

    # 11. callable aliases that do not flush: 'lazy' (writes to stdout/stderr and returns) and 'ret'
    #     (hands its output back as the return value (out, err, 0)); whatever is still in the
    #     alias' stream wrappers when it returns must be delivered too
    lazy_caps = CAPTURES if thorough else ("bare", "$()")
    for style in ("lazy", "ret"):
        for c in ("NONE",) + CLASSES:
            for pos in PRODUCT_POS:
                for cap in lazy_caps:
                    redirs, pre = ([], {}) if c == "NONE" else redirs_for((c,))
                    neigh = _neighbour_sets(pos, ("ext",))[0]
                    add("lazy", c, CANON.get(c, ""), "thr", pos, cap, redirs, pre, neigh, True, "existing" if pre else None)
                    cases[-1]["meta"]["kind"] = f"thr.{style}"
                    cases[-1]["stages"][POSITIONS[pos][0] - 1]["style"] = style

    # 12. pipe-filling alias | slow consumer: the non-flushing alias first puts 64000 flushed bytes
    #     into the stream that feeds the pipe (the pipe is then full), leaves 4 KB + its O/E lines in
    #     the wrappers and returns; the consumer sleeps SLOW_SECONDS before it reads.  Everything
    #     must still arrive, in particular what a redirect sends to a FILE from that stage.
    out_sets = [(), ("ERR_W",), ("ERR_A",), ("ERR_W", "2>"), ("ERR_W", "err>"), ("E2O",), ("E2P",), ("A2P",)]
    err_sets = [("OUT_W", "E2P"), ("E2P", "OUT_W"), ("E2P",), ("A2P",), ("E2O",)]
    combos = []  # (bulk stream, classes/spellings, style, consumer kind, capture, position)
    for bulk, sets in (("out", out_sets), ("err", err_sets)):
        for cs in sets:
            if thorough:
                for style, ck, cap, pos in itertools.product(("lazy", "ret"), ("ext", "thr"), ("bare", "$()", "!()"), ("first2", "mid3", "first3")):
                    combos.append((bulk, cs, style, ck, cap, pos))
            else:
                combos.append((bulk, cs, "lazy", "ext", "bare", "first2"))
                combos.append((bulk, cs, "lazy", "thr", "$()", "first2"))
    for bulk, cs, style, ck, cap, pos in combos:
        if len(cs) == 2 and cs[1] in UNIVERSE:  # (class, explicit spelling)
            classes, spell = (cs[0],), cs[1]
        else:
            classes, spell = cs, None
        redirs, pre = redirs_for(classes)
        if spell:
            redirs[0]["op"] = spell
        t, n = POSITIONS[pos]
        add("slowpipe", "+".join(classes) or "NONE", " ".join(r["op"] for r in redirs), "thr", pos, cap, redirs, pre, (ck,) * (n - 1), True, "existing" if pre else None)
        case = cases[-1]
        case["meta"]["kind"] = f"thr.{style}.bulk-{bulk}|{ck}.slow"
        case["stages"][t - 1].update(style=style, bulk=bulk)
        case["stages"][t]["slow"] = True

    # 13. early-exit consumer x alias producer that keeps writing stdout AFTER the consumer left:
    #     the 'drip' alias writes stderr, then 6 flushed stdout chunks over ~0.9 s; with `o> f e>p`
    #     the pipe only carries stderr, so nothing stops the producer - f must be complete
    drip_sets = [("OUT_W", "E2P"), ("E2P", "OUT_W"), ("OUT_A", "E2P")]
    drip_combos = list(itertools.product(drip_sets, ("ext", "thr"), ("bare", "$()", "!()") if thorough else ("bare", "$()"), ("first2", "mid3") if thorough else ("first2",)))
    for classes, ck, cap, pos in drip_combos:
        redirs, pre = redirs_for(classes)
        t, n = POSITIONS[pos]
        add("earlyexit", "+".join(classes), " ".join(r["op"] for r in redirs), "thr", pos, cap, redirs, pre, (ck,) * (n - 1), True, "existing")
        case = cases[-1]
        case["meta"]["kind"] = f"thr.drip|{ck}.early"
        case["stages"][t - 1]["bulk"] = "drip"
        case["stages"][t]["early"] = True
    #     ... and the same with a SLOW first stage in front of the alias (mid3): the alias is still
    #     blocked reading its stdin when the last stage leaves
    for classes, ck, cap in itertools.product(drip_sets[:1] if not thorough else drip_sets, ("ext", "thr") if thorough else ("ext",), ("bare", "$()", "!()") if thorough else ("bare",)):
        redirs, pre = redirs_for(classes)
        t, n = POSITIONS["mid3"]
        add("earlyexit", "+".join(classes), " ".join(r["op"] for r in redirs), "thr", "mid3", cap, redirs, pre, (ck,) * (n - 1), True, "existing")
        case = cases[-1]
        case["meta"]["kind"] = f"{ck}.slow|thr.drip|{ck}.early"
        case["stages"][0]["slow"] = True
        case["stages"][t - 1]["bulk"] = "drip"
        case["stages"][t]["early"] = True

    # 14. quick tier only (thorough has the whole product for unthreadable aliases): `e>o` in every
    #     spelling on an unthreadable alias under the capturing forms, where stderr must follow
    #     stdout into the capture
    if not thorough:
        for sp in UNIVERSE:
            if classify(sp) == "E2O":
                for cap in ("$()", "!()", "@$()"):
                    add("product", "E2O", sp, "unthr", "only", cap, [{"op": sp}], {}, (), sp in DOCUMENTED)
    return cases


# ------------------------------------------------------------------ driver


def _run_one(case):
    res = H.run_case(case)
    if res.get("hang"):
        # a hang must be reproducible to count (the machine may be heavily loaded)
        res2 = H.run_case(case)
        if not res2.get("hang"):
            res = res2
    v = judge(case, res)
    out = {
        "verdict": None,
        "exec_s": res.get("exec_s", 0.0),
        "extra_threads": res.get("extra_threads", 0),
        "live_children": res.get("live_children", 0),
        "rejected": res.get("exc") is not None,
        "canon": None,
    }
    if v is not None:
        clause, sig, observed, expected = v
        out["verdict"] = {"clause": clause, "sig": sig, "observed": observed, "expected": expected}
    elif res.get("exc") is None:
        # canonical observation for the "all documented spellings are equivalent" comparison
        o = observe_sinks(case, res)
        out["canon"] = common.short_hash(
            [
                _lines(o[T1]),
                _lines(o[T2]),
                _lines(_norm_cap(o[CAPOUT])),
                _lines(o[CAPERR]),
                sorted((k, _lines(H.canon_text(v)) if isinstance(v, str) else v) for k, v in (res.get("files") or {}).items()),
            ]
        )
    return out


def _init_worker():
    H.warm_up()


def _ctx_key(case):
    m = case["meta"]
    return (m["class"], m["kind"], m["pos"], case["capture"], m["family"])


def _dim(case, dim):
    v = case["meta"].get(dim)
    if isinstance(v, list):
        return "-".join(v) or "-"
    return str(v)


def run(ctx):
    from . import tables
    from .session import get_execer

    tables.ensure_tables(completion=False)
    get_execer()
    H.warm_up()
    cases = gen_cases(ctx.thorough)
    # the live decoding tables must not admit a spelling the static universe does not know
    extra = _live_table_spellings() - set(UNIVERSE)
    if extra:
        ctx.violation(
            key="tables:unknown-spelling:" + ",".join(sorted(extra)),
            clause="all spellings of an operator are the documented ones",
            case={"spellings": sorted(extra)},
            observed=f"decoding tables / tokenizer admit {sorted(extra)}",
            expected="only the spellings enumerated in xv/c07.py UNIVERSE",
        )
    ctx.log(f"{len(cases)} cases ({len(UNIVERSE)} spellings)")
    # cases with a sleeping consumer are dispatched one per chunk so that they spread over all workers
    slow_idx = [i for i, c in enumerate(cases) if any(st.get("slow") or st.get("bulk") == "drip" for st in c["stages"])]
    slow_set = set(slow_idx)
    fast_idx = [i for i in range(len(cases)) if i not in slow_set]
    res = [None] * len(cases)
    for idxs, chunk in ((fast_idx, 8), (slow_idx, 1)):
        out = common.pmap(_run_one, [cases[i] for i in idxs], ctx.jobs, chunk=chunk, init=_init_worker, seed=ctx.seed)
        for i, r in zip(idxs, out):
            res[i] = r

    # ---- aggregate.  Keys:
    #   route failures   <class>:<kind>:<position>:<capture>:<signature>[:sp=only[..]][:target=only[..]][:neigh=only[..]]
    #                    NONE:<kinds of all stages>:<capture>:<signature>   when the redirect-free pipeline of
    #                    the same shape already fails with the identical signature
    #   reject failures  <class>:<kind>:reject:<signature>      (position/capture do not matter for detection)
    #   ROOT_TOUCH:*     one root cause whatever the operator
    # A failing case is first *minimised by lookup* (the simpler inputs are in the space too): a
    # pair / no-space / malformed case whose single-operator sibling fails in the same context is
    # counted under that sibling's key.
    def kind_of(sig):
        return "touch" if sig.startswith((ROOT_TOUCH, ROOT_READER)) else "reject" if sig.startswith("reject:") else "route"

    def shape(case):
        return "-".join(st["kind"] for st in case["stages"])

    sigs = [r["verdict"]["sig"] if r["verdict"] else None for r in res]
    base = {}  # (shape, capture) -> signature of the redirect-free pipeline
    single = {}  # (class, kind, pos, cap) -> index of the canonical single-operator case (all-ext neighbours)
    for idx, case in enumerate(cases):
        m = case["meta"]
        if m["family"] == "base":
            base[(shape(case), case["capture"])] = sigs[idx]
        elif m["family"] == "product" and m["spelling"] == CANON.get(m["class"]) and m.get("target") in (None, "existing") and all(x == "ext" for x in m["neigh"]):
            single[(m["class"], m["kind"], m["pos"], case["capture"])] = idx

    groups = {}
    for idx, case in enumerate(cases):
        groups.setdefault(_ctx_key(case), []).append(idx)
    keys = {}
    # pass 1: base and product cases get their own key
    for gk, members in groups.items():
        if gk[4] not in ("base", "product"):
            continue
        by_sig = {}
        for idx in members:
            sig = sigs[idx]
            if sig is None:
                continue
            case = cases[idx]
            if kind_of(sig) == "touch":
                keys[idx] = sig
            elif kind_of(sig) == "route" and base.get((shape(case), case["capture"])) == sig:
                keys[idx] = f"NONE:{shape(case)}:{case['capture']}:{sig}"
            elif kind_of(sig) == "reject":
                keys[idx] = f"{gk[0]}:{gk[1]}:{sig}"
            else:
                by_sig.setdefault(sig, []).append(idx)
        for sig, bad in by_sig.items():
            key = f"{gk[0]}:{gk[1]}:{gk[2]}:{gk[3]}:{sig}"
            for dim, label in (("spelling", "sp"), ("target", "target"), ("neigh", "neigh")):
                all_v = sorted({_dim(cases[i], dim) for i in members})
                bad_v = sorted({_dim(cases[i], dim) for i in bad})
                if bad_v != all_v:
                    key += f":{label}=only[" + " ".join(bad_v) + "]"
            for idx in bad:
                keys[idx] = key
    # pass 2: the other families, attributed to a failing single-operator sibling when there is one
    for idx, case in enumerate(cases):
        sig = sigs[idx]
        m = case["meta"]
        if sig is None or m["family"] in ("base", "product"):
            continue
        if kind_of(sig) == "touch":
            keys[idx] = sig
            continue
        if kind_of(sig) == "route" and base.get((shape(case), case["capture"])) == sig:
            keys[idx] = f"NONE:{shape(case)}:{case['capture']}:{sig}"
            continue
        # candidate simpler inputs: (class, stage kind, analogous product position)
        cands = []
        if m["family"] == "cross":
            for jpos, st in zip(("first2", "mid3", "last2"), case["stages"]):
                cands += [(classify(r["op"]), st["kind"], jpos) for r in st["redirs"]]
        else:
            cands = [(c, m["kind"].split(".")[0], POS_ANALOG.get(m["pos"], m["pos"])) for c in m["class"].split("+")]
        for c, knd, ps in cands:
            j = single.get((c, knd, ps, case["capture"]))
            if j is not None and sigs[j] is not None and kind_of(sigs[j]) == kind_of(sig):
                keys[idx] = keys[j]
                break
        else:
            if kind_of(sig) == "reject":
                keys[idx] = f"{m['class']}:{m['kind']}:{sig}" + (f":{m['spelling']}" if m["family"] in ("malformed", "nospace", "tform", "combo") else "")
            else:
                keys[idx] = f"{m['class']}:{m['kind']}:{m['pos']}:{case['capture']}:{sig}" + (f":{m['spelling']}" if m["family"] in ("malformed", "nospace", "tform", "combo") else "")
    n_viol_cases = len(keys)
    for idx in sorted(keys, key=lambda i: (len(keys[i]), keys[i], i)):
        case, v = cases[idx], res[idx]["verdict"]
        ctx.violation(key=keys[idx], clause=v["clause"], case={k: case[k] for k in case}, observed=v["observed"], expected=v["expected"], note="line: " + H.render(case).strip())
    # ---- equivalence of documented spellings (byte-identical observations up to the stated latitude)
    eq_groups = 0
    eq = {}
    for case, r in zip(cases, res):
        m = case["meta"]
        if m["family"] != "product" or r["canon"] is None or not m["documented"]:
            continue
        gk = (m["class"], m["kind"], m["pos"], case["capture"], _dim(case, "neigh"), _dim(case, "target"))
        eq.setdefault(gk, {}).setdefault(r["canon"], []).append(m["spelling"].replace("(lead)", ""))
    for gk, seen in eq.items():
        eq_groups += 1
        if len(seen) > 1:
            parts = sorted(sorted(set(v)) for v in seen.values())
            key = f"equiv:{gk[0]}:{gk[1]}:{gk[2]}:{gk[3]}:" + "!=".join(" ".join(p) for p in parts)
            ctx.violation(key=key, clause="all documented spellings of an operator are equivalent", case={"context": list(map(str, gk)), "partition": parts}, observed=f"observations partition the spellings into {parts}", expected="one class")

    # ---- evidence
    n = len(cases)
    fam_counts = {}
    for c in cases:
        fam_counts[c["meta"]["family"]] = fam_counts.get(c["meta"]["family"], 0) + 1
    nontrivial = sum(1 for c in cases if any(st["redirs"] for st in c["stages"]) or len(c["stages"]) > 1)
    expected_errors = sum(1 for c in cases if "error" in model(c))
    for idx in common.pick_samples(range(len(cases)), ctx.seed, 8):
        c = cases[idx]
        ctx.sample({"line": H.render(c).strip(), "pre": c["pre"], "reference": _exp_text(model(c)), "held": sigs[idx] is None, "key": keys.get(idx)})
    ctx.coverage.update(
        evaluations=n,
        distinct_nontrivial=nontrivial,
        rule=(
            f"every one of {len(UNIVERSE)} redirect spellings (documentation table + decoding tables + tokenizer map) x stage kinds "
            f"{'ext/thr/unthr' if ctx.thorough else 'ext/thr'} x positions only/first-of-2/last-of-2/middle-of-3 x neighbours "
            f"{'ext|thr (all combinations)' if ctx.thorough else 'ext'} x 6 capture forms x target missing/existing, plus all 121 ordered pairs of operator "
            "classes on one stage, the malformed/unusable-target list, the no-space forms and the tutorial's combined example; chains: every class / class pair "
            f"that is legal on a non-last stage on the first and middle stage of 3-stage pipelines{' and every non-last stage of 4-stage pipelines' if ctx.thorough else ''}; "
            f"cross: {'8 x 6 x 6' if ctx.thorough else '8 x 5 x 4'} redirect sets on stages 1/2/3 of one pipeline at once; target forms: 15 expansions (glob with 0,1,2 matches, regex-glob with 1,2 "
            f"matches, @(list) with 0,1,2 elements, @(tuple), @(str), @(''), $VAR, $VAR with a space, quoted names) x {6 if ctx.thorough else 4} file operators; each line executed by the real "
            "Execer in its own forked process with harness-owned fds 0/1/2; non-trivial = the line has at least one redirect or pipe"
        ),
        exhaustive=True,
        families=fam_counts,
        spellings=len(UNIVERSE),
        documented_spellings=len(DOCUMENTED),
        cases_expected_rejected=expected_errors,
        cases_rejected_by_xonsh=sum(1 for r in res if r["rejected"]),
        violating_cases=n_viol_cases,
        equivalence_groups_compared=eq_groups,
        cases_with_leftover_threads=sum(1 for r in res if r["extra_threads"]),
        cases_with_leftover_children=sum(1 for r in res if r["live_children"]),
        exec_seconds_total=round(sum(r["exec_s"] for r in res), 1),
        exec_seconds_max=round(max(r["exec_s"] for r in res), 2),
        bounds={"max_stages": 4 if ctx.thorough else 3, "redirects_per_stage": 2, "case_timeout_s": H.CASE_TIMEOUT},
    )
    ctx.assumptions += [
        "session configuration: THREAD_SUBPROCS=True, XONSH_INTERACTIVE=False, XONSH_CAPTURE_ALWAYS unset, terminal fds are regular files (not ttys)",
        "stages are well-behaved: read all stdin, write one stdout block then one stderr line, exit 0",
        "at most 3 stages (thorough: 4) and at most 2 redirects per stage; redirects on up to 3 stages at once only for the 288 'cross' sets",
        "xonsh's own `Exception('Unsupported redirect: ...')` counts as a reported error (it is how a multi-word target is rejected today)",
    ]


def _live_table_spellings():
    """What the tokenizer turns into a redirect token and the decoding tables accept, read from the
    tree under test (used only to notice spellings the static universe lacks)."""
    out = set()
    try:
        from xonsh.parsers import tokenize as tk
        from xonsh.procs import specs as sp

        out |= set(tk._redir_map)
        out |= set(tk._redir_check_single)
        out |= set(sp._E2O_MAP) | set(sp._O2E_MAP) | set(sp._A2P_MAP) | set(sp._E2P_MAP)
        for o in set(sp._REDIR_ALL) | set(sp._REDIR_ERR) | set(sp._REDIR_OUT):
            for mode, m in dict(sp._MODES).items():
                if m in ("w", "a"):
                    out.add(o + mode)
    except Exception as e:  # noqa: BLE001
        raise common.ToolError(f"cannot read the live decoding tables: {e}") from None
    return out


def replay(rec):
    from . import tables
    from .session import get_execer

    case = rec["case"]
    if "spellings" in case:  # tables:unknown-spelling
        extra = sorted(_live_table_spellings() - set(UNIVERSE))
        print("observed: live tables admit beyond the static universe:", extra)
        print("expected: []")
        return 1 if extra else 0
    if "context" in case:  # equiv:* - re-run every documented spelling of that context
        tables.ensure_tables(completion=False)
        get_execer()
        H.warm_up()
        klass, kind, pos, cap, neigh, target = case["context"]
        seen = {}
        for c in gen_cases(True):
            m = c["meta"]
            if m["family"] == "product" and m["documented"] and [m["class"], m["kind"], m["pos"], c["capture"], _dim(c, "neigh"), _dim(c, "target")] == [klass, kind, pos, cap, neigh, target]:
                r = _run_one(c)
                print(f"{H.render(c).strip()!r:50} -> {'violates: ' + r['verdict']['sig'] if r['verdict'] else 'observation ' + str(r['canon'])}")
                if r["canon"]:
                    seen.setdefault(r["canon"], []).append(m["spelling"])
        print("observed: partition", sorted(seen.values()))
        print("expected: one class")
        return 1 if len(seen) > 1 else 0
    tables.ensure_tables(completion=False)
    get_execer()
    H.warm_up()
    res = H.run_case(case)
    v = judge(case, res)
    print("line    :", repr(H.render(case)))
    print("pre     :", case.get("pre"))
    print("observed:", common.jdump(_obs_text(case, res)))
    print("expected:", common.jdump(_exp_text(model(case))))
    if v is None:
        print("verdict : holds")
        return 0
    print("verdict : VIOLATES -", v[0], "/", v[1])
    return 1
