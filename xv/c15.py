"""C15 - alias expansion terminates and preserves the user's arguments.

Bounded-exhaustive enumeration of *all* alias tables over a small name set (every graph shape:
self loops, 2- and 3-cycles, chains, decorator prefixes, return_command links), every
definition order, several invoked lines; the real Aliases.get / SubprocSpec.build are compared
with a boring reference expander written from the property statement."""

import itertools
import signal
import sys

from . import common
from .session import load_session

LEVEL = "exploration"

EXT = "ext"  # a word that is never an alias (and not on PATH)
DEC1, DEC2 = "@d1", "@d2"  # decorator aliases, always defined


class _Fn:
    """Tag for callable aliases so results are comparable across table instances."""


def _kinds(names, thorough):
    """All alias definitions a name can take.  ('undef',) first = simplest."""
    targets = list(names) + [EXT]
    kinds = [("undef",)]
    for t in targets:
        kinds.append(("list", (t,)))
    for t in targets:
        kinds.append(("list", (t, "x")))
    for t in targets:
        kinds.append(("str", t))  # "<t> 'q r'" through the string path
    kinds.append(("fn",))
    for t in targets:
        kinds.append(("ret", t))  # return_command -> [t, 'r', *args]
    for t in targets:
        kinds.append(("list", (DEC1, t, "y")))
    if thorough:
        for t in targets:
            kinds.append(("list", (DEC1, DEC2, t)))
        for t in targets:
            kinds.append(("retdrop", t))  # return_command that swallows the user's args
        # (a table entry that is itself a decorator alias is not enumerated: `Aliases.get` and
        # SubprocSpec.resolve_decorators treat a decorator typed as the command head differently by
        # design - the two fixed decorator aliases @d1/@d2 cover decorator collection)
    return kinds


def _lines(names, thorough):
    heads = list(names) if thorough else [names[0]]
    out = []
    for h in heads:
        out += [(h,), (h, "u1"), (h, "u1", "u2"), (DEC2, h, "u1")]
        # what the user typed reaches the command literally: the parser has already done the user's
        # expansions, an alias hop must not expand these words again
        out += [(h, "~", "k=~", "$XVC15", "*")]
        if thorough:
            out += [(DEC2, DEC1, h), (h, names[-1])]
    return out


# ---------------------------------------------------------------- reference (from the statement)


def ref_expand(table, line, trace=None):
    """table: name -> kind tuple.  Returns (result list, decorator names) where a callable is
    represented as ('fn', name).  'Expand the leading word repeatedly until it is no longer an
    unexpanded alias; each alias at most once per chain; user args after alias args; decorator
    aliases collected in order.'"""
    decs = []
    cur = list(line)
    # decorators typed by the user in front of the command
    while len(cur) > 1 and cur[0] in (DEC1, DEC2):
        decs.append(cur.pop(0))
    head = cur[0]
    if table.get(head, ("undef",))[0] == "undef":
        return None, decs  # not an alias at all
    seen = set()
    while True:
        while len(cur) > 1 and _is_dec(table, cur[0]):
            decs.append(cur.pop(0))
        head = cur[0]
        kind = table.get(head, ("undef",))
        if kind[0] == "undef" or head in seen:
            return cur, decs
        seen.add(head)
        if trace is not None:
            trace.append(kind[0])
        if kind[0] in ("fn", "dec"):
            return [(kind[0], head)] + cur[1:], decs
        if kind[0] == "list":
            cur = list(kind[1]) + cur[1:]
        elif kind[0] == "str":
            cur = [kind[1], "q r"] + cur[1:]
        elif kind[0] == "ret":
            cur = [kind[1], "r"] + cur[1:]
        elif kind[0] == "retdrop":
            cur = [kind[1], "r"]
        else:  # pragma: no cover
            raise AssertionError(kind)


def _expanded_user_words(table, line, obs, exp):
    """True iff the observed result equals the expected one EXCEPT that the literal words the user typed
    (`~`, `k=~`, `$XVC15`) came out path-/variable-expanded, and the chain went through a return_command
    alias.  (One root cause: the command such an alias hands back - the user's arguments included - is
    treated like the word list of a list alias and path-expanded again.)"""
    from xonsh.built_ins import XSH

    if not (isinstance(obs, tuple) and isinstance(obs[0], list) and isinstance(exp[0], list)) or obs[1] != exp[1]:
        return False
    tr = []
    ref_expand(table, line, tr)
    if "ret" not in tr and "retdrop" not in tr:
        return False
    m = {w: XSH.expand_path(w) for w in ("~", "k=~", "$XVC15")}
    return obs[0] == [m.get(w, w) if isinstance(w, str) else w for w in exp[0]] and obs[0] != exp[0]


def _is_dec(table, word):
    return word in (DEC1, DEC2) or table.get(word, ("undef",))[0] == "dec"


# ---------------------------------------------------------------- implementation side


def _mk_ret(t, drop):
    from xonsh.aliases import Aliases

    if drop:

        @Aliases.return_command
        def _rc(args):
            return [t, "r"]

    else:

        @Aliases.return_command
        def _rc(args):
            return [t, "r", *args]

    return _rc


def build_aliases(table, order, prelife=False):
    """prelife: every name of the table has been a decorator alias before it got its definition (or was
    deleted again): what a name was earlier must not matter."""
    from xonsh.aliases import Aliases
    from xonsh.procs.specs import SpecAttrDecoratorAlias

    al = Aliases()
    tags = {}
    if prelife:
        for n in order:
            al[n] = SpecAttrDecoratorAlias({}, "verif decorator (earlier life)", name=n)
        for n in order:
            if table[n][0] == "undef":
                del al[n]
    defs = {DEC1: ("decfix",), DEC2: ("decfix",)}
    defs.update({n: table[n] for n in order})
    # decorators first or last depending on order parity: definition order must not matter
    keys = list(order)
    keys = [DEC1] + keys + [DEC2]
    for n in keys:
        kind = defs[n]
        if kind[0] == "undef":
            continue
        if kind[0] in ("decfix", "dec"):
            al[n] = SpecAttrDecoratorAlias({}, "verif decorator", name=n)
        elif kind[0] == "list":
            al[n] = list(kind[1])
        elif kind[0] == "str":
            al[n] = f"{kind[1]} 'q r'"
        elif kind[0] == "fn":

            def _f(args, stdin=None):
                return 0

            al[n] = _f
        elif kind[0] in ("ret", "retdrop"):
            al[n] = _mk_ret(kind[1], kind[0] == "retdrop")
        tags[n] = kind[0]
    return al


def _norm_result(al, res):
    from xonsh.procs.specs import DecoratorAlias

    if res is None:
        return None
    out = []
    for x in res:
        if callable(x):
            name = next((k for k in al._raw if al._raw[k] is x), "?")
            out.append(("dec" if isinstance(x, DecoratorAlias) else "fn", name))
        else:
            out.append(x)
    return out


def _norm_decs(al, decs):
    return [next((k for k in al._raw if al._raw[k] is d), "?") for d in decs]


def test_c15_build(SubprocSpec, line):
    # SubprocSpec.resolve_stack() asserts that the frame three levels up is run_subproc (or a test_*
    # function) when the alias wants a `stack` argument: give it the frame layout it expects
    return (lambda: SubprocSpec.build(line))()


class _Timeout(Exception):
    pass


def _alarm(signum, frame):
    raise _Timeout()


def _observe(fn, limit=5.0):
    """Run fn under a wall-clock alarm; return ('ok', value) | ('exc', type name)."""
    signal.signal(signal.SIGALRM, _alarm)
    signal.setitimer(signal.ITIMER_REAL, limit)
    try:
        return ("ok", fn())
    except _Timeout:
        return ("hang", f"no result within {limit} s")
    except RecursionError:
        return ("exc", "RecursionError")
    except Exception as e:  # noqa: BLE001
        return ("exc", f"{type(e).__name__}: {e}"[:200])
    finally:
        signal.setitimer(signal.ITIMER_REAL, 0)


_NAMES = None
_LINES = None
_ORDERS = None
_THOROUGH = False


_REFUTED = [0]


def _check_table(kinds_tuple):
    """One alias table: every definition order x every invoked line."""
    from xonsh.built_ins import XSH
    from xonsh.procs.specs import SubprocSpec

    if _REFUTED[0] >= 40:
        # this worker has already found 40 violating tables: the property is refuted, the remaining
        # tables are skipped (slow failure modes - hangs caught by the alarm - would otherwise make the
        # check run for hours on a broken tree)
        return {"viols": [], "evals": 0, "nontrivial": 0, "skipped": 1}
    names = _NAMES
    table = dict(zip(names, kinds_tuple))
    viols = []
    n_eval = 0
    nontrivial = 0
    for line in _LINES:
        exp_res, exp_decs = ref_expand(table, line)
        # the part Aliases.get sees (SubprocSpec strips the user's leading decorators itself)
        stripped = list(line)
        user_decs = []
        while len(stripped) > 1 and stripped[0] in (DEC1, DEC2):
            user_decs.append(stripped.pop(0))
        first = None
        for oi, order in enumerate(_ORDERS):
            al = build_aliases(table, order, prelife=(oi == len(_ORDERS) - 1))
            XSH.commands_cache.aliases = al
            decs = []
            got = _observe(lambda: al.get(list(stripped), None, decorators=decs))
            n_eval += 1
            if got[0] == "ok":
                obs = (_norm_result(al, got[1]), user_decs + _norm_decs(al, decs))
            else:
                obs = got
            exp = (exp_res, exp_decs)
            if obs == exp and got[0] == "ok" and oi == 0 and "~" not in line:  # (eval_alias treats its argument as an alias BODY: those words are expanded by design)
                # the public resolver called directly (what sudo-style wrappers and `showcmd` do), twice:
                # no state may survive from one resolution to the next
                reps = []
                for _ in range(2):
                    d2 = []
                    g2 = _observe(lambda: al.eval_alias(list(stripped), decorators=d2))
                    n_eval += 1
                    reps.append((_norm_result(al, g2[1]), user_decs + _norm_decs(al, d2)) if g2[0] == "ok" else g2)
                want2 = exp if exp_res is not None else (list(stripped), exp_decs)
                if reps[0] != want2 or reps[1] != want2:
                    viols.append(
                        common.Violation(
                            key=f"eval_alias:{'state-survives-between-resolutions' if reps[0] != reps[1] or reps[0] == want2 else 'differs-from-get'}:{common.short_hash([table, line])}",
                            clause="expansion",
                            case={"table": {k: list(v) for k, v in table.items()}, "order": list(order), "line": list(line), "seam": "Aliases.eval_alias called twice"},
                            observed=repr(reps),
                            expected=repr(want2),
                        )
                    )
                    break
            if obs != exp:
                clause = "terminates" if got[0] != "ok" else ("order-independent" if first is not None and first == exp else "expansion")
                rootcause = clause == "expansion" and _expanded_user_words(table, line, obs, exp)
                viols.append(
                    common.Violation(
                        key="get:expansion:user-words-expanded-again-after-return_command" if rootcause else f"get:{clause}:{common.short_hash([table, line])}",
                        clause=clause,
                        case={"table": {k: list(v) for k, v in table.items()}, "order": list(order), "line": list(line), "seam": "Aliases.get"},
                        observed=repr(obs),
                        expected=repr(exp),
                    )
                )
                break
            if first is None:
                first = obs
            # SubprocSpec.build on the first and last definition order
            if oi in (0, len(_ORDERS) - 1):
                got = _observe(lambda: test_c15_build(SubprocSpec, list(line)))
                n_eval += 1
                if got[0] == "ok":
                    spec = got[1]
                    sdecs = _norm_decs(al, spec.decorators)
                    if callable(spec.alias):
                        sobs = ([_norm_result(al, [spec.alias])[0]] + list(spec.cmd), sdecs)
                    elif spec.alias is None:
                        sobs = (None if list(spec.cmd) == stripped else ["<cmd changed>"] + list(spec.cmd), sdecs)
                    else:
                        sobs = (list(spec.alias) if list(spec.alias) == list(spec.cmd) else ["<alias!=cmd>", list(spec.alias), list(spec.cmd)], sdecs)
                else:
                    sobs = got
                if sobs != exp:
                    viols.append(
                        common.Violation(
                            key="spec:user-words-expanded-again-after-return_command" if _expanded_user_words(table, line, sobs, exp) else f"spec:{common.short_hash([table, line])}",
                            clause="SubprocSpec.build agrees with the reference expander",
                            case={"table": {k: list(v) for k, v in table.items()}, "order": list(order), "line": list(line), "seam": "SubprocSpec.build"},
                            observed=repr(sobs),
                            expected=repr(exp),
                        )
                    )
                    break
        if exp_res is not None and len(exp_res) > len(stripped):
            nontrivial += 1
    if any("user-words-expanded-again-after-return_command" not in v.key for v in viols):
        _REFUTED[0] += 1
    return {"viols": [v.to_json() for v in viols], "evals": n_eval, "nontrivial": nontrivial, "skipped": 0}


def _init_worker():
    d = common.scratch_dir("c15")
    load_session(data_dir=d, path=[d], env={"XVC15": "EXPANDED-BY-AN-ALIAS-HOP", "HOME": d})


# ---------------------------------------------------------------- run-level recursion through exec aliases


def _run_cycles(ctx, threaded_modes=(True,), max_nodes=2):
    """ExecAlias (callable) cycles are not expanded at build time; running them must end with the
    documented 'Recursive calls' error or command-not-found, never a hang / RecursionError."""
    import io
    import contextlib

    from xonsh.built_ins import XSH

    d = common.scratch_dir("c15run")
    results = []
    # every functional graph on <=3 nodes where each alias is an exec alias "t && t2"; under two namings:
    # unrelated names, and names that contain one another (the call-stack guard compares names)
    shapes = []
    for names in (["a", "b", "c"], ["xx", "x", "xxx"]):
        for n in range(1, max_nodes + 1):
            ns = names[:n]
            for heads in itertools.product(ns + [EXT], repeat=n):
                shapes.append(dict(zip(ns, heads)))
    for shape, threaded in itertools.product(shapes, threaded_modes):
        first = next(iter(shape))
        load_session(data_dir=d, path=[d], env={"THREAD_SUBPROCS": threaded, "XONSH_SUBPROC_RAISE_ERROR": False})
        for n, t in shape.items():
            XSH.aliases[n] = f"{t} arg && {EXT}"  # '&&' forces ExecAlias
        err = io.StringIO()

        def go():
            with contextlib.redirect_stderr(err), contextlib.redirect_stdout(io.StringIO()):
                XSH.execer.exec(first + " u1\n", glbs=XSH.ctx, locs=None)
            return "returned"

        old = sys.getrecursionlimit()
        got = _observe(go, limit=60.0)  # a RecursionError through the parser takes seconds on a loaded machine
        sys.setrecursionlimit(old)
        text = err.getvalue()
        # the statement only obliges termination; which error is printed is not part of it
        ok = got[0] != "hang"
        if not ok:
            ctx.violation(
                key=f"run-cycle:{common.short_hash([shape, threaded])}",
                clause="recursion through callable aliases is reported, not a hang",
                case={"exec_aliases": shape, "line": first + " u1", "threaded": threaded},
                observed=[got, text[-400:]],
                expected="terminates with 'Recursive calls' / command not found",
            )
        # an acyclic chain runs to its end: reporting recursion there is wrong
        seen, cur = [], first
        while cur in shape and cur not in seen:
            seen.append(cur)
            cur = shape[cur]
        if ok and cur == EXT and "Recursive calls" in text:
            ctx.violation(
                key=f"run-chain:false-recursion-report:{'nested-names' if first == 'xx' else 'plain-names'}",
                clause="each alias at most once per chain - a chain without a cycle is expanded to its end",
                case={"exec_aliases": shape, "line": first + " u1", "threaded": threaded},
                observed=text[-300:],
                expected="the chain " + " -> ".join(seen + [EXT]) + " runs to its end (command not found: ext)",
            )
        results.append(({"graph": shape, "threaded": threaded}, got[0] + ("/recursive-calls-error" if "Recursive calls" in text else "/recursion-error" if "RecursionError" in text else "")))
    return results


# words that CONTAIN the letters of a chain operator / a redirect-free lookalike but are ordinary
# arguments: a string alias made of them is a plain word list (docs: a string alias is split like a
# command line; only real `and` / `or` / `&&` / `||` / pipes / redirects / substitutions make it a
# compound "exec" alias), so the user's arguments are appended and every word arrives unchanged
WORDLIKE = ["w", "a-and-b", "x-or-y", "band", "orc", "and-b", "a-or", "rock.and.roll", "or=1", "--and", "AND", "a/and/b", "c,or,d", "and:", "or+"]


def _run_wordlike(ctx):
    from xonsh.aliases import Aliases, ExecAlias
    from xonsh.built_ins import XSH

    maxlen = 3 if ctx.thorough else 2
    viols, n = [], 0
    for k in range(1, maxlen + 1):
        for seq in itertools.product(WORDLIKE, repeat=k):
            for sep in (" ", "  ", "\t"):
                if sep != " " and k == 1:
                    continue
                value = EXT + sep + sep.join(seq)
                al = Aliases()
                XSH.commands_cache.aliases = al
                got = _observe(lambda: (al.__setitem__("wl", value), al.get(["wl", "u1", "k=~"], None, decorators=[]))[1])
                n += 1
                exp = [EXT, *seq, "u1", "k=~"]
                obs = got[1] if got[0] == "ok" else got
                if isinstance(obs, list) and obs and isinstance(obs[0], ExecAlias):
                    obs = ["<ExecAlias %r>" % obs[0].src] + obs[1:]
                if obs != exp:
                    shape = "stored-as-exec-alias" if isinstance(obs, list) and obs and str(obs[0]).startswith("<ExecAlias") else "wrong-words"
                    word = next((w for w in seq if w != "w"), "w")
                    viols.append(common.Violation(key=f"wordlike:{shape}:{word}", clause="expansion", case={"alias_value": value, "line": ["wl", "u1", "k=~"], "seam": "Aliases.__setitem__ + Aliases.get"}, observed=repr(obs), expected=repr(exp)))
    ctx.add_violations(viols)
    return n


def run(ctx):
    global _NAMES, _LINES, _ORDERS, _THOROUGH
    names = ("a", "b", "c")
    _THOROUGH = ctx.thorough
    _NAMES = names
    kinds = _kinds(names, ctx.thorough)
    _LINES = _lines(names, ctx.thorough)
    _ORDERS = list(itertools.permutations(names))
    tables = list(itertools.product(kinds, repeat=len(names)))
    ctx.log(f"{len(kinds)} alias kinds/name -> {len(tables)} tables x {len(_ORDERS)} orders x {len(_LINES)} lines")
    res = common.pmap(_check_table, tables, ctx.jobs, chunk=64, init=_init_worker, seed=ctx.seed)
    skipped = sum(r.get("skipped", 0) for r in res)
    evals = sum(r["evals"] for r in res)
    nontrivial = sum(r["nontrivial"] for r in res)
    for r in res:
        ctx.add_violations(r["viols"])
    cyc = _run_cycles(ctx, threaded_modes=(True, False) if ctx.thorough else (True,), max_nodes=3 if ctx.thorough else 2)
    for t in common.pick_samples(tables, ctx.seed, 6):
        tb = dict(zip(names, t))
        ctx.sample({"table": {k: list(v) for k, v in tb.items()}, "line": list(_LINES[1]), "reference": repr(ref_expand(tb, _LINES[1]))})
    ctx.sample({"exec_alias_cycle": cyc[-1][0], "outcome": cyc[-1][1]})
    n_wl = _run_wordlike(ctx)
    ctx.coverage.update(
        wordlike_alias_values=n_wl,
        evaluations=evals + len(cyc) + n_wl,
        distinct_nontrivial=nontrivial,
        rule=f"all {len(tables)} assignments of {len(kinds)} alias kinds to names {names} (every graph shape incl. self-loops, 2/3-cycles, decorator prefixes, return_command links) x all {len(_ORDERS)} definition orders x {len(_LINES)} invoked lines through Aliases.get, plus SubprocSpec.build on first/last order; non-trivial = (table,line) pairs whose reference expansion is longer than the typed line; plus {len(cyc)} exec-alias cycle graphs executed for the run-time recursion clause",
        exhaustive=skipped == 0,
        tables_skipped_after_refutation=skipped,
        tables=len(tables),
        definition_orders=len(_ORDERS),
        lines=len(_LINES),
        exec_alias_graphs_run=len(cyc),
        bounds={"names": len(names), "kinds_per_name": len(kinds)},
    )
    ctx.assumptions += [
        "alias words are plain tokens (no path/env expansion inside alias values)",
        "return_command aliases are pure functions of their arguments",
    ]


def replay(rec):
    global _NAMES, _LINES, _ORDERS
    case = rec["case"]
    if "table" not in case:
        print("replay of run-cycle cases: re-run ./check C15")
        return 0
    _init_worker()
    from xonsh.built_ins import XSH

    table = {k: tuple(tuple(x) if isinstance(x, list) else x for x in v) for k, v in case["table"].items()}
    al = build_aliases(table, case["order"])
    XSH.commands_cache.aliases = al
    decs = []
    line = list(case["line"])
    exp = ref_expand(table, line)
    while len(line) > 1 and line[0] in (DEC1, DEC2):
        line.pop(0)
    got = _observe(lambda: al.get(list(line), None, decorators=decs))
    print("table   :", table)
    print("order   :", case["order"], "line:", case["line"])
    print("observed:", got if got[0] != "ok" else (_norm_result(al, got[1]), _norm_decs(al, decs)))
    print("expected:", exp)
    return 0
