"""Helper (not part of the check): rebuild findings_proposed/C18.json from the violation artefacts of a
C18 run on the unchanged tree.  usage: python -m xv.c18_findings [ARTEFACT_DIR ...]  (default out/C18).
Every key gets the concrete smallest failing case from its artefact plus a one-sentence root cause."""
import glob
import json
import os
import re
import sys

VERIF = os.path.dirname(os.path.dirname(os.path.abspath(__file__)))


def fam(style, shape, cls):
    parts = shape.split(".")
    closed = "closing-quote-after-cursor" in style
    st = style.split("+")[0]
    raw_typed = st.startswith(("r-", "pr-"))
    quotes = {"sq", "dq"}
    if closed and st in ("sq", "dq"):
        return "Root cause: a lone opening quote is not recognised as an empty partial string (_path_from_partial_string: literal_eval of the bare quote fails), so it is taken as a literal first character of the name; the completion replaces only the opening quote and the closing quote after the cursor (auto-paired quotes) is left dangling."
    if closed:
        return "Root cause: with the cursor before an already typed closing ''' _complete_path_raw compares one character (line[end]) with the 3-character quote, does not see it and appends a second closing quote."
    if parts[-1] == "sp" and cls == "wrong-value":
        return "Root cause: path._normpath() rstrip(' ')s every glob result, so a name ending in blanks completes to a shorter, different path (a name of only blanks to './')."
    if parts[-1] == "sp":
        return "Root cause: path._normpath() strips the trailing blank and the remaining name then hits a second quoting defect (quote character before the closing triple quote)."
    if "bang" in parts and st == "bare":
        return "Root cause: '!' is missing from completion_quoting._PATTERN, the name is inserted bare and xonsh splits the word at '!'."
    if st == "tsq" and parts[-1] == "sq":
        return "Root cause: inside a user-opened ''' a name ending in ' is written unescaped right before the closing ''' (four quotes): SyntaxError."
    if parts[-1] == "bslash" and (len(parts) < 2 or parts[-2] != "bslash") and cls == "wrong-value":
        return "Root cause: _quote_paths/_raw_quote double a trailing backslash inside a raw string, but in r'..\\\\' both backslashes are part of the value."
    if parts[-1] == "bslash" and cls in ("not-run", "wrong-value", "split"):
        return "Root cause: _quote_paths appends one backslash whenever the raw-string text ends in a backslash without checking parity; two trailing backslashes become three and the closing quote is escaped (SyntaxError / swallowed quote)."
    if raw_typed and set(parts) & quotes and not (set(parts) & {"bslash", "dollar"}):
        return "Root cause: continuing a raw string the user opened, the quote character is written as backslash-quote, but a raw string keeps the backslash in the value."
    if set(parts) & quotes and set(parts) & {"bslash", "dollar"}:
        return "Root cause: the name needs a raw string ('$' or backslash) and contains the chosen quote character; _quote_paths escapes the quote with a backslash that a raw string keeps (wrong value) or that a preceding literal backslash neutralises (SyntaxError)."
    if set(parts) & quotes and raw_typed:
        return "Root cause: a raw string cannot contain its own quote character; the backslash written before it stays in the value."
    if set(parts) & {"nl", "tab"}:
        return "Root cause: continuing a raw string the user opened, control characters are written as \\n / \\t escapes, which a raw string does not interpret."
    if "tilde" in parts and st.startswith("pr-"):
        return "Root cause: the completer treats every r-prefixed string as tilde-literal, but xonsh path strings (pr'...') expand '~'."
    if parts == ["tilde"] and st in ("tsq", "p-sq"):
        return "Root cause: the literal-'~' special case in _complete_path_raw strips one quote character per side when it looks for the candidate '~', so inside \'\'\' / p' the plain-quoted completion survives and xonsh expands it to $HOME."
    if "tilde" in parts and "eq" in parts:
        return "Root cause: xonsh expands '~' next to '=' (option=~ handling) in bare words and non-raw strings; the completer does not use a raw string for such names."
    if parts[0] == "eq" and st == "bare":
        return "Root cause: '=' is not in the needs-quoting pattern and `cmd =name` is parsed as a Python assignment."
    return None


def main(dirs):
    recs = {}
    for d in dirs:
        for p in sorted(glob.glob(os.path.join(d, "*.json"))):
            r = json.load(open(p))
            k = r["key"]
            if k not in recs or len(json.dumps(r["case"])) < len(json.dumps(recs[k]["case"])):
                recs[k] = r
    out = []
    unknown = []
    for k in sorted(recs):
        r = recs[k]
        c = r["case"]
        if c["part"] == "analyser":
            if "no-token-before-line-continuation" in k:
                what = ("CompletionContextParser.parse('\\\\\\n', 0) (any text whose first recorded token is a backslash-newline: at the start, or after only newlines / a comment / '&&' / '||') raises AttributeError "
                        "'NoneType' object has no attribute 'end' in lexer.handle_error_linecont (state['last'] is None); expected a context or None.")
            elif "cursor-inside-line-continuation" in k:
                what = ("Cursor between the backslash and the newline of a line continuation: parse('a\\\\\\nb', 2) reports prefix 'ab', suffix '' although only 'a\\\\' precedes the cursor "
                        "(process_string_segment discounts only continuations wholly before the cursor); expected prefix 'a', suffix 'b'. "
                        + ("Seen through the prefix." if "command-prefix" in k else "Same defect seen through the suffix, e.g. parse('a\\\\\\n\\\\a', 2) gives suffix 'a' for the following text '\\\\a'."))
            elif "cursor-inside-subexpr-opener-after-line-continuation" in k:
                what = ("Cursor inside a sub-expression opener glued to a word that contains a line continuation: parse('a\\\\\\n$(', 4) (cursor between '$' and '(') reports prefix 'a$(' although '(' follows the cursor; "
                        "handle_command_arg falls back to cursor - span.start, which ignores the elided continuation. Without the continuation ('a$(', 2) the prefix is 'a$'.")
            elif "cursor-inside-triple-closing-quote" in k:
                what = ("Cursor inside a three-character closing quote: parse(\"''''''\", 4) (likewise (\"'''a'''\", 5)) reports the cursor as inside the string, before a complete closing ''' quote: "
                        "handle_command_arg's 'cursor is inside the closing quote' branch tests `>= len(opening+value+closing)` and is never taken; expected a prefix/suffix that split the closing quote at the cursor.")
            elif "hang:_tokenize:fstring-unterminated-at-newline" in k:
                what = ("CompletionContextParser.parse(\"f'\\n\", 0) never returns (likewise f\"..., rf', F' ...: any single-quoted f-string still open at a newline, at every cursor position): the tolerant tokenizer's PEP 701 "
                        "scanning loop in tokenize._tokenize spins forever, so pressing Tab on such a buffer freezes the prompt; expected a context or None.")
            elif "fstring-pieces" in k:
                what = (f"parse({c['text']!r}, {c['cursor']}): {r['observed']}. f-strings reach the analyser as FSTRING_START/MIDDLE/END pieces that it glues back from token values and positions "
                        + ("- a doubled brace '{{' / '}}' comes back as one character, so prefix + suffix no longer spell the word and at its end an empty prefix is reported"
                           if "doubled-brace" in k else
                           "- in a triple-quoted f-string that spans a newline the pieces after the newline are misplaced / repeated (e.g. prefix \"f'''\\n{\\n{\" for the text \"f'''\\n{\")")
                        + "; the same text without the f prefix is analysed correctly.")
            else:
                unknown.append(k)
                continue
        elif c["part"] == "roundtrip-dir":
            o = r["observed"]
            d = c["dir"]
            if "bang" in k:
                why = "'!' is missing from the needs-quoting pattern (same root cause as for a last component containing '!'); here it sits in a parent directory the completer expanded itself"
            elif ":eq." in k:
                why = "a word starting with '=' is inserted bare and the line is parsed as a Python assignment (same root cause as for a last component starting with '=')"
            elif ".sp/" in k:
                why = "path._normpath() strips blanks at the end of a component (same root cause as for a name ending in a blank); the subsequence match loses the rest of the path"
            elif c["route"] == "home" and "dollar" in k.split("/")[-1]:
                why = "a `~/`-relative candidate whose last component needs a raw string ('$' or backslash) is emitted as r'~/...', and xonsh does not expand '~' inside raw strings (the parent directory is irrelevant: it is $HOME)"
            elif ("sq" in k.replace(".", ":").replace("/", ":").split(":") or "dq" in k.replace(".", ":").replace("/", ":").split(":")):
                why = "the path needs a raw string ('$' or backslash somewhere in it) and contains the chosen quote character, which _quote_paths escapes with a backslash that a raw string keeps (same root cause as for a single name mixing quotes with '$' / backslash)"
            else:
                why = None
            if why is None:
                unknown.append(k)
                continue
            what = (f"directory {d!r} holding {c['file']!r}, line {c['line']!r} (route: {c['route']} - the completer expands the parent itself): completion {o['completion']!r} gives "
                    f"{o['spliced_line']!r}, which runs as {o['argv_calls']!r} instead of one argument naming <CWD>/{d}/{c['file']}. Root cause: {why}.")
        elif c["part"] == "roundtrip-multi":
            o = r["observed"]
            what = (f"directory with {c['names']!r}, line {c['line']!r} with the cursor at {c['cursor']}, candidates visited in the order {c['order']!r}: completion {o['completion']!r} gives "
                    f"{o['spliced_line']!r}, which runs as {o['argv_calls']!r} - none of the entries ({o['visiting_orders_failing']} of {o['visiting_orders_total']} visiting orders fail).")
        else:
            _, style, shape, cls, kinds = k.split(":")
            f = fam(style, shape, cls)
            if f is None:
                unknown.append(k)
                continue
            o = r["observed"]
            what = (f"{c['kind']} named {c['name']!r}, line {c['line']!r} with the cursor at {c['cursor']}: completion {o['completion']!r} gives {o['spliced_line']!r}, "
                    f"which runs as {o['argv_calls']!r} instead of [[{c['name']!r}]]. {f}"
                    + (" (Typed situation: the cursor sits right after an already closed quoted word, e.g. the empty literal; the open-quote form of the same input is not offered a completion.)"
                       if "cursor-after-closed-quote" in style else ""))
            what = re.sub(r"/dev/shm/xverif\.\d+/c18\.\d+\.\d+/home", "$HOME", what)
        out.append({"status": "open", "property": "C18", "key": k, "what": what})
    os.makedirs(os.path.join(VERIF, "findings_proposed"), exist_ok=True)
    with open(os.path.join(VERIF, "findings_proposed", "C18.json"), "w") as fh:
        json.dump(out, fh, indent=1, ensure_ascii=True)
        fh.write("\n")
    print("written", len(out), "entries; unclassified keys:", unknown)


if __name__ == "__main__":
    main(sys.argv[1:] or [os.path.join(VERIF, "out", "C18")])
