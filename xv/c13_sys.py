"""C13, JSON back end at syscall level: naming-agnostic crash / fault enumeration with strace.

The Python-level shims of xv/crashx.py see the file API calls the history module makes through ITS
`open` / `os` / `tempfile`.  Whatever reaches the kernel another way (shutil, pathlib, a raw fd) is
invisible to them.  Here a child process performs ONE history-rewriting operation of the JSON back end
on a copy of a prepared history directory under
    strace -f -y -e inject=<syscall>:signal=KILL:when=N      (the process dies AT that syscall)
    strace -f -y -e inject=<syscall>:error=<errno>:when=N    (the call fails, the code continues)
for EVERY mutating syscall (write, pwrite64, rename*, unlink*, ftruncate, sendfile, copy_file_range)
that the fault-free run issues on a file of the history directory or of $TMPDIR after its start marker.
$TMPDIR is deliberately on another file system than the history directory (/tmp vs /dev/shm).
Afterwards every xonsh-*.json history file must load with the real LazyJSON and equal its complete
previous or its complete new version."""

import os
import re
import shutil
import subprocess
import sys

from . import common

SYSCALLS = ["write", "pwrite64", "rename", "renameat", "renameat2", "unlink", "unlinkat", "ftruncate", "sendfile", "copy_file_range"]
ERRORS = {"write": ["ENOSPC", "EIO"], "pwrite64": ["ENOSPC"], "rename": ["EACCES"], "renameat": ["EACCES"], "renameat2": ["EACCES"], "unlink": ["EACCES"], "unlinkat": ["EACCES"], "ftruncate": ["EIO"], "sendfile": ["ENOSPC"], "copy_file_range": ["ENOSPC"]}

CHILD = r"""
import os, sys
op, datadir, tmpdir = sys.argv[1:4]
os.environ.update(HOME=datadir, XONSH_DATA_DIR=datadir, XONSH_CACHE_DIR=datadir, XONSH_CONFIG_DIR=datadir, TMPDIR=tmpdir)
import tempfile
tempfile.tempdir = None
from xonsh.built_ins import XSH
from xonsh.environ import Env
XSH.load(ctx={}, execer=None, env=Env({"UPDATE_OS_ENVIRON": False, "XONSH_DATA_DIR": datadir, "HISTCONTROL": set(), "XONSH_HISTORY_SAVE_CWD": False, "XONSH_STORE_STDOUT": False, "XONSH_HISTORY_BACKEND": "json", "PATH": []}))
import xonsh.history.json as J
import xonsh.lib.lazyjson
import time as _t
class _T:
    def __getattr__(self, n): return getattr(_t, n)
    @staticmethod
    def time(): return 5000.0
J.time = _T()
d = os.path.join(datadir, "history_json")
sess = os.path.join(d, "xonsh-sess.json")
os.write(2, b"MARK\n")
if op == "flush-exit":
    h = J.JsonHistory(filename=sess, sessionid="sess", buffersize=10, gc=False, save_cwd=False)
    h.append({"inp": "new1", "rtn": 0, "ts": [4500.0, 4500.5]})
    h.append({"inp": "new2 é", "rtn": 1, "ts": [4501.0, 4501.5]})
    h.flush(at_exit=True)
elif op == "delete":
    h = J.JsonHistory(filename=sess, sessionid="sess", buffersize=10, gc=False, save_cwd=False)
    h.delete("^(dup|old0)")
elif op == "erasedups":
    h = J.JsonHistory(filename=sess, sessionid="sess", buffersize=10, gc=False, save_cwd=False)
    h.erasedups()
elif op == "unlock":
    gc = J.JsonHistoryGC.__new__(J.JsonHistoryGC)
    gc.files(only_unlocked=True)
os.write(2, b"DONE\n")
"""

OPS = {"flush-exit": "one", "delete": "two", "erasedups": "two", "unlock": "stale"}
QUICK = ["delete", "unlock", "flush-exit"]

_ROOT = None
_TMP_OTHER_FS = None


def _env():
    e = dict(os.environ)
    e["PYTHONPATH"] = common.REPO
    e["PYTHONDONTWRITEBYTECODE"] = "1"
    e["PYTHONHASHSEED"] = "0"
    return e


def _setup():
    global _ROOT, _TMP_OTHER_FS
    from . import c13

    c13._setup()
    if _ROOT is None:
        _ROOT = common.scratch_dir("c13sys")
        with open(os.path.join(_ROOT, "child.py"), "w") as f:
            f.write(CHILD)
    return c13


def _other_fs_tmp(near):
    """A fresh directory on a file system other than `near`'s (falls back to the same one)."""
    base = "/tmp" if os.stat("/tmp").st_dev != os.stat(near).st_dev else ("/var/tmp" if os.path.isdir("/var/tmp") and os.stat("/var/tmp").st_dev != os.stat(near).st_dev else near)
    import tempfile

    return tempfile.mkdtemp(prefix="xv-c13sys-", dir=base), os.stat(base).st_dev != os.stat(near).st_dev


_LINE = re.compile(r"^(\d+)\s+(\w+)\((.*)$")


def _parse(log, roots):
    """-> ({syscall: [n, ...]}, {syscall: total}) : 1-based per-(process, syscall) invocation numbers, after the
    marker, that touch a path under one of `roots`.  Only the main process is considered (the
    operations of this part run synchronously)."""
    lines = open(log, errors="replace").read().splitlines()
    first_pid = None
    counts = {}
    sel = {}
    marked = False
    for ln in lines:
        m = _LINE.match(ln)
        if not m:
            continue
        pid, sc, rest = m.group(1), m.group(2), m.group(3)
        if first_pid is None:
            first_pid = pid
        if pid != first_pid or sc not in SYSCALLS:
            continue
        if "<unfinished" in ln and "resumed" not in ln:
            pass
        counts[sc] = counts.get(sc, 0) + 1
        if sc == "write" and '"MARK\\n"' in rest:
            marked = True
            continue
        if not marked or (sc == "write" and '"DONE\\n"' in rest):
            continue
        if any(r in rest for r in roots):
            sel.setdefault(sc, []).append(counts[sc])
    return sel, counts


def _run(op, state, inject):
    c13 = _setup()
    d = common.scratch_dir("sys")
    shutil.rmtree(d)
    shutil.copytree(os.path.join(c13._ROOT, "tpl", state), d)
    tmpd, other = _other_fs_tmp(d)
    log = os.path.join(_ROOT, f"strace-{os.getpid()}.log")
    cmd = ["strace", "-f", "-y", "-s", "16", "-o", log, "-e", "trace=" + ",".join(SYSCALLS)]
    if inject:
        cmd += ["-e", f"inject={inject}"]
    cmd += [sys.executable, "-B", os.path.join(_ROOT, "child.py"), op, d, tmpd]
    try:
        r = subprocess.run(cmd, env=_env(), capture_output=True, text=True, timeout=120)
        sel, counts = _parse(log, [d, tmpd]) if os.path.exists(log) else ({}, {})
        got, stray = c13._load_dir(d)
    finally:
        shutil.rmtree(tmpd, ignore_errors=True)
        shutil.rmtree(d, ignore_errors=True)
        if os.path.exists(log):
            os.unlink(log)
    return got, sel, r.returncode, r.stderr, other


_BASE = {}


def _case(item):
    op, state, sc, n, how = item
    c13 = _setup()
    pre, post = _BASE[op]
    inject = f"{sc}:signal=KILL:when={n}" if how == "kill" else f"{sc}:error={how}:when={n}"
    got, _, rc, err, _ = _run(op, state, inject)
    viols = []
    for name in sorted(set(pre) | set(post) | set(got)):
        g = got.get(name)
        if g is not None and (g == pre.get(name) or g == post.get(name)):
            continue
        if g is None and name not in pre:
            continue
        kind = c13._damage_kind(g, pre.get(name), post.get(name))
        viols.append(
            {
                "key": f"syscall:{op}:{name[6:-5]}:{'kill' if how == 'kill' else 'error'}:{sc}:{kind}",
                "clause": "each history file is its complete previous or complete new version",
                "case": {"tier": "syscall", "op": op, "state": state, "inject": inject},
                "observed": {name: g if not isinstance(g, tuple) else list(g)},
                "expected": {"previous": pre.get(name), "new": post.get(name)},
                "note": f"child rc={rc}; stderr tail: {err[-160:]!r}",
            }
        )
    return {"viols": viols}


def run_part(ctx):
    if shutil.which("strace") is None:
        ctx.assumptions.append("strace not available: JSON syscall-level part skipped")
        return None
    c13 = _setup()
    ops = list(OPS) if ctx.thorough else QUICK
    items = []
    summary = {}
    other_fs = None
    for op in ops:
        state = OPS[op]
        pre, _ = c13._load_dir(os.path.join(c13._ROOT, "tpl", state))
        post, sel, rc, err, other_fs = _run(op, state, None)
        if rc != 0 or "DONE" not in err:
            raise common.ToolError(f"fault-free {op} under strace failed rc={rc}: {err[-300:]}")
        if not sel:
            ctx.assumptions.append("strace recorded no history-file syscalls (ptrace refused?): JSON syscall-level part skipped")
            return None
        if post == pre:
            raise common.ToolError(f"syscall tier: {op} changed nothing - vacuous")
        # the recording must be reproducible: the numbering is what the injections rely on
        post2, sel2, _, _, _ = _run(op, state, None)
        if sel2 != sel or post2 != post:
            raise common.ToolError(f"syscall tier: two fault-free runs of {op} differ: {sel} vs {sel2}")
        _BASE[op] = (pre, post)
        summary[op] = {sc: len(ns) for sc, ns in sorted(sel.items())}
        for sc, ns in sorted(sel.items()):
            for n in ns:
                items.append((op, state, sc, n, "kill"))
                for e in ERRORS.get(sc, [])[: (None if ctx.thorough else 1)]:
                    items.append((op, state, sc, n, e))
    ctx.log(f"json syscall tier: {len(items)} fault cases; mutating syscalls on history/tmp files per op: {summary}; TMPDIR on another file system: {other_fs}")
    res = common.pmap(_case, items, ctx.jobs, chunk=2, init=_setup, seed=ctx.seed)
    for r in res:
        ctx.add_violations(r["viols"])
    ctx.sample({"tier": "syscall", "op": ops[0], "inject": "write:signal=KILL:when=<n>", "syscalls_after_marker": summary[ops[0]]})
    return {"evaluations": len(items), "distinct": len(items), "summary": {"ops": ops, "syscalls": summary, "cases": len(items), "tmpdir_on_other_filesystem": other_fs}}


def replay(rec):
    c = rec["case"]
    c13 = _setup()
    pre, _ = c13._load_dir(os.path.join(c13._ROOT, "tpl", c["state"]))
    post, _, _, _, _ = _run(c["op"], c["state"], None)
    _BASE[c["op"]] = (pre, post)
    sc, rest = c["inject"].split(":", 1)
    how = "kill" if "signal=KILL" in rest else rest.split("error=")[1].split(":")[0]
    n = int(rest.rsplit("when=", 1)[1])
    r = _case((c["op"], c["state"], sc, n, how))
    for v in r["viols"]:
        print("VIOLATION", v["key"], str(v["observed"])[:300])
    return 1 if r["viols"] else 0
