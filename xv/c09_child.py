"""C09 child-side harness: run ONE command line N times through the real `XSH.execer.exec` in a
freshly forked process and report what the *session* (the process) looks like before, after the
first and after the last repetition.

The case process owns its fds 0/1/2 (a /dev/null stdin and two scratch files standing in for
the terminal), is a session leader without controlling terminal, has Python's default SIGINT
handler installed and starts with exactly one thread.  Everything the oracle compares is read
from the operating system / interpreter, not from xonsh's own bookkeeping:

  fds        /proc/self/fd link targets, as a multiset of *kinds* (pipe, pty, file:<relpath>...)
  threads    threading.enumerate() minus the main thread (class name [target])
  children   /proc/self/task/*/children with the process state (Z = un-reaped)
  cwd, identity + closed-ness of sys.std* / sys.__std*__
  handlers   signal.getsignal for INT/TSTP/QUIT/WINCH (described, dead-thread methods marked)
  env        XSH.env.detype() minus the documented volatile variables
  Ctrl-C     os.kill(getpid(), SIGINT) must raise KeyboardInterrupt in the main thread

Fault injection: counting shims on the acquisition calls of the procs modules (os.pipe in
xonsh.procs.pipes, pty.openpty, the `open` used by specs.safe_open, subprocess.Popen.__init__,
threading.Thread.start).  A fault point is named (caller thread role, call label, ordinal among
the calls with that role and label) so that its identity does not depend on how helper threads
interleave with the main thread.
"""

import errno
import gc
import json
import os
import select
import signal
import sys
import threading
import time

from . import common

EXEC_ALARM = 20.0  # real-time alarm for the whole case in the child (a hang is an observation)
HARD_EXTRA = 8.0  # parent-side grace on top of the alarm before the child's session is killed
QUIESCE_S = 2.0  # real-time poll for helper threads to end / children to go away

VOLATILE_ENV = frozenset(
    {
        # documented per-command effects
        "LAST_RETURN_CODE",
        "_",
        "__THREAD_LOCAL__",
    }
)

# ------------------------------------------------------------------ scratch $PATH

SLEEP_S = 4.2  # > xonsh's 3 s bounded waits for upstream stages, by a margin
RETURN_GRACE_S = 0.3  # wind-down allowed to a stage after the command returned

_SCRIPTS = {
    # ok/fail outlive xonsh's spawn sequence (30 ms): whether a child happens to have exited
    # already when xonsh polls it once in passing must not decide the verdict
    "ok": "#!/bin/sh\necho ok\n/bin/sleep 0.03\nexit 0\n",
    "fail": "#!/bin/sh\n/bin/sleep 0.03\nexit 1\n",
    "big": "#!/bin/sh\nexec /usr/bin/seq 1 50000\n",  # ~289 KB, quickly
    "slowbig": "#!/bin/sh\nexec /usr/bin/yes c09c09c09c09c09c09c09c09c09c09c09\n",  # until SIGPIPE
    "killed": "#!/bin/sh\n/bin/sleep 0.03\nkill -9 $$\n",  # dies from a signal
    # lives SLEEP_S seconds and never touches its stdin/stdout: closing its pipe does not stop it
    "sleeper": "#!/bin/sh\nexec /bin/sleep %s\n" % SLEEP_S,
    "eat": "#!/bin/sh\nwhile IFS= read -r l; do :; done\nexit 0\n",
    # (head1 too outlives the spawn sequence, see ok/fail; its producer is still writing then)
    "head1": "#!/bin/sh\nIFS= read -r l\necho \"$l\"\n/bin/sleep 0.03\nexit 0\n",
}

_bindir = None


def make_bindir():
    """Scratch $PATH directory: the stage scripts, a non-executable file `noexec` and a directory
    `adir` named like commands (created once per process tree, before forking)."""
    global _bindir
    if _bindir is None:
        d = common.scratch_dir("c09bin")
        for name, text in _SCRIPTS.items():
            p = os.path.join(d, name)
            with open(p, "w") as f:
                f.write(text)
            os.chmod(p, 0o755)
        with open(os.path.join(d, "noexec"), "w") as f:
            f.write("#!/bin/sh\necho never\n")
        os.chmod(os.path.join(d, "noexec"), 0o644)
        os.makedirs(os.path.join(d, "adir"))
        _bindir = d
    return _bindir


# ------------------------------------------------------------------ callable aliases


def _a_ok(args, stdin=None, stdout=None, stderr=None):
    if stdin is not None:
        stdin.read()
    stdout.write("aok\n")
    return 0


def _a_raise(args, stdin=None, stdout=None, stderr=None):
    raise ValueError("c09 alias raises")


def _a_exit(args, stdin=None, stdout=None, stderr=None):
    raise SystemExit(3)


def _a_rc1(args, stdin=None, stdout=None, stderr=None):
    return 1


def _a_early(args, stdin=None, stdout=None, stderr=None):
    return 0  # reads no stdin, returns at once (its producer may still be writing)


def _a_big(args, stdin=None, stdout=None, stderr=None):
    line = "c09" * 13 + "\n"
    for _ in range(75):
        stdout.write(line * 100)  # 300 KB in all
    return 0


def _a_slowbig(args, stdin=None, stdout=None, stderr=None):
    """Writes until its reader goes away (the write then fails); bounded at 64 MB as a safety net."""
    chunk = ("c09" * 13 + "\n") * 100
    for _ in range(16000):
        stdout.write(chunk)
    return 0


def _a_sleep(args, stdin=None, stdout=None, stderr=None):
    time.sleep(SLEEP_S)  # a long-lived stage that never touches its pipe
    return 0


def _a_head1(args, stdin=None, stdout=None, stderr=None):
    line = stdin.readline() if stdin is not None else ""
    stdout.write(line)
    return 0


def _a_nest(args, stdin=None, stdout=None, stderr=None):
    """A callable alias that itself runs a captured command (`$(ok)` inside the alias): when the alias
    is threadable the inner pipeline is built and waited for OFF the main thread."""
    from xonsh.procs.specs import run_subproc

    out = run_subproc([["ok"]], captured="stdout")
    stdout.write("nest:" + str(out))
    return 0


ALIASES = {"nest": _a_nest, "ok": _a_ok, "raise": _a_raise, "exit": _a_exit, "rc1": _a_rc1, "early": _a_early, "big": _a_big, "slowbig": _a_slowbig, "sleep": _a_sleep, "head1": _a_head1}

# stage kind -> command word
WORD = {
    "ext_ok": "ok",
    "ext_fail": "fail",
    "ext_big": "big",
    "ext_slowbig": "slowbig",
    "ext_eat": "eat",
    "ext_sleep": "sleeper",
    "ext_killed": "killed",
    "ext_head1": "head1",
    "ext_nularg": "ok @('a\\x00b')",  # a NUL byte in argv: xonsh escapes it (_fix_null_cmd_bytes)
    "nosuch": "nosuchcmd",
    "nonexec": "noexec",
    "dir": "adir",
    "nonexec_rel": "./noexec",
}
for _n in ALIASES:
    WORD["thr_" + _n] = "t" + _n
    WORD["unthr_" + _n] = "u" + _n


def install_aliases(XSH):
    from xonsh.tools import unthreadable

    for name, fn in ALIASES.items():
        XSH.aliases["t" + name] = fn

        def _mk(f):
            def _unthr(args, stdin=None, stdout=None, stderr=None):
                return f(args, stdin=stdin, stdout=stdout, stderr=stderr)

            _unthr.__name__ = "_unthr_" + f.__name__
            return unthreadable(_unthr)

        XSH.aliases["u" + name] = _mk(fn)


# ------------------------------------------------------------------ rendering


def render(case):
    """xonsh source text of a case (pure function of stages/capture/redirect)."""
    stages = case["stages"]
    red = case["redirect"]
    parts = []
    n = len(stages)
    flag = case.get("flag") or "none"
    for i, kind in enumerate(stages):
        w = WORD[kind]
        if i == n - 1 and flag in ("@error_raise", "@error_ignore"):
            w = flag + " " + w  # only the last spec's raise_subproc_error is consulted
        if i == 0 and red == "<missing":
            w += " < missing.txt"
        if i == 0 and red == "a>p":
            w += " a>p"
        if i == n - 1 and red == ">out":
            w += " > out.txt"
        if i == n - 1 and red == "2>&1":
            w += " 2>&1"
        parts.append(w)
    line = " | ".join(parts)
    cap = case["capture"]
    if cap == "bare":
        return line + "\n"
    if cap == "$()":
        return f"__r = $({line})\n"
    if cap == "!()":
        return f"__r = !({line})\n__r.end()\n"
    if cap == "$[]":
        return f"$[{line}]\n"
    if cap == "![]":
        return f"__r = ![{line}]\n"
    raise AssertionError(cap)


# ------------------------------------------------------------------ fault injection shims


class _Shim:
    """Module look-alike: attribute lookups fall through to the real module."""

    def __init__(self, real, **over):
        self.__dict__["_real"] = real
        self.__dict__.update(over)

    def __getattr__(self, name):
        return getattr(self._real, name)


# three OSErrors with their own handling in specs._run_binary / none, and the non-OSErrors a spawn
# really raises (ValueError: embedded null byte in env/argv; TypeError: bad argument type)
POPEN_EXC = ("FileNotFoundError", "PermissionError", "EAGAIN", "ValueError", "TypeError")


def _make_exc(label, variant):
    e = _make_exc0(label, variant)
    e._c09_injected = True
    return e


def _is_injected(e):
    seen = 0
    while e is not None and seen < 8:
        if getattr(e, "_c09_injected", False):
            return True
        e = e.__cause__ or e.__context__
        seen += 1
    return False


def _make_exc0(label, variant):
    if label.startswith("Popen"):
        if variant == "FileNotFoundError":
            return FileNotFoundError(errno.ENOENT, "c09 injected: No such file or directory", "c09-injected")
        if variant == "PermissionError":
            return PermissionError(errno.EACCES, "c09 injected: Permission denied", "c09-injected")
        if variant == "ValueError":
            return ValueError("c09 injected: embedded null byte")
        if variant == "TypeError":
            return TypeError("c09 injected: expected str, bytes or os.PathLike object, not NoneType")
        return OSError(errno.EAGAIN, "c09 injected: Resource temporarily unavailable")
    if label.startswith("start"):
        return RuntimeError("can't start new thread")
    return OSError(errno.EMFILE, "c09 injected: Too many open files")


class Injector:
    """Counts acquisition calls per (thread role, label); raises at one chosen point."""

    def __init__(self, fault=None):
        self.fault = fault  # None | {"role":..., "label":..., "ordinal": n, "exc": variant}
        self.lock = threading.Lock()
        self.counts = {}
        self.log = []
        self.fired = 0
        self.main = threading.main_thread()

    def reset(self):
        with self.lock:
            self.counts = {}
            self.log = []

    def hit(self, label):
        cur = threading.current_thread()
        role = "main" if cur is self.main else type(cur).__name__
        with self.lock:
            k = (role, label)
            n = self.counts.get(k, 0)
            self.counts[k] = n + 1
            self.log.append([role, label, n])
            f = self.fault
            fire = f is not None and f["role"] == role and f["label"] == label and f["ordinal"] == n
            if fire:
                self.fired += 1
        if fire:
            raise _make_exc(label, f.get("exc"))


def _thread_label(t):
    cls = type(t).__name__
    if cls == "Thread":
        tgt = getattr(t, "_target", None)
        return "start:Thread[" + getattr(tgt, "__name__", "?") + "]"
    return "start:" + cls


def install_shims(inj):
    """Only ever called in the throw-away case process."""
    import pty
    import subprocess

    import xonsh.procs.pipes as xpipes
    import xonsh.procs.specs as xspecs

    real_pipe = os.pipe

    def pipe():
        inj.hit("pipe")
        return real_pipe()

    xpipes.os = _Shim(os, pipe=pipe)

    real_openpty = pty.openpty

    def openpty():
        inj.hit("openpty")
        return real_openpty()

    pty.openpty = openpty

    import builtins

    def _open(file, *a, **kw):
        if not isinstance(file, int):
            # label by the specs.py function that opens: safe_open = a redirect target,
            # parse_shebang_from_file / _is_binary = the script being inspected
            inj.hit("open@" + sys._getframe(1).f_code.co_name)
        return builtins.open(file, *a, **kw)

    xspecs.open = _open

    real_init = subprocess.Popen.__init__

    def popen_init(self, *a, **kw):
        inj.hit("Popen")
        return real_init(self, *a, **kw)

    subprocess.Popen.__init__ = popen_init

    real_start = threading.Thread.start

    def start(self):
        inj.hit(_thread_label(self))
        return real_start(self)

    threading.Thread.start = start


# ------------------------------------------------------------------ observation


def _fd_kind(target, work, base):
    if target.startswith("pipe:"):
        return "pipe"
    if target.startswith("socket:"):
        return "socket"
    if target.startswith("anon_inode:"):
        return target
    if target.startswith("/dev/pts/") or target == "/dev/ptmx":
        return "pty"
    if target.startswith(work + "/"):
        return "file:" + target[len(work) + 1 :]
    if target.startswith(base + "/"):
        return "file:<scratch>/" + target[len(base) + 1 :]
    return "file:" + target


def _fds(work, base):
    out = []
    try:
        names = os.listdir("/proc/self/fd")
    except OSError:
        names = []
    for n in names:
        try:
            t = os.readlink("/proc/self/fd/" + n)
        except OSError:
            continue  # the listing fd itself
        if t.startswith("/proc/") and t.endswith("/fd"):
            continue
        out.append(_fd_kind(t, work, base))
    return sorted(out)


def _children():
    """[(pid, state)] of direct children."""
    me = os.getpid()
    out = []
    try:
        tids = os.listdir("/proc/self/task")
    except OSError:
        tids = []
    for tid in tids:
        try:
            with open(f"/proc/self/task/{tid}/children") as f:
                pids = f.read().split()
        except OSError:
            continue
        for p in pids:
            try:
                with open(f"/proc/{p}/stat") as g:
                    state = g.read().rsplit(")", 1)[1].split()[0]
            except OSError:
                continue
            if int(p) != me:
                out.append((int(p), state))
    return sorted(set(out))


def _threads():
    main = threading.main_thread()
    out = []
    for t in threading.enumerate():
        if t is main:
            continue
        cls = type(t).__name__
        if cls == "Thread":
            tgt = getattr(t, "_target", None)
            cls += "[" + getattr(tgt, "__name__", "?") + "]"
        out.append(cls)
    return sorted(out)


def _describe_handler(h):
    if h is signal.default_int_handler:
        return "default_int_handler"
    if h is None:
        return "None"
    if isinstance(h, int):  # SIG_DFL / SIG_IGN (signal.Handlers is an IntEnum)
        try:
            return signal.Handlers(h).name
        except ValueError:
            return f"handler:{int(h)}"
    owner = getattr(h, "__self__", None)
    name = getattr(h, "__qualname__", None) or getattr(h, "__name__", None) or type(h).__name__
    if isinstance(owner, threading.Thread):
        alive = owner.is_alive()
        return f"{type(owner).__name__}.{getattr(h, '__name__', '?')}@{'alive' if alive else 'dead'}-thread"
    return f"callable:{name}"


_SIGS = ("SIGINT", "SIGTSTP", "SIGQUIT", "SIGWINCH")


def _stdio():
    out = {}
    for n in ("stdin", "stdout", "stderr", "__stdin__", "__stdout__", "__stderr__"):
        o = getattr(sys, n)
        out[n] = [id(o), bool(getattr(o, "closed", False)), type(o).__name__]
    return out


def _tty_state():
    """Who owns the controlling terminal (fd 2, the fd xonsh itself uses) and its attributes."""
    import termios

    try:
        owner = os.tcgetpgrp(2)
        attrs = termios.tcgetattr(2)
    except (OSError, termios.error) as e:
        return {"error": f"{type(e).__name__}: {e}"}
    attrs = [a if not isinstance(a, list) else [c.hex() if isinstance(c, bytes) else c for c in a] for a in attrs]
    return {"owner": "shell" if owner == os.getpgrp() else "other-process-group", "attrs": attrs}


def snapshot(XSH, work, base, tty=False):
    import subprocess

    gc.collect()
    getattr(subprocess, "_cleanup", lambda: None)()
    env = {k: v for k, v in XSH.env.detype().items() if k not in VOLATILE_ENV}
    try:
        cwd = os.getcwd()
    except OSError as e:
        cwd = f"<{type(e).__name__}>"
    return {
        "fds": _fds(work, base),
        "threads": _threads(),
        "children": [s for _p, s in _children()],
        "cwd": cwd,
        "stdio": _stdio(),
        "handlers": {s: _describe_handler(signal.getsignal(getattr(signal, s))) for s in _SIGS},
        "env": env,
        **({"tty": _tty_state()} if tty else {}),
    }


def _stages_running():
    """{'child': n, 'ProcProxyThread': m}: stage processes / alias threads running right now."""
    n = sum(1 for _p, st in _children() if st != "Z")
    m = sum(1 for t in threading.enumerate() if type(t).__name__ == "ProcProxyThread" and t.is_alive())
    return {"child": n, "ProcProxyThread": m}


def quiesce():
    """gc + real-time poll until no helper thread is alive and no child is still running (a
    zombie with no helper thread left will not be reaped by anybody: final)."""
    import subprocess

    deadline = time.time() + QUIESCE_S
    reap = getattr(subprocess, "_cleanup", None) or (lambda: None)
    while True:
        gc.collect()
        # children of already collected Popen objects are reaped by CPython itself on the next
        # Popen(): a pending finalizer like any other, so run it now
        reap()
        while (threading.active_count() > 1 or any(s != "Z" for _p, s in _children())) and time.time() < deadline:
            time.sleep(0.004)
        gc.collect()
        reap()
        busy = threading.active_count() > 1 or any(s != "Z" for _p, s in _children())
        if not busy or time.time() >= deadline:
            return


def ctrl_c_probe():
    """A self-sent SIGINT must surface as KeyboardInterrupt in the main thread promptly (a stale
    handler may swallow it, or blow up with something else: both are observations)."""
    try:
        os.kill(os.getpid(), signal.SIGINT)
        t_end = time.time() + 0.5
        while time.time() < t_end:
            time.sleep(0.01)
        return "no-KeyboardInterrupt"
    except KeyboardInterrupt:
        return "KeyboardInterrupt"
    except _CaseTimeout:
        raise
    except BaseException as e:  # noqa: BLE001
        return "raised-" + type(e).__name__


# ------------------------------------------------------------------ the child


class _CaseTimeout(BaseException):
    pass


_HANG_STACKS = []
_THREAD_DEATHS = []
_INJECTED_DEATHS = []


def _excepthook(args):
    """Passive: remember which helper thread died from which exception where (then default report)."""
    try:
        import traceback

        if _is_injected(args.exc_value):
            _INJECTED_DEATHS.append(type(args.thread).__name__)
            threading.__excepthook__(args)
            return
        tb = traceback.extract_tb(args.exc_traceback)
        inner = tb[-1] if tb else None
        xon = [f for f in tb if "/xonsh/" in f.filename]
        at = xon[-1] if xon else inner
        where = f"{os.path.basename(at.filename)}:{at.name}" if at else "?"
        err = args.exc_type.__name__
        if isinstance(args.exc_value, OSError) and args.exc_value.errno is not None:
            err += f"[{errno.errorcode.get(args.exc_value.errno, args.exc_value.errno)}]"
        _THREAD_DEATHS.append(f"{type(args.thread).__name__}:{err}@{where}")
    except Exception:  # noqa: BLE001
        pass
    threading.__excepthook__(args)


def _alarm(signum, frame):
    import traceback

    try:
        names = {t.ident: type(t).__name__ for t in threading.enumerate()}
        for ident, fr in sys._current_frames().items():
            st = traceback.extract_stack(fr)
            _HANG_STACKS.append(names.get(ident, "?") + ": " + " < ".join(f"{os.path.basename(f.filename)}:{f.lineno}:{f.name}" for f in reversed(st[-6:])))
    except Exception:  # noqa: BLE001
        pass
    raise _CaseTimeout()


def _noop_handler(signum, frame):
    pass


def _child(case, resfd, slave=None):
    """Runs in a freshly forked process; never returns.  With `slave` (a pty slave created by the
    parent, which drains the master) the case process becomes a session leader whose CONTROLLING
    terminal is that pty, on fds 0/1/2, like an interactive xonsh."""
    res = {}
    tty = slave is not None
    try:
        os.setsid()
        base = common.scratch_dir("c09case")
        work = os.path.join(base, "w")
        os.makedirs(work)
        os.chdir(work)
        t1 = os.path.join(base, "term1")
        t2 = os.path.join(base, "term2")
        if tty:
            import fcntl
            import termios

            fcntl.ioctl(slave, termios.TIOCSCTTY, 0)
            fd0, fd1, fd2 = os.dup(slave), os.dup(slave), os.dup(slave)
            os.close(slave)
        else:
            fd0 = os.open("/dev/null", os.O_RDONLY)
            fd1 = os.open(t1, os.O_WRONLY | os.O_CREAT | os.O_APPEND, 0o600)
            fd2 = os.open(t2, os.O_WRONLY | os.O_CREAT | os.O_APPEND, 0o600)
        try:
            sys.stdout.flush()
            sys.stderr.flush()
        except Exception:  # noqa: BLE001
            pass
        os.dup2(fd0, 0)
        os.dup2(fd1, 1)
        os.dup2(fd2, 2)
        for fd in (fd0, fd1, fd2):
            os.close(fd)
        sys.stdin = sys.__stdin__ = open(0, "r", closefd=False)
        sys.stdout = sys.__stdout__ = open(1, "w", closefd=False)
        sys.stderr = sys.__stderr__ = open(2, "w", closefd=False)
        signal.signal(signal.SIGINT, signal.default_int_handler)
        for s in ("SIGTSTP", "SIGQUIT", "SIGWINCH"):
            signal.signal(getattr(signal, s), signal.SIG_DFL)

        from xonsh.built_ins import XSH

        XSH.env["PWD"] = work
        XSH.env["OLDPWD"] = work
        if tty:
            # what xonsh.main sets up for an interactive shell on a terminal: no-op Python handlers
            # for SIGTTIN/SIGTTOU (main._handle_sig_ttin_ttou) and $XONSH_INTERACTIVE
            signal.signal(signal.SIGTTOU, _noop_handler)
            signal.signal(signal.SIGTTIN, _noop_handler)
            XSH.env["XONSH_INTERACTIVE"] = True
            if os.tcgetpgrp(2) != os.getpgrp():
                raise RuntimeError("case process does not own its controlling terminal")
        if case.get("flag") == "cmd_raise":
            XSH.env["XONSH_SUBPROC_CMD_RAISE_ERROR"] = True
        if case.get("flag") == "nulenv":
            # an exported variable with a NUL byte: every spawn fails with ValueError('embedded
            # null byte'), a NON-OSError, from inside subprocess.Popen (set before the baseline)
            XSH.env["C09_NUL"] = "a\x00b"
        install_aliases(XSH)
        inj = Injector(case.get("fault"))
        if case.get("shims", True):
            install_shims(inj)
        src = render(case)
        reps = int(case.get("reps", 3))
        # one warm-up of things that are created lazily once per process and then kept on purpose
        # would hide nothing here: the session was warmed in the parent.  Take the baseline.
        quiesce()
        if threading.active_count() != 1:
            raise RuntimeError(f"case process starts with helper threads: {threading.enumerate()}")
        probe0 = ctrl_c_probe()
        snaps = [snapshot(XSH, work, base, tty)]
        outcomes = []
        logs = []
        handed = []
        running_at_return = []
        threading.excepthook = _excepthook
        signal.signal(signal.SIGALRM, _alarm)
        signal.setitimer(signal.ITIMER_REAL, EXEC_ALARM)
        try:
            for _rep in range(reps):
                inj.reset()
                exc = None
                try:
                    XSH.execer.exec(src, glbs=XSH.ctx, locs=None, filename="<c09>")
                except _CaseTimeout:
                    raise
                except BaseException as e:  # noqa: BLE001 - any error is an allowed outcome
                    exc = type(e).__name__
                    del e
                outcomes.append(exc)
                logs.append(list(inj.log))
                # right when the command returns: is a foreground stage (child process or alias
                # thread) still running?  A short grace separates wind-down from 'returned early'.
                at_ret = _stages_running()
                if any(at_ret.values()):
                    time.sleep(RETURN_GRACE_S)
                    at_ret = _stages_running()
                running_at_return.append(at_ret)
                if tty:
                    # coverage only (not the oracle): did xonsh give the terminal away in this run?
                    handed.append(getattr(getattr(XSH, "lastcmd", None), "term_pgid", None) is not None)
                try:
                    sys.stdout.flush()
                    sys.stderr.flush()
                except Exception:  # noqa: BLE001
                    pass
                quiesce()
                if _rep == 0 or _rep == reps - 1:
                    snaps.append(snapshot(XSH, work, base, tty))
        except _CaseTimeout:
            res["hang"] = True
            res["hang_stacks"] = sorted(_HANG_STACKS)
        finally:
            signal.setitimer(signal.ITIMER_REAL, 0)
        res["outcomes"] = outcomes
        res["handed_over"] = handed
        res["running_at_return"] = running_at_return
        res["thread_deaths"] = sorted(set(_THREAD_DEATHS))
        res["injected_thread_deaths"] = sorted(set(_INJECTED_DEATHS))
        res["log"] = logs[0] if logs else []
        res["logs_equal"] = all(sorted(map(tuple, lg)) == sorted(map(tuple, logs[0])) for lg in logs) if logs else True
        res["fired"] = inj.fired
        res["snaps"] = snaps
        res["probe_before"] = probe0
        if not res.get("hang"):
            signal.setitimer(signal.ITIMER_REAL, 5.0)
            try:
                res["probe_after"] = ctrl_c_probe()
            except _CaseTimeout:
                res["probe_after"] = "probe-hung"
            finally:
                signal.setitimer(signal.ITIMER_REAL, 0)
        res["term2_tail"] = _tail(t2)
        for p, s in _children():
            try:
                os.kill(p, signal.SIGKILL)
            except OSError:
                pass
        import shutil

        os.chdir("/")
        shutil.rmtree(base, ignore_errors=True)
    except BaseException as e:  # noqa: BLE001 - harness problem, reported as such
        import traceback

        res = {"harness_error": f"{type(e).__name__}: {e}\n{traceback.format_exc()}"}
    try:
        data = json.dumps(res, default=repr).encode()
        os.write(resfd, data)
        os.close(resfd)
    finally:
        os._exit(0)


def _tail(p, n=400):
    try:
        with open(p, "rb") as f:
            return f.read().decode("utf-8", "replace")[-n:]
    except OSError:
        return None


# ------------------------------------------------------------------ the parent side

_warm = None


def warm_up():
    """Import everything a pipeline needs and build the session once, before forking per case."""
    from . import tables
    from .session import load_session

    global _warm
    make_bindir()
    if _warm == os.getpid():
        return
    first = _warm is None
    _warm = os.getpid()
    if not first:
        return  # a forked pmap worker inherits the warm session of its parent
    tables.ensure_tables()
    d = common.scratch_dir("c09warm")
    load_session(data_dir=d, path=[make_bindir()])
    import pty  # noqa: F401

    import xonsh.procs.pipelines  # noqa: F401
    import xonsh.procs.posix  # noqa: F401
    import xonsh.procs.proxies  # noqa: F401
    import xonsh.procs.readers  # noqa: F401
    import xonsh.procs.specs  # noqa: F401
    import xonsh.tools  # noqa: F401

    gc.collect()
    try:
        import ctypes

        ctypes.CDLL("libc.so.6").malloc_trim(0)
    except Exception:  # noqa: BLE001
        pass
    # everything alive now stays alive for the whole run (the warm session): keep it out of the
    # per-case collections, which then only look at what the command line created
    gc.freeze()


def _session_pids(sid):
    out = []
    for name in os.listdir("/proc"):
        if not name.isdigit():
            continue
        try:
            with open(f"/proc/{name}/stat") as f:
                fields = f.read().rsplit(")", 1)[1].split()
            if int(fields[3]) == sid:
                out.append(int(name))
        except (OSError, ValueError, IndexError):
            continue
    return out


def _proc_state(pid):
    try:
        with open(f"/proc/{pid}/stat") as f:
            return f.read().rsplit(")", 1)[1].split()[0]
    except (OSError, IndexError):
        return None


def tty_supported():
    """Can a forked child make a fresh pty its controlling terminal here?  (None = yes, else why not)"""
    import pty

    try:
        master, slave = pty.openpty()
    except OSError as e:
        return f"pty.openpty: {e}"
    pid = os.fork()
    if pid == 0:
        code = 0
        try:
            import fcntl
            import termios

            os.close(master)
            os.setsid()
            fcntl.ioctl(slave, termios.TIOCSCTTY, 0)
            if os.tcgetpgrp(slave) != os.getpgrp():
                code = 4
        except BaseException:  # noqa: BLE001
            code = 3
        finally:
            os._exit(code)
    os.close(slave)
    _, status = os.waitpid(pid, 0)
    os.close(master)
    rc = os.waitstatus_to_exitcode(status)
    return None if rc == 0 else f"setsid/TIOCSCTTY refused (probe exit {rc})"


def run_case(case):
    """Fork, run the case in the child, return its observation dict.  A child that does not answer
    in time - or that sits stopped by a terminal signal - is killed together with its whole
    session and reported as a hang (an observation).  For tty cases the parent owns the pty
    master and drains it, so nothing ever blocks on terminal output."""
    warm_up()
    r, w = os.pipe()
    master = slave = None
    if case.get("tty"):
        import pty

        master, slave = pty.openpty()
    sys.stdout.flush()
    sys.stderr.flush()
    pid = os.fork()
    if pid == 0:
        os.close(r)
        if master is not None:
            os.close(master)
        _child(case, w, slave)
        os._exit(0)
    os.close(w)
    if slave is not None:
        os.close(slave)
    chunks = []
    term = b""
    deadline = time.time() + EXEC_ALARM + HARD_EXTRA
    timed_out = False
    stopped_since = None
    watch = [r] + ([master] if master is not None else [])
    while True:
        left = deadline - time.time()
        if left <= 0:
            timed_out = True
            break
        ready, _, _ = select.select(watch, [], [], min(left, 0.5))
        if master in ready:
            try:
                b = os.read(master, 65536)
            except OSError:
                b = b""
            if b:
                term = (term + b)[-2000:]
            else:
                watch.remove(master)
        if r in ready:
            b = os.read(r, 65536)
            if not b:
                break
            chunks.append(b)
        if not ready and case.get("tty"):
            # a shell stopped by SIGTTOU/SIGTTIN/SIGTSTP cannot even run its own alarm
            if _proc_state(pid) == "T":
                stopped_since = stopped_since or time.time()
                if time.time() - stopped_since > 1.5:
                    timed_out = True
                    break
            else:
                stopped_since = None
    os.close(r)
    if timed_out:
        for p in _session_pids(pid) + [pid]:
            try:
                os.kill(p, signal.SIGKILL)
            except OSError:
                pass
    try:
        os.waitpid(pid, 0)
    except OSError:
        pass
    # whatever the command line left behind in the case's session must not outlive the case
    for p in _session_pids(pid):
        try:
            os.kill(p, signal.SIGKILL)
        except OSError:
            pass
    if master is not None:
        os.close(master)
    if timed_out:
        return {"hang": True, "hard": True, "stopped": stopped_since is not None, "snaps": [], "outcomes": [], "log": [], "fired": 0, "term2_tail": term.decode("utf-8", "replace")[-400:]}
    try:
        res = json.loads(b"".join(chunks).decode())
    except ValueError:
        raise common.ToolError(f"case child died without a result: {case!r}") from None
    if "harness_error" in res:
        raise common.ToolError(f"case child failed: {res['harness_error']}\ncase={case!r}")
    if master is not None:
        res["term2_tail"] = term.decode("utf-8", "replace")[-400:]
    return res
