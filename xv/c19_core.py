"""C19 shared rig: one in-process xonsh session, the real run_script_with_cache /
run_code_with_cache entry points, the uncached reference, cache-file inspection helpers.

Time is owned: every source / cache mtime is set with os.utime to BASE + <logical tick> whole
seconds (assumption: the file system keeps mtimes with at least 1 s granularity, and a cache file
written by a run carries the time of that run)."""

import builtins
import contextlib
import io
import marshal
import os
import shutil
import stat
import sys
import threading
import types

from . import caps, common
from .session import get_execer, load_session

BASE = 1_600_000_000  # mtime of logical tick 0 (whole seconds)
# One logical tick is 1/16 s (exactly representable in the float st_mtime the implementation compares),
# so consecutive ticks usually fall into the SAME wall-clock second: an implementation that compares
# freshness at a coarser granularity than the file system records is seen running stale code.
TICK_NS = 62_500_000


def stamp_ns(tick):
    return BASE * 1_000_000_000 + tick * TICK_NS


def utime_tick(path, tick, follow_symlinks=True):
    os.utime(path, ns=(stamp_ns(tick), stamp_ns(tick)), follow_symlinks=follow_symlinks)

# script bodies: pure Python / a bare subprocess line whose meaning depends on the names bound in
# the execution context (`rec -l` is `![rec -l]` unless `rec` and `l` are variables) / user exception
BODIES = [
    "x0 = 1\nprint('M0')\n",
    "print('M1')\nrec -l\nx1 = 1\n",
    "print('M2')\nx2 = 2\nraise KeyError('k2')\n",
]
# code strings (`-c` / stdin): CODES[0] equals script body 1; CODES[1] / CODES[2] differ in letter
# case only; the trailing expression statement is displayed in "single" mode but not in "exec" mode
CODES = [BODIES[1], "print('ka'); 7", "print('KA'); 7"]
MARKERS = {"M0": ("body", 0), "M1": ("body", 1), "M2": ("body", 2), "ka": ("code", 1), "KA": ("code", 2), "MO": ("other", 0)}
# a second, never edited real script that the symlink l.xsh can be re-pointed to (older than everything)
OTHER_BODY = "print('MO')\nxo = 1\n"
OTHER_TICK, LINK_TICK = 3, 5
# how a script is addressed: directly, through a symlink to the file, through a symlinked directory
# component, or through the same symlink re-pointed to the other real file
VIAS = {"direct": ("s.xsh", "s.xsh"), "link": ("l.xsh", "s.xsh"), "dirlink": ("ld/s.xsh", "s.xsh"), "link-other": ("l.xsh", "o.xsh")}
NAMESPACES = {"fresh": {}, "shadow": {"rec": 5, "l": 2}}
FOREIGN_MARK = "FOREIGN-ENTRY-EXECUTED"

ALL_OFF = (False, False, False, False)  # (Execer.scriptcache, Execer.cacheall, $XONSH_CACHE_SCRIPTS, $XONSH_CACHE_EVERYTHING)
ALL_ON = (True, True, True, True)
DEFAULT = (True, False, True, False)


def documented_enabled(kind, mode, sw):
    """Is the cache *unambiguously* enabled by the documented switches?  Only used to decide where a
    rebuild of a damaged entry is demanded (never for the equivalence oracle, which holds always)."""
    sc, ca, es, ee = sw
    if kind == "script" or mode == "exec":
        return sc and es  # defaults; --no-script-cache / $XONSH_CACHE_SCRIPTS=0 not given
    return ca and ee  # -c / interactive: --cache-everything and $XONSH_CACHE_EVERYTHING both set


class Rig:
    """One per process.  cwd is the source directory; the script is addressed as 's.xsh' (relative, as
    `xonsh s.xsh` does), so the compiled code object does not embed scratch path names."""

    SRC = "s.xsh"

    def __init__(self, tag="c19"):
        root = os.path.realpath(common.scratch_dir(tag))
        self.root = root
        self.data = os.path.join(root, "data")
        self.refdata = os.path.join(root, "refdata")
        self.srcdir = os.path.join(root, "src")
        self.probedata = os.path.join(root, "probedata")
        for d in (self.data, self.refdata, self.srcdir, self.probedata):
            os.makedirs(d)
        self.caps_ok = caps.drop_dac_caps()
        os.chdir(self.srcdir)
        self.xsh = load_session(data_dir=self.data, env={"XONSH_DEBUG": 0})
        self.execer = get_execer()
        import xonsh.codecache as cc

        self.cc = cc
        self.calls = []
        self.xsh.aliases["rec"] = self._rec
        self._ref = {}
        self._sim = {}
        self._disc = {}
        self.threads0 = threading.active_count()
        self.caps_ok = self.caps_ok and self._perm_probe()
        self.setup_links()

    def setup_links(self):
        """o.xsh (the other real script, old) and ld -> . (a symlinked directory component).  Symlinks
        carry their OWN logical mtime (lstat), older than every source and cache file."""
        o = os.path.join(self.srcdir, "o.xsh")
        with open(o, "w", encoding="utf-8") as f:
            f.write(OTHER_BODY)
        self.set_tick(o, OTHER_TICK)
        ld = os.path.join(self.srcdir, "ld")
        if not os.path.islink(ld):
            os.symlink(".", ld)
        utime_tick(ld, LINK_TICK, follow_symlinks=False)

    def address(self, via):
        """Prepare the addressing mode `via` and return (path to run, real file name).  The file symlink
        l.xsh is re-created for every run through it, so its target is not part of the state."""
        path, real = VIAS[via]
        if path == "l.xsh":
            l = os.path.join(self.srcdir, "l.xsh")
            if os.path.lexists(l):
                os.unlink(l)
            os.symlink(real, l)
            utime_tick(l, LINK_TICK, follow_symlinks=False)
        if not os.path.exists(os.path.join(self.srcdir, "o.xsh")) or not os.path.islink(os.path.join(self.srcdir, "ld")):
            self.setup_links()
        return path, real

    def _perm_probe(self):
        p = os.path.join(self.root, "probe")
        os.makedirs(p)
        os.chmod(p, 0o555)
        try:
            ok = not os.access(p, os.W_OK)
        finally:
            os.chmod(p, 0o755)
            os.rmdir(p)
        return ok

    def _rec(self, args, stdin=None):
        self.calls.append(list(args))
        return 0

    # ------------------------------------------------------------------ files
    def src_path(self):
        return os.path.join(self.srcdir, self.SRC)

    def write_source(self, text, tick):
        with open(self.src_path(), "w", encoding="utf-8") as f:
            f.write(text)
        self.set_tick(self.src_path(), tick)

    def read_source(self):
        with open(self.src_path(), encoding="utf-8") as f:
            return f.read()

    @staticmethod
    def set_tick(path, tick):
        utime_tick(path, tick)

    @staticmethod
    def get_tick(path):
        """The logical tick of a file, or None when its mtime was not set by the harness (wall clock)."""
        st = os.stat(path)
        d = st.st_mtime_ns - BASE * 1_000_000_000
        t = d // TICK_NS
        if d % TICK_NS or not (-1000 <= t <= 1_000_000):
            return None
        return t

    def discover(self, kind, text=None, mode="exec", via="direct"):
        """Where does the implementation keep the entry of this unit (the script / a code string run in
        a mode)?  Found BY EFFECT: one caching run (every switch on, fresh namespace) into an empty probe
        data directory; the one file that appears, relative to the data directory, is the answer.  The
        harness never re-implements the naming scheme, so two units share an entry exactly when the
        implementation makes them share a file."""
        key = (kind, text if kind == "code" else via, mode if kind == "code" else "exec")
        if key not in self._disc:
            script = None
            if kind == "script":
                if not os.path.exists(self.src_path()):
                    self.write_source(BODIES[0], 10)
                script = self.address(via)[0]
            self.wipe(self.probedata)
            r = self._run(self.probedata, kind, text, ALL_ON, "fresh", mode if kind == "code" else "exec", script=script)
            found = []
            for dp, _dns, fns in os.walk(self.probedata):
                for n in fns:
                    found.append(os.path.relpath(os.path.join(dp, n), self.probedata))
            self.wipe(self.probedata)
            if len(found) != 1:
                raise common.ToolError(f"a caching run of {key} (all switches on) wrote {sorted(found)} instead of exactly one cache file ({r}): the check would be vacuous")
            self._disc[key] = found[0]
        return self._disc[key]

    def entry_file(self, kind, text=None, mode="exec"):
        return os.path.join(self.data, self.discover(kind, text, mode))

    def wipe(self, d):
        self.make_writable(d)
        for name in os.listdir(d):
            p = os.path.join(d, name)
            if os.path.isdir(p) and not os.path.islink(p):
                shutil.rmtree(p)
            else:
                os.unlink(p)

    @staticmethod
    def make_writable(d):
        os.chmod(d, 0o755)
        for dp, dns, fns in os.walk(d):
            for n in dns:
                os.chmod(os.path.join(dp, n), 0o755)
            for n in fns:
                p = os.path.join(dp, n)
                if not os.path.islink(p):
                    os.chmod(p, 0o644)

    @staticmethod
    def make_readonly(d):
        for dp, dns, _ in os.walk(d):
            for n in dns:
                os.chmod(os.path.join(dp, n), 0o555)
        os.chmod(d, 0o555)

    # ------------------------------------------------------------------ running
    def _run(self, datadir, kind, text, sw, ns, mode, script=None):
        sc, ca, es, ee = sw
        env = self.xsh.env
        env["XONSH_DATA_DIR"] = datadir
        env["XONSH_CACHE_SCRIPTS"] = es
        env["XONSH_CACHE_EVERYTHING"] = ee
        ex = self.execer
        ex.scriptcache, ex.cacheall = sc, ca
        glb = dict(NAMESPACES[ns])
        del self.calls[:]
        out, err = io.StringIO(), io.StringIO()
        had_us = hasattr(builtins, "_")
        old_us = getattr(builtins, "_", None)
        escaped = exc = escaped_at = None
        # did the implementation COMPILE during this run?  (tells a recompile from a mere rewrite of the
        # loaded entry; by effect, through a counting wrapper on the module global)
        ncomp = [0]
        orig_compile = getattr(self.cc, "compile_code", None)
        if orig_compile is not None:

            def counting_compile(*a, **k):
                ncomp[0] += 1
                return orig_compile(*a, **k)

            self.cc.compile_code = counting_compile
        try:
            with contextlib.redirect_stdout(out), contextlib.redirect_stderr(err):
                if kind == "script":
                    r = self.cc.run_script_with_cache(script or self.SRC, ex, glb=glb, loc=None, mode="exec")
                else:
                    r = self.cc.run_code_with_cache(text, "<string>", ex, glb=glb, loc=None, mode=mode)
        except BaseException as e:  # noqa: BLE001 - escaping = fatal for the caller (main.py)
            escaped = type(e).__name__
            tb = e.__traceback__
            while tb is not None:  # innermost frame inside xonsh/codecache.py = where the cache layer failed
                if tb.tb_frame.f_code.co_filename.endswith("codecache.py"):
                    escaped_at = tb.tb_frame.f_code.co_name
                tb = tb.tb_next
            del tb
        else:
            if r is None:
                exc = "<run_compiled_code returned None: nothing was executed>"
            elif r[0] is not None:
                exc = f"{r[0].__name__}: {r[1]}"[:120]
        finally:
            if orig_compile is not None:
                self.cc.compile_code = orig_compile
            ex.scriptcache, ex.cacheall = True, False
            ex.filename = ex._default_filename
            if had_us:
                builtins._ = old_us
            elif hasattr(builtins, "_"):
                del builtins._
        if threading.active_count() != self.threads0:
            for t in threading.enumerate():
                if t is not threading.current_thread():
                    t.join(2)
            if threading.active_count() != self.threads0:
                raise common.ToolError("a run left a free-running thread behind")
        keys = {k: repr(v)[:40] for k, v in glb.items() if not k.startswith("__") and k not in NAMESPACES[ns]}
        res = {"stdout": out.getvalue(), "calls": [list(c) for c in self.calls], "exc": exc, "escaped": escaped, "ns": dict(sorted(keys.items()))}
        if escaped_at:
            res["escaped_at"] = escaped_at  # informational, not part of same_outcome()
        res["compiled"] = ncomp[0] if orig_compile is not None else None  # informational as well
        return res

    def run_real(self, kind, text, sw, ns, mode, script=None):
        return self._run(self.data, kind, text, sw, ns, mode, script=script)

    def reference(self, kind, text, ns, mode, script=None):
        """The uncached run: every switch off, an empty data directory, a fresh namespace.  `text` is
        the source as it is on disk at this moment (memoised by content)."""
        key = (kind, text, ns, mode)
        if key not in self._ref:
            if kind == "script":
                with open(os.path.join(self.srcdir, script or self.SRC), encoding="utf-8") as f:
                    if f.read() != text:
                        raise common.ToolError("reference asked for a text that is not the source on disk")
            r = self._run(self.refdata, kind, text, ALL_OFF, ns, mode, script=script)
            if os.listdir(self.refdata):
                self.wipe(self.refdata)
            if r["escaped"]:
                raise common.ToolError(f"uncached reference run failed: {r}")
            self._ref[key] = r
        return self._ref[key]

    def simulate(self, text, fname, comp_ns, comp_mode, run_ns):
        """What running bytecode compiled under (comp_ns, comp_mode) in namespace run_ns does (used only
        to *classify* a mismatch: 'the entry was compiled for another context / mode')."""
        key = (text, fname, comp_ns, comp_mode, run_ns)
        if key not in self._sim:
            src = text if text.endswith("\n") else text + "\n"
            code = self.execer.compile(src, glbs=dict(NAMESPACES[comp_ns]), locs=None, mode=comp_mode, filename=fname)
            glb = dict(NAMESPACES[run_ns])
            del self.calls[:]
            out = io.StringIO()
            had_us = hasattr(builtins, "_")
            old_us = getattr(builtins, "_", None)
            with contextlib.redirect_stdout(out), contextlib.redirect_stderr(io.StringIO()):
                r = self.cc.run_compiled_code(code, glb, None, comp_mode)
            if had_us:
                builtins._ = old_us
            elif hasattr(builtins, "_"):
                del builtins._
            exc = None if r is None or r[0] is None else f"{r[0].__name__}: {r[1]}"[:120]
            keys = {k: repr(v)[:40] for k, v in glb.items() if not k.startswith("__") and k not in NAMESPACES[run_ns]}
            self._sim[key] = {"stdout": out.getvalue(), "calls": [list(c) for c in self.calls], "exc": exc, "escaped": None, "ns": dict(sorted(keys.items()))}
        return self._sim[key]


# ---------------------------------------------------------------------- cache file inspection
def current_header():
    from xonsh import __version__ as xv
    from xonsh.platform import PYTHON_VERSION_INFO_BYTES

    return xv.encode() + b"\n" + bytes(PYTHON_VERSION_INFO_BYTES) + b"\n"


def foreign_header(kind):
    from xonsh import __version__ as xv

    vi = sys.version_info
    if kind == "xonsh":  # same Python, another xonsh release
        return b"0.0.0+other\n" + current_header().split(b"\n", 1)[1]
    if kind == "py":  # same xonsh, another Python (other minor version => other magic number)
        return xv.encode() + b"\n" + f"{vi[0]}.{vi[1] - 1}.{vi[2]}.final.0".encode() + b"\n"
    if kind == "py-level":  # same major.minor.micro, other release level
        return xv.encode() + b"\n" + f"{vi[0]}.{vi[1]}.{vi[2]}.candidate.1".encode() + b"\n"
    # stamps that are proper EXTENSIONS / proper PREFIXES of the running one, on one line at a time
    # (0.24.1 vs 0.24.10, 0.24.1.dev3, 0.24. - a comparison by startswith / prefix match accepts them)
    line, _, how = kind.partition("+")
    if how in EXTENSIONS and line in ("xonsh", "py"):
        l1, l2 = current_header().split(b"\n")[:2]
        cur = l1 if line == "xonsh" else l2
        new = cur[:-1] if how == "prefix" else cur + {"digit": b"0", "dev": b".dev3"}[how]
        if new == cur:
            raise AssertionError(kind)
        return (new + b"\n" + l2 + b"\n") if line == "xonsh" else (l1 + b"\n" + new + b"\n")
    raise AssertionError(kind)


EXTENSIONS = ("digit", "dev", "prefix")
NEAR_STAMPS = [f"{line}+{how}" for line in ("xonsh", "py") for how in EXTENSIONS]


def foreign_payload():
    """A loadable code object that must never run (real foreign bytecode could take the interpreter down)."""
    return marshal.dumps(compile(f"print({FOREIGN_MARK!r})\n", "<foreign>", "exec"))


def header_len(data):
    i = data.find(b"\n")
    if i < 0:
        return None
    j = data.find(b"\n", i + 1)
    if j < 0:
        return None
    return j + 1


def loads_code(payload):
    """True when the payload unmarshals to a code object (i.e. damage a loader cannot notice)."""
    try:
        return isinstance(marshal.loads(payload), types.CodeType)
    except Exception:  # noqa: BLE001
        return False


def entry_kind(path):
    """absent | dir | ok | foreign-xonsh | foreign-python | damaged, judged from the bytes alone."""
    try:
        st = os.lstat(path)
    except OSError:
        return "absent"
    if stat.S_ISDIR(st.st_mode):
        return "dir"
    try:
        with open(path, "rb") as f:
            data = f.read()
    except OSError:
        return "unreadable"
    cur = current_header()
    h = header_len(data)
    if h is None:
        return "damaged"
    if data[:h] == cur:
        return "ok" if loads_code(data[h:]) else "damaged"
    l1, l2 = data[:h].split(b"\n")[:2]
    c1, c2 = cur.split(b"\n")[:2]
    if l1 != c1 and l2 == c2:
        return "foreign-xonsh"
    if l1 == c1 and l2 != c2:
        return "foreign-python"
    return "damaged"


def same_outcome(a, b):
    return all(a[k] == b[k] for k in ("stdout", "calls", "exc", "escaped", "ns"))


def foreign_markers(out, own):
    """Markers of OTHER bodies / code strings that appear in an output."""
    return sorted(m for m in MARKERS if m != own and m in out["stdout"])
