"""C19 - cached bytecode never changes what a script does.

Part 1 (seqx, histories): breadth-first search over histories of
    edit(body) / touch(+1|-1 tick) / run(switches, namespace) / run-code(code, mode, switches, namespace) /
    rewrite-header(entry, other xonsh | other Python) / read-only cache dir / writable again / delete cache
on the REAL xonsh.codecache.run_script_with_cache / run_code_with_cache with a real Execer, a real
source file and a real $XONSH_DATA_DIR.  Switches = every combination of Execer(scriptcache, cacheall)
x $XONSH_CACHE_SCRIPTS x $XONSH_CACHE_EVERYTHING.  Time is a logical clock written with os.utime
(edit = +2 ticks, a cache file written by a run gets the current tick).  rewrite-header keeps the
entry's mtime and also swaps the payload for a loadable code object printing a tell-tale marker, so
that "never executed" is observable (and no real foreign bytecode is ever at risk of being run).
A second, smaller BFS (the symlink space) addresses the SAME script directly, through a symlink to the
file (l.xsh -> s.xsh), through a symlinked directory component (ld/s.xsh) and through the symlink
re-pointed to another, older real file; edits and touches hit the target, the links keep their own
(old, logical) lstat mtime.  The same small space has prepare(version) / install: the next version is
written elsewhere (mtime = that moment, time goes on) and later moved into place with its mtime
preserved - a source older than "now" but newer than the COMPILE of the entry, whatever cache hits
happened in between (whether a run compiled is observed through a counting wrapper on compile_code;
the model's entry tick is the compile tick, the file's mtime is tracked separately).  The main space also contains one run through the file symlink and
near-miss version stamps (proper extensions / prefixes of the running version on one line).
Cache files are located BY EFFECT (one probing cache-on run per unit into an empty directory), never
by re-deriving xonsh's naming: units (script / (code string, mode)) that land in one file are one
shared model entry, so a scheme that lets modes or code strings share an entry is judged behaviourally.
Oracle on every run: (stdout, recorded alias calls, user exception, new namespace entries, escaping
exception) equals the UNCACHED run (all switches off, empty data dir, fresh namespace) of the source
as it is on disk at that moment; a foreign-version entry is never executed, never fatal and - where
the cache is unambiguously enabled and writable - rebuilt.

Part 2 (xv/c19_fault.py, exhaustive corruption / crash enumeration): every truncation length,
zero-filled tails, directory / unreadable / foreign-version entries, and every crash point, torn
write and failing call of update_cache itself; the run (resp. the NEXT run) must equal the uncached
run and leave a valid entry.

Part 4 (xv/c19_names.py): different scripts never share an entry - every script name over a small
alphabet aimed at the path-escaping scheme; entries located by effect, colliding and targeted pairs run
in both orders against the uncached run.

Part 3 (xv/c19_proc.py): a small completely enumerated set of run ; event ; run ; run histories at
process level (`python -m xonsh s.xsh`, `-c`, --no-script-cache, --cache-everything through main.py).

Does not require:
  * anything about WHICH code runs while mtime(source) <= the moment the entry was COMPILED and the entry
    was compiled from an older text ("newer" only) - such runs are only required not to be fatal.  (A
    later re-write of the loaded entry does not move that moment: a source newer than the compile runs.)
  * detection of damage that still unmarshals to a code object (bit flips, NUL bytes in the last bytes):
    such entries are counted as "loaded flipped code: not judged" and their bytecode is never executed;
  * that the cache is used at all (a run that always recompiles is equivalent), nor that a stale or
    absent entry is (re)written; only damaged / foreign entries must be rebuilt, and only when the
    documented switches enable the cache without doubt and the directory is writable;
  * anything about stderr text, tracebacks, co_filename or timing;
  * the faulted run itself under an injected failing call (only the next run is judged)."""

import copy
import itertools
import json
import os
import re

from . import common, seqx, tables
from . import c19_core as core
from .c19_core import BODIES, CODES, DEFAULT, ALL_ON

LEVEL = "model_checking"

MODES = ("single", "exec")
# a unit = something that is run and may own a cache entry: the script, or a (code string, mode) pair.
# WHICH FILE holds a unit's entry is discovered by effect (core.Rig.discover); units that the
# implementation maps to one file form ONE shared entry of the model (with text / mode / namespace
# provenance), units with distinct files have distinct entries.  Nothing here knows the naming scheme.
# script units = the ways a script is addressed (core.VIAS): S directly, SL through the symlink l.xsh,
# SD through a symlinked directory component, OL = the same symlink re-pointed to the OTHER real file.
SCRIPT_UNITS = {"S": "direct", "SL": "link", "SD": "dirlink", "OL": "link-other"}
VIA_UNIT = {v: u for u, v in SCRIPT_UNITS.items()}
UNITS = list(SCRIPT_UNITS) + [f"C{j}:{mode}" for j in range(len(CODES)) for mode in MODES]
TEXT_PROV = re.compile(r"^[BC]\d+$")
OTHER_PROV = "B9"  # provenance label of the other real script (core.OTHER_BODY)
NEAR_HDR_QUICK = [("S", "xonsh+digit"), ("S", "py+prefix"), ("C1:single", "py+dev"), ("C1:single", "xonsh+prefix")]
NEAR_HDR_THOROUGH = [(u, k) for u in ("S", "C1:single") for k in ("xonsh+digit", "xonsh+prefix", "py+dev", "py+prefix")]
ALL_SW = [tuple(bool(b) for b in bits) for bits in itertools.product((1, 0), repeat=4)]
CODE_SW_QUICK = [(True, False, True, False), (True, True, True, False), (True, False, True, True), (True, True, True, True)]


def _sw(ev_sw):
    return tuple(bool(x) for x in ev_sw)


def mk_events(thorough, space="main"):
    evs = []
    for i in range(len(BODIES)):
        evs.append(["edit", i])
    evs.append(["touch", 1])
    evs.append(["touch", -1])
    if space == "links":
        # the symlink space: the same script addressed directly / through a symlink to the file / through a
        # symlinked directory / through the symlink re-pointed to another, older real file; edits and
        # touches always hit the TARGET s.xsh, the links keep their own old lstat mtime
        for via in ("direct", "link", "dirlink", "link-other"):
            evs.append(["run", list(DEFAULT), "fresh", via])
        evs.append(["run", list(core.ALL_OFF), "fresh", "link"])
        evs.append(["run", list(DEFAULT), "shadow", "link"])
        evs.append(["del"])
        # the next version is prepared ELSEWHERE (its mtime = the tick of that moment, then time goes on)
        # and later moved into place with that mtime preserved: a source that is older than "now" but
        # newer than the compile of the entry - whatever ran (and hit the cache) in between
        evs.append(["prepare", 1])
        evs.append(["install"])
        return evs
    for sw in ALL_SW:
        evs.append(["run", list(sw), "fresh"])
    evs.append(["run", list(DEFAULT), "shadow"])
    evs.append(["run", list(DEFAULT), "fresh", "link"])
    for j in range(len(CODES)):
        # the four cacheall x $XONSH_CACHE_EVERYTHING combinations for every code string and mode; in the
        # thorough tier all 16 combinations for code string 1 on the -c path (mode single) - the gating
        # cannot depend on the text
        for mode in MODES:
            code_sw = ALL_SW if (thorough and j == 1 and mode == "single") else CODE_SW_QUICK
            for sw in code_sw:
                evs.append(["code", j, mode, list(sw), "fresh"])
    for mode in ("single", "exec"):
        evs.append(["code", 0, mode, list(ALL_ON), "shadow"])
    for unit in UNITS:  # rewrite the header of the entry this unit uses (units sharing a file: offered once)
        for kind in ("xonsh", "py"):
            evs.append(["hdr", unit, kind])
    # near-miss stamps: proper extensions / proper prefixes of the running version, one line at a time
    # (all six variants x both entries are enumerated statically in part 2)
    for unit, kind in NEAR_HDR_THOROUGH if thorough else NEAR_HDR_QUICK:
        evs.append(["hdr", unit, kind])
    evs += [["ro"], ["rw"], ["del"]]
    return evs


def _text_of(prov):
    if prov == OTHER_PROV:
        return core.OTHER_BODY
    return BODIES[int(prov[1:])] if prov[0] == "B" else CODES[int(prov[1:])]


class Harness:
    def __init__(self, thorough=False, space="main"):
        self.rig = core.Rig("c19")
        self.space = space
        self.events = mk_events(thorough, space)
        self.m = None
        self.trail = []
        self._memo = {}
        self._pending = None
        rig = self.rig
        rig.write_source(BODIES[0], 10)
        rel = {}
        for u in UNITS:
            if u in SCRIPT_UNITS:
                rel[u] = rig.discover("script", via=SCRIPT_UNITS[u])
            else:
                j, mode = u[1:].split(":")
                rel[u] = rig.discover("code", CODES[int(j)], mode)
        self.entry_of = {}  # unit -> entry id (= the units sharing the file, joined in UNITS order)
        self.paths = {}  # entry id -> absolute path in the data directory
        self.units_of = {}
        for u in UNITS:
            us = [v for v in UNITS if rel[v] == rel[u]]
            eid = "+".join(us)
            self.entry_of[u] = eid
            self.paths[eid] = os.path.join(rig.data, rel[u])
            self.units_of[eid] = us
        self.entries = list(self.paths)
        self.initial = {"body": 0, "src": 10, "now": 10, "ro": False, "prep": None, "ent": {e: None for e in self.entries}}
        self.caps_ok = self.rig.caps_ok

    # ------------------------------------------------------------------ state (de)materialisation
    def _snapshot(self):
        self._materialise()
        files = {}
        data = self.rig.data
        for dp, _dns, fns in os.walk(data):
            for n in fns:
                p = os.path.join(dp, n)
                with open(p, "rb") as f:
                    files[os.path.relpath(p, data)] = (f.read(), self.rig.get_tick(p))
        return (copy.deepcopy(self.m), files)

    def _restore(self, snap):
        """Lazy: the snapshot is written to disk only when something looks at the state."""
        self._pending = snap
        self.m = snap[0]

    def _materialise(self):
        snap = self._pending
        if snap is None:
            return
        self._pending = None
        m, files = snap
        rig = self.rig
        rig.wipe(rig.data)
        for rel, (data, tick) in files.items():
            p = os.path.join(rig.data, rel)
            os.makedirs(os.path.dirname(p), exist_ok=True)
            with open(p, "wb") as f:
                f.write(data)
            if tick is None:
                raise common.ToolError(f"cache file {rel} has an mtime the harness did not set")
            rig.set_tick(p, tick)
        self.m = copy.deepcopy(m)
        rig.write_source(BODIES[m["body"]], m["src"])
        if m["ro"]:
            rig.make_readonly(rig.data)

    def reset(self):
        self._restore((self.initial, {}))
        self.trail = []

    def canon(self):
        self._materialise()
        m = self.m
        out = [m["body"], m["now"] - m["src"], m["ro"], None if m.get("prep") is None else [m["prep"]["body"], m["now"] - m["prep"]["tick"]]]
        known = set()
        for name in self.entries:
            p = self.paths[name]
            known.add(p)
            k = core.entry_kind(p)
            e = m["ent"][name]
            if k == "absent":
                out.append([name, None])
            elif e is None:
                out.append([name, k, "unaccounted"])
            elif any(u in SCRIPT_UNITS for u in self.units_of[name]):
                ft = self.rig.get_tick(p) if k != "dir" else None
                out.append([name, k, m["src"] - e["tick"], None if ft is None else m["src"] - ft, e["prov"], e["mode"], e["ns"], e.get("file")])
            else:
                out.append([name, k, e["prov"], e["mode"], e["ns"]])
        extra = []
        for dp, _dns, fns in os.walk(self.rig.data):
            for n in fns:
                if os.path.join(dp, n) not in known:
                    extra.append(n)
        out.append(sorted(extra))
        return out

    def menu(self):
        self._materialise()
        m = self.m
        out = []
        offered = set()
        for ev in self.events:
            op = ev[0]
            if op == "edit" and ev[1] == m["body"]:
                continue
            if op == "hdr":
                eid = self.entry_of[ev[1]]
                e = m["ent"][eid]
                if (eid, ev[2]) in offered or e is None or e["prov"] == "foreign:" + ev[2] or core.entry_kind(self.paths[eid]) == "absent":
                    continue
                offered.add((eid, ev[2]))
            if op == "prepare" and (m["prep"] is not None or ev[1] == m["body"]):
                continue
            if op == "install" and m["prep"] is None:
                continue
            if op == "ro" and m["ro"]:
                continue
            if op == "rw" and not m["ro"]:
                continue
            if op == "del" and (m["ro"] or not os.listdir(self.rig.data)):
                continue
            out.append(ev)
        return out

    # ------------------------------------------------------------------ transitions
    def step(self, ev, check):
        key = None
        if not check:
            key = common.jdump(self.trail + [ev])
            snap = self._memo.get(key)
            if snap is not None:
                self._restore(snap)
                self.trail.append(ev)
                return []
        viols = self._apply(ev, check)
        self.trail.append(ev)
        if key is not None:
            if len(self._memo) > 256:
                self._memo.clear()
            self._memo[key] = self._snapshot()
        return viols

    def _sig(self, path):
        try:
            st = os.lstat(path)
        except OSError:
            return None
        return (st.st_ino, st.st_size, st.st_mtime_ns, st.st_mode)

    def _apply(self, ev, check):
        self._materialise()
        m, rig = self.m, self.rig
        op = ev[0]
        if op == "edit":
            m["now"] += 2
            m["src"] = m["now"]
            m["body"] = ev[1]
            rig.write_source(BODIES[ev[1]], m["src"])
            return []
        if op == "prepare":
            m["now"] += 1
            m["prep"] = {"body": ev[1], "tick": m["now"]}
            m["now"] += 1
            return []
        if op == "install":
            m["body"], m["src"] = m["prep"]["body"], m["prep"]["tick"]
            m["prep"] = None
            rig.write_source(BODIES[m["body"]], m["src"])
            return []
        if op == "touch":
            m["src"] += ev[1]
            m["now"] = max(m["now"], m["src"])
            rig.set_tick(rig.src_path(), m["src"])
            return []
        if op == "ro":
            m["ro"] = True
            rig.make_readonly(rig.data)
            return []
        if op == "rw":
            m["ro"] = False
            rig.make_writable(rig.data)
            return []
        if op == "del":
            rig.wipe(rig.data)
            m["ent"] = {n: None for n in self.entries}
            return []
        if op == "hdr":
            name, kind = self.entry_of[ev[1]], ev[2]
            p = self.paths[name]
            tick = rig.get_tick(p)
            with open(p, "wb") as f:
                f.write(core.foreign_header(kind) + core.foreign_payload())
            rig.set_tick(p, tick)
            m["ent"][name] = {"tick": m["ent"][name]["tick"], "prov": "foreign:" + kind, "ns": None, "mode": None}
            return []
        script = real = None
        via = "direct"
        src_tick = m["src"]
        if op == "run":
            via = ev[3] if len(ev) > 3 else "direct"
            script, real = rig.address(via)
            kind, unit, mode, sw, ns = "script", VIA_UNIT[via], "exec", _sw(ev[1]), ev[2]
            if real == rig.SRC:
                text, prov = rig.read_source(), f"B{m['body']}"
                if text != BODIES[m["body"]]:
                    raise common.ToolError("source on disk is not the body the model believes")
            else:  # the other real file: never edited, older than everything
                text, prov, src_tick = core.OTHER_BODY, OTHER_PROV, core.OTHER_TICK
        elif op == "code":
            kind, unit, text, mode, sw, ns = "code", f"C{ev[1]}:{ev[2]}", CODES[ev[1]], ev[2], _sw(ev[3]), ev[4]
            prov = f"C{ev[1]}"
        else:
            raise AssertionError(ev)
        name = self.entry_of[unit]
        path = self.paths[name]
        pre_ent = copy.deepcopy(m["ent"][name])
        pre_kind = core.entry_kind(path)
        sigs = {n: self._sig(p) for n, p in self.paths.items()}
        obs = rig.run_real(kind, text, sw, ns, mode, script=script)
        # bookkeeping: which entries did the implementation (re)write / remove?
        for n, p in self.paths.items():
            s = self._sig(p)
            if s == sigs[n]:
                continue
            if s is None:
                m["ent"][n] = None
                continue
            if core.entry_kind(p) != "dir":
                rig.set_tick(p, m["now"])  # the FILE's mtime is the moment of this write, whatever was written
            if obs.get("compiled") == 0 and n == name and m["ent"][n] is not None:
                # nothing was compiled in this run: the implementation re-wrote what it had loaded.  The
                # model's tick is the tick of the COMPILE ("newer source" is judged against the moment the
                # bytecode was made from the source), so text / namespace / compile tick stay as they were
                continue
            m["ent"][n] = {"tick": m["now"], "prov": prov if n == name else f"written-by-{unit}", "ns": ns, "mode": mode, "file": real}
        for dp, _dns, fns in os.walk(rig.data):  # anything else the run wrote also happened "now"
            for n in fns:
                fp = os.path.join(dp, n)
                if rig.get_tick(fp) is None:
                    rig.set_tick(fp, m["now"])
        if not check:
            return []
        return self.judge(ev, kind, name, prov, text, mode, sw, ns, pre_ent, pre_kind, obs, via, script, real, src_tick)

    # ------------------------------------------------------------------ oracle
    def judge(self, ev, kind, name, prov, text, mode, sw, ns, ent, pre_kind, obs, via="direct", script=None, real=None, src_tick=None):
        m, rig = self.m, self.rig
        src_tick = m["src"] if src_tick is None else src_tick
        exp = rig.reference(kind, text, ns, mode, script=script)
        fname = rig.SRC if kind == "script" else "<string>"
        viols = []
        case = {"part": 1, "space": self.space, "op": ev, "entry": name, "entry_before": ent, "entry_kind_before": pre_kind, "source_tick": src_tick, "readonly": m["ro"]}
        if kind == "script":
            case.update(run_as=script, real_file=real, symlink_own_tick=core.LINK_TICK if via != "direct" else None)

        def V(clause, key, observed, expected, note=""):
            viols.append({"key": key, "clause": clause, "case": dict(case), "observed": observed, "expected": expected, "note": note})

        ro = "+readonly-dir" if m["ro"] else ""
        from_text = ent is not None and bool(TEXT_PROV.match(str(ent["prov"])))
        older_text = from_text and ent["prov"] != prov
        other_file = kind == "script" and from_text and ent.get("file") not in (None, real)
        if pre_kind == "absent":
            state = "no-entry"
        elif pre_kind in ("foreign-xonsh", "foreign-python", "damaged", "dir", "unreadable"):
            state = pre_kind
        elif other_file:
            state = "entry-of-other-script"  # two real files must never share: judged in full
        elif kind == "script" and ent is not None and ent["tick"] < src_tick:
            state = "older-entry"
        elif older_text and kind == "script":
            state = "not-older-entry-of-other-text"
        elif older_text:
            state = "entry-of-other-text"  # code strings must never share: judged in full
        else:
            state = "current-entry"
        if state == "not-older-entry-of-other-text":
            # mtime(source) <= mtime(cache) although the text differs: the statement only speaks about
            # a NEWER source.  Only a fatal outcome is judged.
            if obs["escaped"]:
                V("never fatal", f"cached-run-equals-uncached:{kind}:{state}{ro}:escaped-{obs['escaped']}", obs, exp)
            return viols
        if not core.same_outcome(obs, exp):
            sig = None
            if obs["escaped"]:
                sig = "escaped-" + obs["escaped"]
                state += ro
            elif core.FOREIGN_MARK in obs["stdout"]:
                sig = "executed-foreign-entry"
            elif from_text and pre_kind == "ok":
                if older_text:
                    old = rig.simulate(_text_of(ent["prov"]), fname, ent["ns"], ent["mode"], ns)
                    if core.same_outcome(obs, old):
                        sig = "stale" if kind == "script" and ent["prov"][0] == "B" and not other_file else "ran-other-text"
                elif ent["ns"] != ns or ent["mode"] != mode:
                    as_cached = rig.simulate(text, fname, ent["ns"], ent["mode"], ns)
                    if core.same_outcome(obs, as_cached):
                        ns_repaired = rig.simulate(text, fname, ns, ent["mode"], ns)
                        mode_repaired = rig.simulate(text, fname, ent["ns"], mode, ns)
                        if ent["mode"] == mode or core.same_outcome(ns_repaired, exp):
                            sig = "compiled-in-other-namespace"
                        elif ent["ns"] == ns or core.same_outcome(mode_repaired, exp):
                            sig = "compiled-in-other-mode"
                        else:
                            sig = "compiled-in-other-namespace-and-mode"
            if sig is None:
                own = {"B0": "M0", "B1": "M1", "B2": "M2", "B9": "MO", "C0": "M1", "C1": "ka", "C2": "KA"}[prov]
                others = core.foreign_markers(obs, own)
                if others:
                    sig = "ran-other-text"
                else:
                    sig = "differs"
                state += ro
            if via != "direct" and (sig in ("stale", "differs", "ran-other-text") or sig.startswith("escaped-")):
                state += f"+via-{via}"  # (the classified context findings keep their key however the script is addressed)
            V("a run with the cache equals the uncached run", f"cached-run-equals-uncached:{kind}:{state}:{sig}", obs, exp, note=f"switches(scriptcache,cacheall,$XONSH_CACHE_SCRIPTS,$XONSH_CACHE_EVERYTHING)={list(sw)} namespace={ns} mode={mode}")
        # rebuilt: foreign / damaged entries are replaced by a valid one where the cache is enabled for sure
        if pre_kind in ("foreign-xonsh", "foreign-python", "damaged") and not m["ro"] and core.documented_enabled(kind, mode, sw) and not obs["escaped"]:
            after = core.entry_kind(self.paths[name])
            if after != "ok":
                V("foreign or damaged entries are rebuilt", f"damaged-entry-is-rebuilt:{kind}:{pre_kind}:left-{after}", after, "ok", note=f"switches={list(sw)}")
        return viols

    def describe(self):
        self._materialise()
        return {"model": self.m, "entries_on_disk": {n: core.entry_kind(p) for n, p in self.paths.items()}}


_THOROUGH = False
_SPACE = "main"


def _factory():
    return Harness(_THOROUGH, _SPACE)


def run(ctx):
    global _THOROUGH
    _THOROUGH = ctx.thorough
    tables.ensure_tables()
    depth = ctx.pick(4, 6)
    # seqx checks the budget before each level; the last level costs about 3x everything before it, so
    # on an overloaded machine depth 6 is not started (reported as caps_hit / depth_completed 5)
    r = seqx.bfs(_factory, depth, ctx, budget_s=ctx.pick(40, 240), chunk=ctx.pick(2, 8))
    ctx.add_violations(r["violations"])
    h = seqx._H
    for s in r["sample_histories"]:
        ctx.sample({"part": 1, "history": s})
    # second, small history space: the script reached through symlinks (own alphabet, deeper)
    global _SPACE
    _SPACE = "links"
    ldepth = ctx.pick(5, 6)
    try:
        rl = seqx.bfs(_factory, ldepth, ctx, budget_s=ctx.pick(30, 200), chunk=ctx.pick(2, 8))
    finally:
        _SPACE = "main"
    ctx.add_violations(rl["violations"])
    hl = seqx._H
    for s in rl["sample_histories"][:2]:
        ctx.sample({"part": 1, "space": "links", "history": s})
    from . import c19_fault

    p2 = c19_fault.run_part(ctx)
    from . import c19_names, c19_proc

    p4 = c19_names.run_part(ctx)
    p3 = c19_proc.run_part(ctx)
    runs = sum(1 for e in h.events if e[0] in ("run", "code"))
    ctx.coverage.update(
        states=r["states"] + rl["states"],
        transitions=r["transitions"] + rl["transitions"] + p2["evaluations"],
        traces_validated_against_impl=r["transitions"] + rl["transitions"] + p2["evaluations"],
        depth_completed=r["depth_completed"],
        depth_requested=depth,
        exhaustive=r["exhaustive"] and rl["exhaustive"] and p2["exhaustive"],
        caps_hit=r["capped"] or rl["capped"],
        symlink_space={"states": rl["states"], "transitions": rl["transitions"], "depth_completed": rl["depth_completed"], "depth_requested": ldepth, "level_sizes": rl["level_sizes"], "alphabet": len(hl.events), "events": hl.events, "exhaustive": rl["exhaustive"]},
        main_space_states=r["states"],
        level_sizes=r["level_sizes"],
        history_transitions=r["transitions"] + rl["transitions"],
        alphabet=len(h.events),
        cache_entries_discovered_by_effect=h.entries,
        run_events_in_alphabet=runs,
        switch_combinations=len(ALL_SW),
        fault_part=p2["summary"],
        fault_cases=p2["evaluations"],
        process_level_part=p3,
        script_names_part=p4,
        permission_bits_bind=h.caps_ok,
        explanation="part 1: every transition is an execution of the real run_script_with_cache / run_code_with_cache (or a file-system event) on a real source file and cache directory; a state is (body, now-source tick, read-only flag, per entry: kind read from the bytes, source-cache tick distance, text / namespace / mode it was compiled from).  The implementation keeps no in-memory state between runs, so prefixes are re-materialised from byte-exact snapshots of the cache directory after their first real execution.  part 2: every listed corruption / fault case is one or more real runs compared with the uncached run",
    )
    if not h.caps_ok:
        ctx.assumptions.append("capset refused: read-only directories / unreadable files do not bind in this run")
    ctx.assumptions += [
        "mtimes are set with os.utime from a logical clock of 1/16 s ticks, so neighbouring ticks share a wall-clock second (file system granularity <= 62.5 ms assumed); an edit makes the source 2 ticks newer than anything existing; a cache file written by a run carries the tick of that run",
        "scripts are addressed by the relative name `s.xsh` from their directory, as `xonsh s.xsh` does",
        "rebuild of a foreign/damaged entry is demanded only with scriptcache & $XONSH_CACHE_SCRIPTS on (scripts, stdin code) resp. cacheall & $XONSH_CACHE_EVERYTHING on (-c code) and a writable directory",
    ]


def replay(rec):
    tables.ensure_tables()
    c = rec["case"]
    if c.get("part") == 2:
        from . import c19_fault

        return c19_fault.replay(rec)
    if c.get("part") == 4:
        from . import c19_names

        return c19_names.replay(rec)
    if c.get("part") == 3:
        from . import c19_proc

        return c19_proc.replay(rec)
    h = Harness(True)
    h.reset()
    hist = c["history"]
    for ev in hist[:-1]:
        h.step(ev, False)
    print("state before:", json.dumps(h.describe(), sort_keys=True))
    print("event       :", hist[-1])
    vs = h.step(hist[-1], True)
    print("state after :", json.dumps(h.describe(), sort_keys=True))
    for v in vs:
        print("VIOLATION", v["key"])
        print("  observed:", json.dumps(v["observed"], sort_keys=True))
        print("  expected:", json.dumps(v["expected"], sort_keys=True))
    if not vs:
        print("no violation: the run equals the uncached run")
    return 1 if vs else 0
