"""C11, schedule part: two real threads run small scope programs on one shared real Env under the
controlled scheduler; every interleaving with <= P preemptions is executed.  Oracle: each thread's
reads (through [] / in / get / detype()) are exactly those of its own program executed alone over
the global layer as modified only by non-scoped assignments of the other thread."""

import threading

from . import common, pysched

ABSENT = "<absent>"

# a program is a list of ops; ("swap", key, val) ... ("exit",) bracket a scope; ("read", key) observes
PROGRAMS = {
    "swapA": [("swap", "FOO", "a"), ("read", "FOO"), ("exit",), ("read", "FOO")],
    "swapB": [("swap", "FOO", "b"), ("read", "FOO"), ("exit",), ("read", "FOO")],
    "overlayB": [("overlay", "FOO", "b"), ("read", "FOO"), ("exit",), ("read", "FOO")],
    "maskB": [("swap", "FOO", "<DEL>"), ("read", "FOO"), ("exit",), ("read", "FOO")],
    "observer": [("read", "FOO"), ("read", "FOO")],
    "swapOtherB": [("swap", "BAR", "b"), ("read", "FOO"), ("read", "BAR"), ("exit",), ("read", "BAR")],
    "setBar": [("set", "BAR", "n"), ("read", "BAR"), ("read", "BAR")],
    "inherit": [("swap", "FOO", "a"), ("spawn-inherit", "FOO"), ("exit",), ("read", "FOO")],
    # what ProcProxyThread/PopenThread do: the overrides are captured when the helper thread is CREATED
    # and installed when its run() gets scheduled; scopes the parent enters in between must not leak
    "inherit-async": [("spawn-async", "FOO"), ("swap", "FOO", "a"), ("read", "FOO"), ("exit",), ("join-async",)],
    "inherit-async-masked": [("swap", "BAR", "b"), ("spawn-async", "BAR"), ("exit",), ("swap", "BAR", "<DEL>"), ("read", "BAR"), ("exit",), ("join-async",)],
}
PAIRS_QUICK = [("inherit-async", "observer"), ("swapA", "observer"), ("swapA", "swapB"), ("swapA", "overlayB"), ("swapA", "maskB"), ("swapA", "swapOtherB"), ("swapA", "setBar")]
PAIRS_THOROUGH = PAIRS_QUICK + [("inherit-async-masked", "observer"), ("inherit-async", "swapB"), ("overlayB", "observer"), ("maskB", "observer"), ("overlayB", "maskB"), ("inherit", "observer"), ("inherit", "swapB"), ("swapOtherB", "setBar")]

_PAIR = None


def _traced():
    from xonsh import environ as E

    fs = [
        E.Env.detype,
        E.Env.__getitem__,
        E.Env.__contains__,
        E.Env._set_item,
        E.Env._del_item,
        E.Env.swap,
        E.Env._capture_for_swap,
        E.Env.get,
        E.InternalEnvironDict.__setitem__,
        E.InternalEnvironDict.set_locally,
        E.InternalEnvironDict.del_locally,
        E.InternalEnvironDict.get_local_overrides,
        E.InternalEnvironDict.set_local_overrides,
        E.Env.get_swapped_values,
        E.Env.set_swapped_values,
    ]
    for name in ("_restore_after_swap",):
        if hasattr(E.Env, name):
            fs.append(getattr(E.Env, name))
    return pysched.codes_of(*fs)


def _read(env, key):
    try:
        v = env[key]
    except KeyError:
        v = ABSENT
    return {"getitem": v, "contains": key in env, "get": env.get(key, ABSENT), "detype": env.detype().get(key, ABSENT)}


def _run_program(env, prog, log, DELETE_VAR):
    cms = []
    asyncs = []
    for op in prog:
        if op[0] in ("swap", "overlay"):
            v = DELETE_VAR if op[2] == "<DEL>" else op[2]
            cm = env.swap({op[1]: v}) if op[0] == "swap" else env.swap(overlay={op[1]: v})
            cm.__enter__()
            cms.append(cm)
        elif op[0] == "exit":
            cms.pop().__exit__(None, None, None)
        elif op[0] == "read":
            log.append((op[1], len(cms) > 0, _read(env, op[1])))
        elif op[0] == "set":
            env[op[1]] = op[2]
        elif op[0] == "spawn-async":
            sv = env.get_swapped_values()  # captured at creation, like ProcProxyThread.__init__
            sub = []

            def child(sv=sv, key=op[1], sub=sub):
                env.set_swapped_values(sv)  # installed when run() is scheduled
                sub.append(_read(env, key))

            t = threading.Thread(target=child)
            t.start()
            asyncs.append((op[1], t, sub, len(cms) > 0))
        elif op[0] == "join-async":
            for key, t, sub, inscope in asyncs:
                t.join()
                log.append((key, "inherited-at-creation", sub[0]))
        elif op[0] == "spawn-inherit":
            # what ProcProxyThread/PopenThread do: hand the swapped values to a helper thread
            sv = env.get_swapped_values()
            sub = []

            def child():
                env.set_swapped_values(sv)
                sub.append(_read(env, op[1]))

            t = threading.Thread(target=child)
            t.start()
            t.join()
            log.append((op[1], "inherited", sub[0]))


def _expected(prog, other_prog):
    """Reads of `prog` run alone; a variable the other thread assigns non-scoped may show either
    the old or the new value (both orders are sequentially consistent)."""
    base = {"FOO": {"g"}, "BAR": {ABSENT}}
    for op in other_prog:
        if op[0] == "set":
            base[op[1]] = base[op[1]] | {op[2]}
    scopes = []
    out = []
    pending = []
    for op in prog:
        if op[0] == "spawn-async":
            k = op[1]
            vals = None
            for sk, sv in reversed(scopes):
                if sk == k:
                    vals = {ABSENT if sv == "<DEL>" else sv}
                    break
            pending.append((k, vals if vals is not None else set(base[k])))
            continue
        if op[0] == "join-async":
            out.extend(pending)
            continue
        if op[0] in ("swap", "overlay"):
            scopes.append((op[1], op[2]))
        elif op[0] == "exit":
            scopes.pop()
        elif op[0] == "set":
            base[op[1]] = {op[2]}
        elif op[0] in ("read", "spawn-inherit"):
            k = op[1]
            vals = None
            for sk, sv in reversed(scopes):
                if sk == k:
                    vals = {ABSENT if sv == "<DEL>" else sv}
                    break
            if vals is None:
                vals = base[k]
            out.append((k, vals))
    return out


def _body(s):
    from xonsh.environ import DELETE_VAR, Env

    env = Env({"FOO": "g", "UPDATE_OS_ENVIRON": False, "PATH": []})
    env.detype()  # warm cache: the interesting interleavings start from a cached mapping
    pa, pb = PROGRAMS[_PAIR[0]], PROGRAMS[_PAIR[1]]
    la, lb = [], []
    ta = threading.Thread(target=_run_program, args=(env, pa, la, DELETE_VAR), name="A")
    tb = threading.Thread(target=_run_program, args=(env, pb, lb, DELETE_VAR), name="B")
    ta.start()
    tb.start()
    ta.join()
    tb.join()
    final = _read(env, "FOO")
    return la, lb, final


def _check(r, prefix):
    viols = []
    pair = _PAIR
    if r.outcome or r.error or r.errors:
        viols.append({"key": f"sched:abnormal:{r.outcome or 'exception'}", "clause": "no deadlock / exception under any schedule", "case": {"pair": list(pair)}, "observed": [r.outcome, r.error, r.errors], "expected": "normal completion"})
        return viols
    la, lb, final = r.value
    for who, log, prog, other in (("A", la, PROGRAMS[pair[0]], PROGRAMS[pair[1]]), ("B", lb, PROGRAMS[pair[1]], PROGRAMS[pair[0]])):
        exp = _expected(prog, other)
        for (k, inscope, obs), (_k, vals) in zip(log, exp):
            for path, v in obs.items():
                want = vals if path not in ("contains",) else {x != ABSENT for x in vals}
                if v not in want:
                    viols.append(
                        {
                            "key": f"sched:thread-sees-only-own-scopes:{path}:{'in-scope' if inscope else 'outside-scope'}",
                            "clause": "scoped changes are visible only inside their scope and only in their own thread",
                            "case": {"pair": list(pair), "thread": who, "var": k, "path": path},
                            "observed": repr(v),
                            "expected": sorted(map(repr, want)),
                        }
                    )
    for path, v in final.items():
        want = {"g"} if path != "contains" else {True}
        if v not in want:
            viols.append({"key": f"sched:exactly-undone-after-all-threads:{path}", "clause": "after all scopes exited every read path is as before", "case": {"pair": list(pair)}, "observed": repr(v), "expected": "g"})
    return viols


def run_part(ctx, pairs=None):
    global _PAIR
    bound = ctx.pick(2, 3)
    if pairs is None:
        pairs = PAIRS_THOROUGH if ctx.thorough else PAIRS_QUICK
    traced = _traced()
    if not ctx.thorough:
        # quick tier: scheduling points only on lines that touch state shared between threads
        traced = pysched.shared_lines(traced, [r"_detyped", r"self\._d\b", r"_overlay_stack", r"_local\b", r"_global\b", r"_thread_local", r"os_environ", r"\byield\b", r"set_locally|del_locally", r"local_overrides|swapped_values|new_local|\.copy\(\)|local\.(clear|update)"])
    total = {"executions": 0, "steps": 0, "sigs": set(), "capped": None}
    per_pair = {}
    for pair in pairs:
        _PAIR = pair
        # the three-thread inheritance programs need only one preemption to leak (between the helper
        # thread's creation and its set_swapped_values()); one less keeps the quick tier fast
        b = min(bound, ctx.pick(1, 2)) if pair[0].startswith("inherit-async") else bound
        viols, st = pysched.explore(_body, _check, traced, b, ctx, max_execs_per_shard=ctx.pick(4000, 200000), budget_s=ctx.pick(60, 70))
        ctx.add_violations(viols)
        total["executions"] += st.executions
        total["steps"] += st.steps
        total["sigs"] |= st.sigs
        total["capped"] = total["capped"] or st.capped
        per_pair["+".join(pair)] = st.executions
        ctx.log(f"pysched {pair}: {st.executions} schedules, {st.steps} steps, max {st.max_choice_points} choice points, {len(viols)} raw violations")
    ctx.sample({"threads": list(pairs[1]), "programs": [PROGRAMS[pairs[1][0]], PROGRAMS[pairs[1][1]]], "preemption_bound": bound})
    return {
        "states": len(total["sigs"]),
        "transitions": total["steps"],
        "executions": total["executions"],
        "exhaustive": total["capped"] is None,
        "summary": {"preemption_bound": bound, "schedules_per_pair": per_pair, "capped": total["capped"], "line_level_atomicity": True},
    }
