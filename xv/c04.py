"""C04 - arguments reach the command exactly as written (no hidden re-splitting).

Bounded-exhaustive enumeration of argument VALUES (every string up to a length bound over an
alphabet of shell/Python metacharacters, plus the deletion-closure of a few longer probes) x
writing FORMS (plain word, '..', "..", r'..', f'..', triple quoted, @(expr), @([..]), @(gen),
glue p@(v)s, subprocess macro `!`) x POSITIONS (first/middle/last argument, before a redirect,
inside $( )) x $EXPAND_ENV_VARS, executed through the full path Execer.exec -> parser -> run_subproc
on six delivery paths: a threaded callable alias, an unthreaded callable alias and a real child
process as the command word itself, and the same recorders reached through a list alias / a string
alias (['recu','FIX'], 'recu FIX', ['recc','FIX']): the user's arguments must follow the alias's
own argument exactly as on the direct paths.  The scratch cwd/$HOME/$a/$V are arranged so that any
globbing, expansion or re-splitting that is not documented WOULD change the delivered argv.

Part B enumerates the VALUES OF A VARIABLE instead: $Q is set to every sequence of up to n tokens
of {a, blank, $W (defined), $, ~, *, $Q (self reference), ${'W'}} and then used where substitution
is documented (`$Q`, `${'Q'}`, `@($Q)`, "$Q", "x $Q y", "$Q $W", '$Q', f'$Q', `$Q/s`, `p/$Q`):
the value must arrive verbatim - substituted exactly once, never expanded again, globbed or
re-split - and a substitution that does not return within the per-case alarm is a violation.  The
same texts are also written in the two verbatim forms r"..." and @("...").

Part C enumerates WORDS BUILT AROUND KEYWORDS (`and`/`or` are chain operators only as words of
their own; the lexer also knows the other Python keywords): every word of up to n tokens over a
keyword K in {and, or, not, in, is, if, else, for, import} and the decorations {- a 1 . / =} that
contains K (-or, --and, a-or, or-a, aand, ora, 1or, a.or, a/or, or=1, =and, for, import1 ...), as a
plain word in the first / middle / last position and directly before / after a REAL `and` / `&&`
operator, and in the quoting forms.  Oracle unchanged, plus: exactly as many commands run as are
written on the line (one; two in the operator positions) - every recorder invocation is counted,
also for the real child (its helper appends one record per run).

Part D enumerates LITERALS WRITTEN OVER SEVERAL PHYSICAL LINES: every sequence of 1..n line kinds
{ordinary, ending in a backslash, starting with `#`, empty, containing the other triple quote, `#`
line ending in a backslash} inside triple quotes (single, double, f-prefixed, r-prefixed), as an ordinary
argument and with the command continued after the literal by backslash-newline, with and without a
comment-only line in that continuation.  Expected argument = the Python value of the literal (Python
itself evaluates it); the words after the continuation must still belong to the one command.

Part E enumerates WORDS WITH SEVERAL `=` AND A `~` (every string of 3..5 characters over {a = ~ : /}
with at least two `=` and a `~`) as a plain word and in the non-raw literals, expected STRICTLY by
the rule written above tools.expand_path (leading `~`; `~` right after the FIRST `=` and after a `:`
behind it), and verbatim in r'..' / @().

Oracle (from the statement + docs/tutorial.rst, docs/strings.rst, docs/macros.rst, env docs):
  * quoted non-raw literal  -> one argument = documented expansion of its Python value;
  * raw literal             -> one argument = its Python value, untouched;
  * @(expr)                 -> one argument per string / element, verbatim;
  * p@(v)s                  -> one argument p+v+s per element (documented outer product), verbatim;
  * cmd! text               -> one argument = text without leading/trailing blanks;
  * $Q in the documented places -> the value of Q, once, as it is;
  * all delivery paths observe the same argv.

Does NOT require (deliberately unchecked, because the docs are silent or allow it):
  * anything about unquoted words containing glob characters, `$`, leading `~`, `@`, quotes,
    braces, `!`, `#` or operators (documented globbing / expansion / syntax applies there);
  * whether `${NAME}` inside a string is substituted, where a `$NAME` ends when a non-ASCII
    character follows, whether `~` after `=` / `:` is expanded, whether substitution of an
    f-string happens before or after field formatting: every documented-or-plausible reading is
    accepted (the reference returns a SET of allowed values); likewise whether a `~` that LEADS
    the result of a `$Q` substitution is expanded afterwards;
  * macro text the lexical rules legitimately take away from the line: an empty macro (`cmd!`),
    text ending in a backslash (backslash-newline continues the line), text with unbalanced
    ( ) [ ] { } or an open triple quote (the grammar ends a macro at a closer / continues the
    logical line), text containing a newline;
  * anything about @$( ), aliases' return codes, stdout, or the redirect target's content.
"""

import ast as pyast
import contextlib
import io
import itertools
import os
import pwd
import signal

from . import common, tables
from .session import load_session

LEVEL = "exploration"

# ---------------------------------------------------------------- the enumerated space

ALPHABET = [
    "a", " ", "\t", "\n", "'", '"', "\\", "$", "~", "*", "?", "[", "]", "{", "}", "(", ")",
    "&", "|", ";", "<", ">", "!", "#", "=", "-", ",", "@", "é", "\U0001f642",
]  # fmt: skip
PROBES = ["$V", "~", "~/x", "a=~", "${V}", "*.py", "a b", "it's", "@path"]  # "@path" = the name of a built-in decorator alias, as an ARGUMENT (quoted or injected)

CLASS = {
    "a": "alpha", " ": "space", "\t": "tab", "\n": "newline", "'": "squote", '"': "dquote",
    "\\": "backslash", "$": "dollar", "~": "tilde", "*": "star", "?": "qmark", "[": "lbracket",
    "]": "rbracket", "{": "lbrace", "}": "rbrace", "(": "lparen", ")": "rparen", "&": "amp",
    "|": "pipe", ";": "semi", "<": "lt", ">": "gt", "!": "bang", "#": "hash", "=": "equals",
    "-": "dash", ",": "comma", "@": "at", "é": "nonascii", "\U0001f642": "astral",
    "/": "slash", ".": "dot", ":": "colon",
}  # fmt: skip

ENV_A = "a* b"  # value of $a : a glob that matches files in cwd + a blank
ENV_V = "a* v"  # value of $V
SUFFIX = "/a"  # literal suffix of the glue forms ( `*`+`/a` matches d/a, `~`+`/a` is a home path )
PREFIX = "a"  # literal prefix of the glue forms ( `a`+`*` matches a a1 a2 ad )

FORMS = (
    "plain", "sq", "dq", "raw", "f", "ffield", "fval", "tsq", "tdq",
    "at", "atlist", "atgen", "gluepre", "gluesuf", "glueboth", "gluelist",
    "macro", "macroarg", "macrotail",
)  # fmt: skip
MACRO_FORMS = ("macro", "macroarg", "macrotail")
ALL_FORMS = FORMS + ("tplain",) + ("mltsq", "mltdq", "mlftsq", "mlrtdq") + ("envplain", "envbrace", "envat", "envdq", "envdqmid", "envdq2", "envsq", "envf", "envgluesuf", "envgluepre", "litraw", "litat")
# sub-forms that are one syntactic form of the statement share the <form> part of the key
FAMILY = {"mltsq": "mltriple", "mltdq": "mltriple", "envdqmid": "envdq", "envdq2": "envdq", "envgluesuf": "envglue", "envgluepre": "envglue", "gluepre": "glue", "gluesuf": "glue", "glueboth": "glue", "gluelist": "glue", "macroarg": "macro", "macrotail": "macro", "tsq": "triple", "tdq": "triple", "ffield": "f", "fval": "f"}
# second members of a form family: in the quick tier only for length<=1 values and the probes
QUICK_TINY_ONLY = ("tdq", "atgen", "glueboth", "macrotail")
VERBATIM_FORMS = ("raw", "at", "atlist", "macro")
POSITIONS = ("mid", "first", "last", "redir", "capt")
# delivery paths.  direct: the command word IS the recorder (threaded callable alias, unthreaded
# callable alias, real child found on $PATH).  aliased: the command word is a list alias / a string
# alias that resolves to the recorder / the child and contributes one fixed argument of its own.
DIRECT = ("t", "u", "c")
ALIASED = ("lu", "su", "lc")
PATHS = DIRECT + ALIASED
CHILD = ("c", "lc")
CMD = {"t": "rect", "u": "recu", "c": "recc", "lu": "lrecu", "su": "srecu", "lc": "lrecc"}
FIX = "FIX"  # the alias's own argument; the user's arguments must follow it untouched

# ---------------------------------------------------------------- part B: values of variables
# A variable Q is given every value made of <= n of these tokens and is then USED in the forms where
# substitution is documented; the value must arrive verbatim, substituted exactly once.
ENV_W = "a* w"  # value of $W (a second expansion of a `$W` inside Q's value would show, and glob)
VTOKENS = ("a", " ", "$W", "$", "~", "*", "$Q", "${'W'}")
VCLASS = {"a": "alpha", " ": "space", "$W": "varref", "$": "dollar", "~": "tilde", "*": "star", "$Q": "selfref", "${'W'}": "quotedref"}
# form -> (argument source, prefix, suffix): delivered argument must be prefix + value + suffix
ENV_FORMS = {
    "envplain": ("$Q", "", ""),
    "envbrace": ("${'Q'}", "", ""),
    "envat": ("@($Q)", "", ""),
    "envdq": ('"$Q"', "", ""),
    "envdqmid": ('"x $Q y"', "x ", " y"),
    "envdq2": ('"$Q $W"', "", " " + ENV_W),
    "envsq": ("'$Q'", "", ""),
    "envf": ("f'$Q'", "", ""),
    "envgluesuf": ("$Q/s", "", "/s"),
    "envgluepre": ("p/$Q", "p/", ""),
    # the same texts WRITTEN in the two verbatim forms (no substitution at all is documented here)
    "litraw": ('r"%s"', "", ""),
    "litat": ('@("%s")', "", ""),
}
VERBATIM_ENV_FORMS = ("litraw", "litat")

# ---------------------------------------------------------------- part C: words around keywords
# `and` / `or` between words are chain operators, and the lexer has special cases for Python
# keywords; a WORD that merely contains one (-or, --and, a-or, or-a, aand, ora, x.or, or=1, for,
# import1 ...) is an ordinary argument.  A value of this part is a KW tuple of tokens, one of them
# a keyword; its text is the concatenation.
KEYWORDS = ("and", "or", "not", "in", "is", "if", "else", "for", "import")
KDECOR = ("-", "a", "1", ".", "/", "=")
KTOK = KEYWORDS + KDECOR
# three-token shapes that the quick tier adds to all words of <= 2 tokens (K = the keyword)
KSHAPES3 = (("-", "-", "K"), ("a", "-", "K"), ("K", "-", "a"), ("-", "K", "-"), ("a", ".", "K"), ("a", "/", "K"), ("K", "=", "1"))
NEXT = "<NEXT-COMMAND>"  # separates the argv of two commands in the chain positions
# chain positions: the argument directly before / after a REAL operator; two commands must run
CHAINPOS = ("befand", "aftand", "befamp", "aftamp")
POS_FAMILY = {"befand": "befop", "befamp": "befop", "aftand": "aftop", "aftamp": "aftop"}  # in keys
KW_POSITIONS = ("mid", "first", "last") + CHAINPOS
KW_FORMS_QUICK = ("plain", "sq", "dq", "raw", "f", "tsq", "at", "atlist", "gluepre", "gluesuf", "macro", "macroarg")


# ---------------------------------------------------------------- part D: multi-line literals
# A value of this part is an ML tuple of LINE tokens; the literal is written over that many physical
# lines inside triple quotes.  The line kinds collide with what the source pre-processing looks at
# (backslash continuations, comment lines, triple quotes): an ordinary line, a line ENDING in a
# backslash (inside a non-raw string: a continuation, the two lines are one), a line STARTING with
# `#`, an empty line, a line containing the OTHER triple quote, a `#` line ending in a backslash.
ML_LINES = {"P": "ab", "B": "cd \\", "H": "# ef", "E": "", "Q": None, "HB": "# gh \\"}
ML_LCLASS = {"P": "plain", "B": "endbs", "H": "hashline", "E": "blank", "Q": "otherquote", "HB": "hashendbs"}
ML_TOK = tuple(ML_LINES)
ML_FORMS = {"mltsq": ("", "'''"), "mltdq": ("", '"""'), "mlftsq": ("f", "'''"), "mlrtdq": ("r", '"""')}
# layouts: ordinary middle / first / last argument; the command continued after the literal with a
# backslash-newline ("cont"), and with a comment-only line inside that continuation ("contc":
# transparent, as the docstring of tools.strip_continuation_comments documents)
ML_POSITIONS = ("mid", "cont", "contc", "first", "last")


class ML(tuple):
    """A part-D value: tuple of ML_TOK line tokens."""

    __slots__ = ()


def ml_literal(form, v):
    """(source literal, its Python value) or None when these lines are no literal of that form."""
    import warnings

    prefix, q = ML_FORMS[form]
    other = '"""' if q == "'''" else "'''"
    if prefix == "r" and ("B" in v or "HB" in v):
        return None  # backslash-newline inside a raw literal: the known finding raw:...:backslash+newline
    lines = ["x " + other + " y" if t == "Q" else ML_LINES[t] for t in v]
    lit = prefix + q + "\n".join(lines) + q
    try:
        with warnings.catch_warnings():
            warnings.simplefilter("ignore")
            val = eval(lit, {})  # noqa: S307 - our own literal; Python defines the value
    except SyntaxError:
        return None  # e.g. the last line ends in a backslash: the closing quote is escaped
    return lit, val


def enumerate_ml_values(maxlines):
    """Every sequence of 1..maxlines line kinds; below 4 lines the quick tier still gets the 4-line
    literals whose two inner lines are arbitrary between plain first and last lines."""
    vals = []
    for n in range(1, maxlines + 1):
        vals.extend(ML(t) for t in itertools.product(ML_TOK, repeat=n))
    if maxlines < 4:
        vals.extend(ML(("P", b, c, "P")) for b in ML_TOK for c in ML_TOK)
    return vals


# ---------------------------------------------------------------- part E: several `=` and a `~`
# The one `~` rewriting a word / non-raw literal may undergo (comment in tools.expand_path, bash):
# a leading `~`, and a `~` "immediately following a ':' or the FIRST '='".  Values: every string of
# <= 5 characters over {a = ~ : /} with at least two `=` and a `~`; expected strictly by that rule.
TW_ALPHABET = "a=~:/"
TW_FORMS = ("tplain", "sq", "dq", "f", "raw", "at")


class TW(str):
    """A part-E value (a str subclass so that it is told from part A)."""

    __slots__ = ()


def enumerate_tilde_words(maxlen=5):
    vals = []
    for n in range(3, maxlen + 1):
        for tup in itertools.product(TW_ALPHABET, repeat=n):
            w = "".join(tup)
            if w.count("=") >= 2 and "~" in w:
                vals.append(TW(w))
    return vals


class KW(tuple):
    """A part-C value: tuple of KTOK tokens (a tuple subclass so that it is told from part B)."""

    __slots__ = ()


def _text(v):
    return "".join(v) if isinstance(v, KW) else v


def enumerate_keyword_words(thorough):
    """Every word of <= 2 (thorough: 3) tokens over {K} + KDECOR that contains the keyword K, for
    every K in KEYWORDS; the quick tier adds the KSHAPES3 three-token shapes."""
    vals = []
    for k in KEYWORDS:
        toks = (k,) + KDECOR
        seen = set()
        for n in range(1, (3 if thorough else 2) + 1):
            for tup in itertools.product(toks, repeat=n):
                if k in tup:
                    seen.add(tup)
                    vals.append(KW(tup))
        if not thorough:
            for shape in KSHAPES3:
                tup = tuple(k if t == "K" else t for t in shape)
                if tup not in seen:
                    vals.append(KW(tup))
    return vals


def char_class(ch):
    if ch in CLASS:
        return CLASS[ch]
    if ch.isalpha():
        return "alpha"
    if ch.isdigit():
        return "digit"
    return "u%04x" % ord(ch)


def classes_of(v):
    if isinstance(v, ML):
        return "+".join(ML_LCLASS[t] for t in v) if v else "empty"
    if isinstance(v, KW):  # part C: keyword tokens by name, decorations by character class
        return "+".join("kw_" + t if t in KEYWORDS else char_class(t) for t in v) if v else "empty"
    if isinstance(v, tuple):  # part B: a tuple of VTOKENS
        return "+".join(VCLASS[t] for t in v) if v else "empty"
    return "+".join(char_class(c) for c in v) if v else "empty"


def _subsequences(s):
    out = set()
    for r in range(len(s) + 1):
        for idx in itertools.combinations(range(len(s)), r):
            sub = [s[i] for i in idx]
            out.add(type(s)(sub) if isinstance(s, tuple) else "".join(sub))
    return out


def _order_key(v):
    if isinstance(v, ML):
        return (len(v), [ML_TOK.index(t) for t in v])
    if isinstance(v, KW):
        return (len(v), [KTOK.index(t) for t in v])
    if isinstance(v, tuple):
        return (len(v), [VTOKENS.index(t) for t in v])
    return (len(v), [ALPHABET.index(c) if c in ALPHABET else 1000 + ord(c) for c in v])


def enumerate_env_values(maxtok):
    """Every non-empty sequence of <= maxtok VTOKENS (closed under deletion)."""
    vals = []
    for n in range(1, maxtok + 1):
        vals.extend(itertools.product(VTOKENS, repeat=n))
    # self-referencing values last and next to each other: consecutive items go to different
    # workers, so an implementation that loops on them costs every worker a little, not two a lot
    return [v for v in vals if "$Q" not in v] + [v for v in vals if "$Q" in v]


def enumerate_values(maxlen):
    """Every string of length <= maxlen over ALPHABET, shortest first, plus the deletion-closure
    of PROBES (so that deleting characters from any enumerated value stays inside the space)."""
    vals = set()
    for n in range(maxlen + 1):
        for tup in itertools.product(ALPHABET, repeat=n):
            vals.add("".join(tup))
    for p in PROBES:
        vals |= _subsequences(p)
    return sorted(vals, key=_order_key)


# ---------------------------------------------------------------- rendering of the forms


def _esc(v, quote, braces=False, keep_newline=False):
    out = []
    for ch in v:
        if ch == "\\":
            out.append("\\\\")
        elif ch == quote:
            out.append("\\" + ch)
        elif ch == "\n" and not keep_newline:
            out.append("\\n")
        elif braces and ch in "{}":
            out.append(ch * 2)
        else:
            out.append(ch)
    return "".join(out)


FIXED = " b c "  # the other element of the list forms: blanks inside and at both ends


def partner(v):
    """The other element of the list forms (fixed, so that a failure depends on v alone)."""
    return FIXED


def _raw_literal(v):
    for q in ("'", '"', "'''", '"""'):
        lit = "r" + q + v + q
        try:
            if pyast.literal_eval(lit) == v:
                return lit
        except (SyntaxError, ValueError):
            pass
    return None


PLAIN_OK = set("a=-,é\U0001f642\\/.")


def _plain_ok(v, pos):
    if not v:
        return False
    for ch in v:
        if not (ch in PLAIN_OK or (ch.isascii() and ch.isalnum())):
            return False
    if v.endswith("\\") and pos == "last":
        return False  # backslash-newline is a line continuation, not part of the word
    return True


def render_arg(form, v, pos="mid"):
    """Source text of the argument for (form, value) or None when the form cannot express it /
    the documented meaning is not 'this literal text'."""
    if form == "plain":
        return v if _plain_ok(v, pos) else None
    if form == "tplain":  # part E: a plain word over {a = ~ : /}
        return str(v) if v and pos == "mid" else None
    if form == "sq":
        return "'" + _esc(v, "'") + "'"
    if form == "dq":
        return '"' + _esc(v, '"') + '"'
    if form == "raw":
        return _raw_literal(v)
    if form == "f":
        return "f'" + _esc(v, "'", braces=True) + "'"
    if form == "ffield":
        return "f'" + _esc(v, "'", braces=True) + "{x}'"
    if form == "fval":
        return "f'{x}'"
    if form == "tsq":
        return "'''" + _esc(v, "'", keep_newline=True) + "'''"
    if form == "tdq":
        return '"""' + _esc(v, '"', keep_newline=True) + '"""'
    if form == "at":
        return "@(" + repr(v) + ")"
    if form == "atlist":
        return "@([" + repr(v) + ", " + repr(partner(v)) + "])"
    if form == "atgen":
        return "@(q for q in [" + repr(partner(v)) + ", " + repr(v) + "])"
    if form == "gluepre":
        return PREFIX + "@(" + repr(v) + ")"
    if form == "gluesuf":
        return "@(" + repr(v) + ")" + SUFFIX
    if form == "glueboth":
        return PREFIX + "@(" + repr(v) + ")" + SUFFIX
    if form == "gluelist":
        return PREFIX + "@([" + repr(v) + ", " + repr(partner(v)) + "])"
    raise AssertionError(form)


def field_value(form, v):
    """Value bound to the Python name `x` for the f-string forms."""
    if form in ENV_FORMS or form in ML_FORMS:
        return None
    if form == "ffield":
        return "-"
    if form == "fval":
        return v
    return None


def _balanced(v):
    """Brackets properly nested (the grammar's `nocloser` rule ends macro text at a closer)."""
    stack = []
    pairs = {")": "(", "]": "[", "}": "{"}
    for ch in v:
        if ch in "([{":
            stack.append(ch)
        elif ch in pairs:
            if not stack or stack.pop() != pairs[ch]:
                return False
    return not stack


def render_line(form, pos, v, cmd):
    """(source line, python-self-check literal or None) or None if the combination is skipped."""
    if form in ML_FORMS:
        lv = ml_literal(form, v) if v else None
        if lv is None:
            return None
        a = lv[0]
        return {
            "mid": f"{cmd} L {a} R\n",
            "first": f"{cmd} {a} M R\n",
            "last": f"{cmd} L M {a}\n",
            "cont": f"{cmd} L {a} \\\nR\n",
            "contc": f"{cmd} L {a} \\\n# comment\nR\n",
        }[pos]
    if form in ENV_FORMS:
        if pos != "mid" or not v:
            return None
        arg = ENV_FORMS[form][0]
        return f"{cmd} L {arg % ''.join(v) if '%s' in arg else arg} R\n"
    if form in MACRO_FORMS:
        if "\n" in v or not v.strip(" \t"):
            return None  # a macro is one line; the empty macro is not specified
        if v.endswith("\\") or not _balanced(v) or "'''" in v or '"""' in v:
            return None  # backslash-newline / an open triple quote continue the line; closers end a macro by grammar
        if "#" in v:
            return None  # `#` starts a comment by the ordinary lexical rules; not required to be macro text
        if pos == "capt":
            inner = {"macro": f"{cmd}! {v}", "macroarg": f"{cmd} L ! {v}", "macrotail": f"{cmd} L ! {v} > out.txt"}[form]
            return f"y = $({inner})\n"
        if pos != "mid":
            return None  # (incl. the chain positions: a macro swallows the rest of the line)
        if form == "macro":
            return f"{cmd}! {v}\n"
        if form == "macroarg":
            return f"{cmd} L ! {v}\n"
        return f"{cmd} L ! {v} > out.txt\n"
    a = render_arg(form, v, pos)
    if a is None:
        return None
    if pos == "mid":
        return f"{cmd} L {a} R\n"
    if pos == "first":
        return f"{cmd} {a} M R\n"
    if pos == "last":
        return f"{cmd} L M {a}\n"
    if pos == "redir":
        return f"{cmd} L {a} > out.txt\n"
    if pos == "capt":
        return f"y = $({cmd} L {a} R)\n"
    if pos == "befand":
        return f"{cmd} L {a} and {cmd} R\n"
    # (two more words after the argument, as in "first": `cmd =not R` alone is a valid Python
    # assignment `cmd = not ![R]` and Python wins; `cmd =not M R` is a command)
    if pos == "aftand":
        return f"{cmd} L and {cmd} {a} M R\n"
    if pos == "befamp":
        return f"{cmd} L {a} && {cmd} R\n"
    if pos == "aftamp":
        return f"{cmd} L && {cmd} {a} M R\n"
    raise AssertionError(pos)


def self_check(form, v):
    """The generated literal must denote `v` in plain Python (the quoting function is part of the
    harness, so a mistake there is a tool error, never a finding)."""
    if form in ("plain", "tplain") or form in ENV_FORMS or form in ML_FORMS or form.startswith(("at", "glue", "macro")):
        return
    a = render_arg(form, v)
    if a is None:
        return
    if form in ("f", "ffield", "fval"):
        got = eval(a, {"x": field_value(form, v)})  # noqa: S307 - our own literal
        want = v + "-" if form == "ffield" else v
    else:
        got = pyast.literal_eval(a)
        want = v
    if got != want:
        raise common.ToolError(f"quoting function wrong: form={form} value={v!r} literal={a!r} -> {got!r}")


# ---------------------------------------------------------------- reference: documented expansion


def _is_name_start(ch):
    return ch.isascii() and (ch.isalpha() or ch == "_")


def _is_name_char(ch):
    return ch.isascii() and (ch.isalnum() or ch == "_")


def ref_envvars(s, env):
    """All readings of 'the name of an environment variable inside a string is replaced by the
    contents of that variable; unknown variables are left unchanged' (tutorial.rst, strings.rst,
    expandvars docstring).  `$NAME`, NAME = ASCII identifier -> replaced when defined.  Not
    documented -> both readings allowed: `${NAME}`; a name directly followed by a non-ASCII
    character (where does the name end?); names starting with a digit."""
    outs = {""}
    i = 0
    n = len(s)
    while i < n:
        ch = s[i]
        alts = None
        if ch == "$" and i + 1 < n:
            if s[i + 1] == "{":
                j = s.find("}", i + 2)
                if j > 0:
                    name = s[i + 2 : j]
                    if name and all(_is_name_char(c) for c in name):
                        alts = {s[i : j + 1]}
                        if name in env:
                            alts.add(env[name])
                        i = j + 1
            elif _is_name_char(s[i + 1]):
                j = i + 1
                while j < n and _is_name_char(s[j]):
                    j += 1
                name = s[i + 1 : j]
                text = s[i:j]
                if not _is_name_start(name[0]) or (j < n and not s[j].isascii()):
                    alts = {text}
                    if name in env:
                        alts.add(env[name])
                elif name in env:
                    alts = {env[name]}
                else:
                    alts = {text}
                i = j
        if alts is None:
            alts = {ch}
            i += 1
        outs = {o + a for o in outs for a in alts}
    return outs


def _home_of(user, home):
    if user == "":
        return home
    try:
        return pwd.getpwnam(user).pw_dir
    except (KeyError, ValueError):
        return None


def _tilde_lead(s, home):
    """`~` / `~user` at the very start of s -> home directory (documented for
    $XONSH_SUBPROC_ARG_EXPANDUSER: ~/docs -> /home/user/docs, ~bob/docs -> /home/bob/docs)."""
    if not s.startswith("~"):
        return s
    k = s.find("/")
    k = len(s) if k < 0 else k
    h = _home_of(s[1:k], home)
    if h is None:
        return s
    return (h.rstrip("/") + s[k:]) or "/"


def ref_tilde(s, home):
    strict = _tilde_lead(s, home)
    outs = {strict}
    # undocumented (bash assignment rule, only in a code comment): `~` after the first `=` and
    # after `:` behind it; and whether `~=x` is `~` followed by `=x` or user "=x".  All readings allowed.
    pre, eq, post = s.partition("=")
    if eq:
        heads = {_tilde_lead(pre, home)}
        if strict == s:
            heads.add(pre)
        alts = [{p, _tilde_lead(p, home)} for p in post.split(":")]
        for combo in itertools.product(*alts):
            for head in heads:
                outs.add(head + "=" + ":".join(combo))
    return outs


def ref_tilde_strict(s, home):
    """The rule as written above tools.expand_path: leading `~`, `~` right after the FIRST `=` and
    after a `:` behind it; nothing else."""
    pre, eq, post = s.partition("=")
    if not eq:
        return _tilde_lead(s, home)
    return _tilde_lead(pre, home) + "=" + ":".join(_tilde_lead(p, home) for p in post.split(":"))


def ref_expand(s, expand_env, env, home):
    """Set of values the docs allow for a non-raw string literal / plain word with Python value s."""
    cands = ref_envvars(s, env) if expand_env else {s}
    outs = set()
    for c in cands:
        outs |= ref_tilde(c, home)
    return outs


def expected_args(form, v, expand_env, env, home):
    """List (one entry per expected argument) of sets of allowed values."""
    ex = lambda s: ref_expand(s, expand_env, env, home)  # noqa: E731
    if isinstance(v, TW) and form in ("tplain", "sq", "dq", "f"):
        return [{ref_tilde_strict(str(v), home)}]
    if form in ("plain", "sq", "dq", "tsq", "tdq", "f"):
        return [ex(v)]
    if form == "ffield":
        return [{e + "-" for e in ex(v)} | ex(v + "-")]
    if form == "fval":
        return [{v} | ex(v)]
    if form in ("raw", "at"):
        return [{v}]
    if form == "atlist":
        return [{v}, {partner(v)}]
    if form == "atgen":
        return [{partner(v)}, {v}]
    if form == "gluepre":
        return [{PREFIX + v}]
    if form == "gluesuf":
        return [{v + SUFFIX}]
    if form == "glueboth":
        return [{PREFIX + v + SUFFIX}]
    if form == "gluelist":
        return [{PREFIX + v}, {PREFIX + partner(v)}]
    raise AssertionError(form)


def expected_argv(form, pos, v, expand_env, env, home):
    if form in ML_FORMS:
        val = ml_literal(form, v)[1]
        arg = {val} if ML_FORMS[form][0] == "r" else ref_expand(val, expand_env, env, home)
        if pos == "first":
            return [arg, {"M"}, {"R"}]
        if pos == "last":
            return [{"L"}, {"M"}, arg]
        return [{"L"}, arg, {"R"}]
    if form in ENV_FORMS:
        # the value substituted verbatim, exactly once: never re-expanded, globbed or re-split.
        # (`~` leading the RESULT may or may not be expanded: the order of the two documented
        # expansions is not documented)
        base = ENV_FORMS[form][1] + "".join(v) + ENV_FORMS[form][2]
        if form in VERBATIM_ENV_FORMS:
            return [{"L"}, {base}, {"R"}]
        return [{"L"}, {base} | ref_tilde(base, home), {"R"}]
    if form in MACRO_FORMS:
        t = v.strip(" \t")
        if form == "macro":
            return [{t}]
        if form == "macroarg":
            return [{"L"}, {t}]
        return [{"L"}, {(v + " > out.txt").strip(" \t")}]
    mid = expected_args(form, v, expand_env, env, home)
    if pos in ("mid", "capt"):
        return [{"L"}] + mid + [{"R"}]
    if pos == "first":
        return mid + [{"M"}, {"R"}]
    if pos == "last":
        return [{"L"}, {"M"}] + mid
    if pos == "redir":
        return [{"L"}] + mid
    if pos in ("befand", "befamp"):
        return [{"L"}] + mid + [{NEXT}, {"R"}]
    if pos in ("aftand", "aftamp"):
        return [{"L"}, {NEXT}] + mid + [{"M"}, {"R"}]
    raise AssertionError(pos)


def matches(obs, exp):
    return isinstance(obs, list) and len(obs) == len(exp) and all(o in e for o, e in zip(obs, exp))


def signature(obs, exp):
    if not isinstance(obs, list):
        return str(obs[0]) if obs[0] != "exc" else "exc-" + obs[1]
    if len(obs) != len(exp):
        return "count"
    return "value"


def exp_json(exp):
    return _scrub([sorted(e) for e in exp])


def _scrub(x):
    """Replace the per-process scratch $HOME by <HOME> in reported values (artefacts and evidence
    must not depend on pids); comparison always happens on the real values."""
    home = _W.get("home")
    if home is None:
        return x
    if isinstance(x, str):
        return x.replace(home, "<HOME>")
    if isinstance(x, (list, tuple)):
        return [_scrub(i) for i in x]
    if isinstance(x, dict):
        return {k: _scrub(v) for k, v in x.items()}
    return x


# ---------------------------------------------------------------- implementation side (worker)

_W = {}  # per-process worker state
_REC = []


class _Timeout(Exception):
    pass


def _alarm(signum, frame):
    raise _Timeout()


def _rec_t(args, stdin=None):
    _REC.append(list(args))
    return 0


def _rec_u(args, stdin=None):
    _REC.append(list(args))
    return 0


def _init_worker():
    from xonsh.tools import unthreadable

    d = os.path.realpath(common.scratch_dir("c04"))
    cwd = os.path.join(d, "cwd")
    home = os.path.join(d, "ho me")  # a blank in $HOME: re-splitting after ~ expansion shows
    bindir = os.path.join(d, "bin")
    for p in (cwd, home, bindir, os.path.join(cwd, "d"), os.path.join(cwd, "ad")):
        os.makedirs(p)
    for n in ("a", "a1", "a2", "?", "x.py", "out.txt", "d/a", "ad/a", "L", "R"):
        with open(os.path.join(cwd, n), "w"):
            pass
    argv_file = os.path.join(d, "argv.out")
    script = os.path.join(bindir, "recc")
    with open(script, "w") as f:
        f.write("#!/bin/sh\nprintf '%s\\0' \"$#\" \"$@\" >> '" + argv_file + "'\n")  # one record per run
    os.chmod(script, 0o755)
    os.chdir(cwd)
    os.environ["HOME"] = home
    xsh = load_session(data_dir=home, path=[bindir], env={"HOME": home, "a": ENV_A, "V": ENV_V, "W": ENV_W, "XONSH_SUBPROC_ARG_EXPANDUSER": True})
    xsh.aliases["rect"] = _rec_t
    xsh.aliases["recu"] = unthreadable(_rec_u)
    xsh.aliases["lrecu"] = ["recu", FIX]  # list alias -> callable alias
    xsh.aliases["srecu"] = "recu " + FIX  # string alias -> callable alias
    xsh.aliases["lrecc"] = ["recc", FIX]  # list alias -> real child
    _W.update(xsh=xsh, home=home, argv_file=argv_file, env={"a": ENV_A, "V": ENV_V, "HOME": home}, cwd=cwd)
    signal.signal(signal.SIGALRM, _alarm)


def _norm(args):
    return [a if isinstance(a, str) else f"<{type(a).__name__}>{a!r}" for a in args]


def run_source(src, path, expand_env, xval=None, qval=None, alarm_s=20.0):
    """Execute one source line on one delivery path; returns a failure tuple or the list of the
    argv lists of every recorder invocation (normally one)."""
    xsh = _W["xsh"]
    if xsh.env.get("EXPAND_ENV_VARS") is not expand_env:  # (an unconditional write would invalidate
        xsh.env["EXPAND_ENV_VARS"] = expand_env  # the detyped-environment cache before every child)
    xsh.ctx.pop("x", None)
    if xval is not None:
        xsh.ctx["x"] = xval
    if qval is not None:
        if xsh.env.get("Q") != qval:
            xsh.env["Q"] = qval
    elif "Q" in xsh.env:
        del xsh.env["Q"]
    del _REC[:]
    af = _W["argv_file"]
    if path in CHILD:
        with contextlib.suppress(FileNotFoundError):
            os.unlink(af)
    err = io.StringIO()
    signal.setitimer(signal.ITIMER_REAL, alarm_s)
    try:
        with contextlib.redirect_stderr(err), contextlib.redirect_stdout(io.StringIO()):
            xsh.execer.exec(src, glbs=xsh.ctx, locs=None)
    except _Timeout:
        return ("hang", "no result within the alarm")
    except SystemExit as e:
        return ("exc", "SystemExit", str(e)[:120])
    except Exception as e:  # noqa: BLE001
        return ("exc", type(e).__name__, str(e)[:160])
    finally:
        signal.setitimer(signal.ITIMER_REAL, 0)
    if path in CHILD:
        try:
            with open(af, "rb") as f:
                raw = f.read()
        except FileNotFoundError:
            return ("norun", "child did not run", err.getvalue()[-160:])
        parts = raw.split(b"\0")[:-1]
        recs = []
        i = 0
        while i < len(parts):
            n = int(parts[i])
            args = [p.decode("utf-8", "surrogateescape") for p in parts[i + 1 : i + 1 + n]]
            if n != len(args):
                raise common.ToolError(f"helper script output inconsistent: {raw!r}")
            recs.append(args)
            i += n + 1
        return recs
    if not _REC:
        return ("norun", "alias did not run", err.getvalue()[-160:])
    return [_norm(r) for r in _REC]


def run_case(form, pos, e1, v, paths):
    """-> None when skipped, else dict(src, exp, obs{path: argv|failure})."""
    v = _text(v)
    first = render_line(form, pos, v, "CMD")
    if first is None:
        return None
    exp = expected_argv(form, pos, v, e1, _W["env"], _W["home"])
    obs = {}
    is_env = form in ENV_FORMS
    ncmds = 2 if pos in CHAINPOS else 1  # commands WRITTEN on the line: exactly that many must run
    for p in paths:
        src = render_line(form, pos, v, CMD[p])
        # part B never waits on anything: 3 s is a hang (1 s once this worker has seen one, so that
        # a looping implementation cannot stretch the run by minutes)
        alarm_s = (1.0 if _W.get("hung") else 3.0) if is_env else 20.0
        o = run_source(src, p, e1, field_value(form, v), "".join(v) if is_env else None, alarm_s)
        if p in ALIASED and isinstance(o, list):
            # the alias's own fixed argument comes first; what follows is the user's argv
            o = [r[1:] for r in o] if all(r[:1] == [FIX] for r in o) else ("noprefix", repr(o)[:200])
        if isinstance(o, list):
            if len(o) != ncmds:
                o = ("extra-command" if len(o) > ncmds else "missing-command", f"{len(o)} recorder runs for {ncmds} written command(s)", repr(o)[:200])
            else:
                flat = list(o[0])
                for r in o[1:]:
                    flat += [NEXT] + r
                o = flat
        obs[p] = o
        if isinstance(o, tuple) and o[0] == "hang":
            _W["hung"] = True
            break  # do not spend the alarm again on every other path
    return {"src": first, "exp": exp, "obs": obs}


_PLAN = None  # set by run(): function value -> list of (form, pos, e1, paths)


def _plan_for(v, thorough):
    """Which (form, position, $EXPAND_ENV_VARS, delivery paths) are executed for value v.  A case
    that fails on the paths listed here is re-run on the remaining paths (see _check_value), so
    every reported failure carries the observation of all delivery paths."""
    if isinstance(v, TW):  # part E: several `=` and a `~`
        return [(form, "mid", True, ("u", "lu") if form in ("tplain", "dq", "raw") else ("u",)) for form in TW_FORMS]
    if isinstance(v, ML):  # part D: a literal over several physical lines
        plan = []
        for form in ML_FORMS:
            if not thorough and len(v) == 3 and form != "mltdq":
                continue  # quick: the 216 three-line sequences in one form; 1, 2 and the 4-line ones in all
            plan.append((form, "mid", True, ("u", "c", "lu") if len(v) <= 2 else ("u",)))
            for pos in ML_POSITIONS[1:] if thorough else ("cont", "contc"):
                plan.append((form, pos, True, ("u",)))
        return plan
    if isinstance(v, KW):  # part C: a word built around a keyword
        text = "".join(v)
        small = len(v) <= 2
        plan = []
        for form in FORMS if thorough else KW_FORMS_QUICK:
            if form == "plain":
                if text in ("and", "or"):
                    continue  # the bare word IS the documented operator
                plan.append((form, "mid", True, PATHS if small else ("u",)))
                for pos in KW_POSITIONS[1:]:
                    plan.append((form, pos, True, ("u", "c") if (thorough and small) else ("u",)))
            elif small or thorough:
                plan.append((form, "mid", True, ("u",)))
                if thorough and form not in MACRO_FORMS:
                    plan.append((form, "befand", True, ("u",)))
                    plan.append((form, "aftamp", True, ("u",)))
        return plan
    if isinstance(v, tuple):  # part B: value of a variable
        # (unthreaded alias first: a hang is recorded on the first path only, keep that the same one)
        return [(form, "mid", True, ("u", "lu", "t", "c", "su", "lc") if len(v) == 1 else ("u", "lu")) for form in ENV_FORMS]
    # the probes proper get the full treatment of the length<=1 values; the other members of their
    # deletion-closure exist for the attribution (minimal failing value) and count as short values
    tiny = len(v) <= 1 or v in PROBES
    short = tiny or len(v) <= 2 or v in _PROBE_SET
    expandable = "$" in v or "~" in v
    plan = []
    for form in FORMS:
        if form in QUICK_TINY_ONLY and not (tiny or v in _PROBE_SET) and (not thorough or len(v) > 2):
            continue  # second members of a family: quick only tiny values, thorough up to length 2
            # (kept for the whole closure of the probes so that their failures can be reduced)
        # base sweep: every value, middle position, default configuration
        if thorough and short:
            paths = PATHS
        elif tiny:
            paths = PATHS if len(v) <= 1 else ("t", "u", "c", "lu", "su")
        elif expandable and (short or form in VERBATIM_FORMS):
            paths = ("u", "lu")  # (length 3: only the forms that promise the text untouched)
        else:
            paths = ("u",)
        plan.append((form, "mid", True, paths))
        # $EXPAND_ENV_VARS = False: expansion forms must stop expanding `$`, nothing else may change
        if form not in MACRO_FORMS:
            if tiny and thorough:
                plan.append((form, "mid", False, DIRECT + ("lu",)))
            elif tiny:
                plan.append((form, "mid", False, ("u", "lu") if expandable else ("u",)))
            elif (thorough and short) or expandable:
                plan.append((form, "mid", False, ("u",)))
        # positions (redirect / capture change the plumbing around the command, so the delivery
        # path matters there; first / last only move the argument)
        if tiny or v in _PROBE_SET or (thorough and short):
            for pos in POSITIONS[1:]:
                if thorough:
                    paths = DIRECT if tiny else ("u",)
                else:
                    paths = DIRECT if (len(v) <= 1 and pos in ("redir", "capt")) else ("u",)
                plan.append((form, pos, True, paths))
    return plan


_PROBE_SET = set()
_THOROUGH = False


def _check_value(v):
    fails = []
    evals = cases = 0
    by_path = dict.fromkeys(PATHS, 0)
    by_kind = {"mid": 0, "E0": 0, "pos": 0, "env": 0, "kw": 0, "ml": 0, "tw": 0}
    for form, pos, e1, paths in _plan_for(v, _THOROUGH):
        if pos == "mid" and e1:
            self_check(form, _text(v))
        r = run_case(form, pos, e1, v, paths)
        if r is None:
            continue
        cases += 1
        by_kind["tw" if isinstance(v, TW) else "ml" if isinstance(v, ML) else "kw" if isinstance(v, KW) else "env" if form in ENV_FORMS else "E0" if not e1 else ("mid" if pos == "mid" else "pos")] += 1
        exp = r["exp"]
        hung = any(isinstance(o, tuple) and o[0] == "hang" for o in r["obs"].values())
        if len(paths) < len(PATHS) and not hung and any(not matches(o, exp) for o in r["obs"].values()):
            rest = tuple(p for p in PATHS if p not in paths)
            r["obs"].update(run_case(form, pos, e1, v, rest)["obs"])
        evals += len(r["obs"])
        for p in r["obs"]:
            by_path[p] += 1
        ran = sorted(r["obs"])
        bad = {p: signature(o, exp) for p, o in r["obs"].items() if not matches(o, exp)}
        if not bad and any(r["obs"][p] != r["obs"][ran[0]] for p in ran[1:]):
            bad = {p: "paths-differ" for p in ran}  # each allowed on its own, but the paths disagree
        if bad:
            fails.append({"form": form, "pos": pos, "e1": e1, "v": v, "bad": bad, "obs": _scrub(r["obs"]), "exp": exp_json(exp), "src": r["src"], "ran": ran})
    return {"fails": fails, "evals": evals, "cases": cases, "by_path": by_path, "by_kind": by_kind}


# ---------------------------------------------------------------- attribution (narrow keys)


def attribute(fails):
    """Reduce every failing (form,pos,cfg,path,value) to the shortest failing sub-sequence of the
    value, preferring the base position / configuration (all candidates are inside the enumerated,
    deletion-closed space and are looked up in the set of observed failures - nothing is re-run),
    then key the violation by the reduced case:
    <form>[@pos][@E0]:<path|all>:<char classes of minimal value>:<signature of the minimal case>."""
    idx = {}
    for f in fails:
        for path, sig in f["bad"].items():
            idx[(f["form"], f["pos"], f["e1"], path, f["v"])] = (f, sig)
    keyed = {}
    subs_cache = {}
    for (form, pos, e1, path, v), (f, _sig) in idx.items():
        # candidates: every sub-sequence of the value (the space is closed under deletion), at the
        # same or the base position / configuration, that failed on the same form and path
        if v not in subs_cache:
            cands = _subsequences(v)
            if isinstance(v, ML):
                # repair transform for line sequences: besides deleting lines, replace any lines by
                # the plain kind - what remains are the lines that matter
                for w in list(cands):
                    for k in range(1, len(w) + 1):
                        for idxs in itertools.combinations(range(len(w)), k):
                            cands.add(ML("P" if i in idxs else t for i, t in enumerate(w)))
                subs_cache[v] = sorted(cands, key=lambda w: (len(w), sum(t != "P" for t in w), _order_key(w)))
            else:
                subs_cache[v] = sorted(cands, key=_order_key)
        best = None
        for w in subs_cache[v]:
            if best is not None and len(w) > len(best[2]):
                break
            for pos2 in dict.fromkeys(("mid", pos)):
                for e2 in dict.fromkeys((True, e1)):
                    if (form, pos2, e2, path, w) in idx:
                        cand = (pos2, e2, w)
                        rank = (len(w), sum(t != "P" for t in w) if isinstance(w, ML) else 0, pos2 != "mid", not e2, _order_key(w))
                        if best is None or rank < best_rank:
                            best, best_rank = cand, rank
        pos, e1, v = best
        m, sig = idx[(form, pos, e1, path, v)]
        ran = m["ran"]
        same = {p for p in ran if m["bad"].get(p) == sig}
        if same == set(ran) and len(ran) > 1:
            ppart = "all"
        elif len(same) > 1 and same == set(ran) & set(ALIASED):
            ppart = "aliased"  # exactly the paths whose command word is a list / string alias
        elif len(same) > 1 and same == set(ran) & set(DIRECT):
            ppart = "direct"
        else:
            ppart = path
        fk = FAMILY.get(form, form) + ("" if pos == "mid" else "@" + POS_FAMILY.get(pos, pos)) + ("" if e1 else "@E0")
        key = f"{fk}:{ppart}:{classes_of(v)}:{sig}"
        case_id = (f["form"], f["pos"], f["e1"], f["v"])
        keyed.setdefault((key, case_id), (f, v))
    return keyed


# ---------------------------------------------------------------- run / replay


def run(ctx):
    global _PROBE_SET, _THOROUGH
    tables.ensure_tables()
    _THOROUGH = ctx.thorough
    maxlen = ctx.pick(2, 3)
    values = enumerate_values(maxlen)
    _PROBE_SET = set()
    for p in PROBES:
        _PROBE_SET |= _subsequences(p)
    env_values = enumerate_env_values(maxlen)
    ctx.log(f"{len(values)} values (len<={maxlen} over {len(ALPHABET)} characters + probe closure) x {len(FORMS)} forms; {len(env_values)} variable values (<={maxlen} of {len(VTOKENS)} tokens) x {len(ENV_FORMS)} uses")
    kw_values = enumerate_keyword_words(ctx.thorough)
    ctx.log(f"{len(kw_values)} words around the keywords {list(KEYWORDS)}")
    ml_values = enumerate_ml_values(ctx.pick(3, 4))
    ctx.log(f"{len(ml_values)} multi-line literals (1..{ctx.pick(3, 4)} lines of {len(ML_TOK)} kinds" + ("" if ctx.thorough else " + 36 four-line ones") + f") x {len(ML_FORMS)} forms")
    tw_values = enumerate_tilde_words()
    ctx.log(f"{len(tw_values)} words of <= 5 characters over {TW_ALPHABET!r} with two or more `=` and a `~`")
    n_a = len(values)
    values = values + env_values + kw_values + ml_values + tw_values
    res = common.pmap(_check_value, values, ctx.jobs, chunk=1, init=_init_worker, seed=ctx.seed)
    fails = [f for r in res for f in r["fails"]]
    evals = sum(r["evals"] for r in res)
    cases = sum(r["cases"] for r in res)
    nontrivial = 0
    for v, r in zip(values, res):
        if r["cases"] and ((isinstance(v, ML) and len(v) > 1) or any(not (c.isascii() and c.isalnum()) for c in v)):
            nontrivial += 1  # (for part B: c is a token; every value with a token other than `a`)
    keyed = attribute(fails)
    # simplest case first per key (the first one becomes the artefact): short value, base position, default config
    order = sorted(keyed, key=lambda kc: (kc[0], len(kc[1][3]), kc[1][1] != "mid", not kc[1][2], _order_key(kc[1][3]), ALL_FORMS.index(kc[1][0]), kc[1][1]))
    for key, case_id in order:
        f, minimal = keyed[(key, case_id)]
        ctx.violation(
            key=key,
            clause="argv delivered == argv written",
            case={"form": f["form"], "pos": f["pos"], "expand_env_vars": f["e1"], "value": list(f["v"]) if isinstance(f["v"], tuple) else f["v"], "value_kind": "tw" if isinstance(f["v"], TW) else "ml" if isinstance(f["v"], ML) else "kw" if isinstance(f["v"], KW) else "env" if isinstance(f["v"], tuple) else "str", "paths": f["ran"], "failing_paths": f["bad"], "source": f["src"], "minimal_value": list(minimal) if isinstance(minimal, tuple) else minimal},
            observed=f["obs"],
            expected=f["exp"],
            note="expected = list of arguments, each with the set of values the documentation allows",
        )
    ctx.log(f"{cases} cases, {evals} executions, {len(fails)} failing cases -> {len({k for k, _ in keyed})} keys")
    # evidence samples: a deterministic handful of real cases, re-run here
    _init_worker()
    pool = [v for v in values[:n_a] if len(v) == maxlen and not v.isalnum()]
    show = ("dq", "raw", "ffield", "atlist", "gluesuf", "macroarg", "tsq", "plain", "f", "atgen")
    k = 0
    for form, v in (("envdq", ("$W", "$")), ("envgluesuf", ("*",))):
        r = run_case(form, "mid", True, v, ("u", "lu"))
        ctx.sample({"form": form, "Q": "".join(v), "W": ENV_W, "source": r["src"].replace("CMD", "recu"), "observed_direct": _scrub(r["obs"]["u"]), "observed_through_list_alias": _scrub(r["obs"]["lu"]), "expected_allowed_per_argument": exp_json(r["exp"])})
    for pos, v in (("mid", KW(("-", "or"))), ("befand", KW(("a", "-", "and")))):
        r = run_case("plain", pos, True, v, ("u", "c"))
        ctx.sample({"form": "plain", "position": pos, "word": "".join(v), "source": r["src"].replace("CMD", "recu"), "observed_alias": r["obs"]["u"], "observed_child": r["obs"]["c"], "expected_allowed_per_argument": exp_json(r["exp"])})
    for v in common.pick_samples(pool, ctx.seed, 6):
        for j in range(len(show)):
            form = show[(k + j) % len(show)]
            r = run_case(form, "mid", True, v, ("u",))
            if r:
                ctx.sample({"form": form, "value": v, "source": r["src"].replace("CMD", "recu"), "observed": _scrub(r["obs"]["u"]), "expected_allowed_per_argument": exp_json(r["exp"])})
                k += j + 1
                break
    by_path = {p: sum(r["by_path"][p] for r in res) for p in PATHS}
    by_kind = {k: sum(r["by_kind"][k] for r in res) for k in ("mid", "E0", "pos", "env", "kw", "ml", "tw")}
    if ctx.thorough:
        plan_txt = f"length<=2 and probes: middle position on all six delivery paths, $EXPAND_ENV_VARS=False and the 4 other positions on the unthreaded alias (length<=1 and the probes: on the three direct paths, $EXPAND_ENV_VARS=False also through the list alias); length 3: middle position on the unthreaded alias, plus with $EXPAND_ENV_VARS=False and (forms raw, at, atlist, macro) through the list alias when the value contains $ or ~, without the forms {list(QUICK_TINY_ONLY)}"
    else:
        plan_txt = f"middle position on the unthreaded alias for every value; length<=1 and the probes on all six delivery paths (probes longer than 1: five, without list-alias->child), with $EXPAND_ENV_VARS=False (also through the list alias when the value contains $ or ~), and in the 4 other positions (redirect/capture positions on the three direct paths for length<=1); length-2 values containing $ or ~ also through the list alias and with $EXPAND_ENV_VARS=False; the forms {list(QUICK_TINY_ONLY)} only for length<=1 and the probes' closure"
    plan_txt += f"; part B: variable Q set to every non-empty sequence of <= {maxlen} of the tokens {list(VTOKENS)} ($W='{ENV_W}', files matching the globs present) and used as {[a for a, _, _ in ENV_FORMS.values()]} (%s = the same text written literally, expected verbatim) on the unthreaded alias directly and through the list alias (single tokens: all six paths), expected = the value substituted verbatim exactly once, 3 s alarm per execution"
    plan_txt += f"; part C: {len(kw_values)} words of <= {3 if ctx.thorough else 2} tokens over a keyword K and {list(KDECOR)} that contain K, for K in {list(KEYWORDS)}" + ("" if ctx.thorough else f" plus the three-token shapes {[''.join(t) for t in KSHAPES3]}") + f", as a plain word (bare and/or excepted) in the positions {list(KW_POSITIONS)} (bef*/aft* = directly before/after a real `and` / `&&`: two commands written, exactly two must run; otherwise exactly one) and in the forms {list(FORMS if ctx.thorough else KW_FORMS_QUICK)}"
    plan_txt += f"; part D: literals written over 1..{ctx.pick(3, 4)} physical lines, every sequence of the line kinds {ML_LINES} (Q = a line with the other triple quote)" + ("" if ctx.thorough else " plus the 36 four-line sequences plain,x,y,plain; three-line sequences only as \"\"\"...\"\"\"") + f", in the forms {dict(ML_FORMS)} where Python accepts the literal (raw: without the backslash lines, see the known finding), as the middle argument (<=2 lines: also real child and list alias), with the command continued after the literal by backslash-newline, and by backslash-newline + a comment-only line" + (", and as first / last argument" if ctx.thorough else "") + "; expected = the Python value of the literal"
    plan_txt += f"; part E: the {len(tw_values)} strings of 3..5 characters over {TW_ALPHABET!r} with at least two `=` and a `~`, as a plain word, in '..', \"..\", f'..' (expected strictly by the rule written above tools.expand_path: leading ~, ~ after the FIRST = and after : behind it) and in r'..' / @() (verbatim), middle position, unthreaded alias (plain, dq, raw also through the list alias)"
    ctx.coverage.update(
        evaluations=evals,
        distinct_nontrivial=nontrivial,
        rule=f"every string of length <= {maxlen} over the {len(ALPHABET)}-character alphabet (a, blank, tab, newline, both quotes, backslash, $ ~ * ? [ ] {{ }} ( ) & | ; < > ! # = - , @, e-acute, an astral emoji) plus the deletion-closure of the {len(PROBES)} longer probes {PROBES}; each value written in every applicable form of {list(FORMS)} and executed through Execer.exec; six delivery paths: threaded alias, unthreaded alias, real child, and the same recorders reached through a list alias / a string alias (-> unthreaded alias) and a list alias (-> child) that add one fixed argument; {plan_txt}; any case failing on the paths planned is re-run on the remaining delivery paths; non-trivial = values containing at least one non-alphanumeric character that reached the argv comparison in at least one form",
        exhaustive=True,
        values=len(values),
        max_value_length=maxlen,
        cases=cases,
        cases_middle_position=by_kind["mid"],
        cases_expand_env_vars_false=by_kind["E0"],
        cases_other_positions=by_kind["pos"],
        cases_variable_values=by_kind["env"],
        cases_keyword_words=by_kind["kw"],
        cases_multiline_literals=by_kind["ml"],
        cases_tilde_words=by_kind["tw"],
        tilde_words=len(tw_values),
        multiline_literals=len(ml_values),
        keyword_words=len(kw_values),
        variable_values=len(env_values),
        executions_threaded_alias=by_path["t"],
        executions_unthreaded_alias=by_path["u"],
        executions_real_child=by_path["c"],
        executions_list_alias_to_alias=by_path["lu"],
        executions_string_alias_to_alias=by_path["su"],
        executions_list_alias_to_child=by_path["lc"],
        forms=len(FORMS),
        failing_cases=len(fails),
        distinct_keys=len({k for k, _ in keyed}),
    )
    ctx.assumptions += [
        "argument values without NUL and without lone surrogates; alphabet of 30 characters (every ASCII shell/Python metacharacter class has one representative) - longer values only through the probes",
        "the real child is a /bin/sh (dash) script running `printf '%s\\0' \"$#\" \"$@\"` found through $PATH; it is run for the short values stated in the rule and for every case that fails on an alias path",
        "Linux, UTF-8 locale, $XONSH_SUBPROC_ARG_EXPANDUSER=True, $HOME identical in os.environ and the xonsh environment",
        "where the documentation is silent (${NAME}, ~ after = or :, order of f-string formatting and substitution) every reading is accepted",
    ]


def replay(rec):
    global _PROBE_SET
    case = rec["case"]
    for p in PROBES:
        _PROBE_SET |= _subsequences(p)
    tables.ensure_tables()
    _init_worker()
    value = tuple(case["value"]) if case["form"] in ENV_FORMS else KW(case["value"]) if case.get("value_kind") == "kw" else ML(case["value"]) if case.get("value_kind") == "ml" else TW(case["value"]) if case.get("value_kind") == "tw" else case["value"]
    r = run_case(case["form"], case["pos"], case["expand_env_vars"], value, tuple(case["paths"]))
    if r is None:
        print("case is skipped by the generator now")
        return 0
    print("source   :", repr(r["src"]), "(CMD = t: rect threaded alias / u: recu unthreaded alias / c: recc child / lu: ['recu','FIX'] / su: 'recu FIX' / lc: ['recc','FIX']; the FIX argument is removed before comparing)")
    if case["form"] in ENV_FORMS:
        print("variables: Q =", repr("".join(value)), " W =", repr(ENV_W))
    print("value    :", repr(case["value"]), " $EXPAND_ENV_VARS =", case["expand_env_vars"])
    bad = 0
    for p, o in r["obs"].items():
        ok = matches(o, r["exp"])
        bad += not ok
        print(f"observed[{p}]:", repr(o), "" if ok else "   <-- differs")
    print("expected :", exp_json(r["exp"]), "(per argument: allowed values)")
    return 1 if bad else 0
