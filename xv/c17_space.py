"""C17 input space: a small statement grammar UNION xonsh forms, each rendered under an
exhaustively enumerated LAYOUT alphabet with a deviation bound k.

Form notation (one string per form):
  * lines are separated by "\\n"; leading '>' characters give the block level of the line;
  * inside a line, chunks are separated by ' ' (canonical gap = one space) or by the middle dot
    (canonical gap = nothing).  EVERY such separator is a *layout site* (a gap);
  * inside a chunk U+2423 stands for a literal space, U+23CE for a literal newline and U+21E5 for a
    literal tab (so multi-line strings / raw macro text can carry blanks that are not sites);
  * '{E}' (expression slot) and '{S}' (statement slot, whole line) are filled by the context
    product in forms().

A layout is a set of deviations from the canonical rendering: (site, alternative) pairs.  Sites are
every gap, a 'pre' and a 'post' site per logical line (blank-line runs / own-line comments before
it, trailing blanks / inline comments after it) and three global sites (indent unit, line ending,
end of file).  The enumeration yields every layout with at most k deviations, simplest first."""

import itertools

SP, NL, TAB = "␣", "⏎", "⇥"
DOT = "·"

# ---------------------------------------------------------------- forms

# identifiers that stand for bound Python names in the forms (everything else - ls, echo, cmd,
# cat, git ... - is an unbound word, i.e. a command for xonsh's context-sensitive parser)
BOUND = frozenset("a b c d e i j k u v w x y z f g m s t self print E A B M dec dec2 ctx aliases int sep".split())

# expressions (Python)
PY_EXPRS = [
    "a + b",
    "a·-·b",
    "-·a",
    "a - -·b",
    "a ** -·b",
    "a·*·b // c % d",
    "a @ b",
    "a << b | c & ~·d",
    "(·a := 1·)",
    "a·[·1·:·2·]",
    "a·[·b·:·c·:·-·1·]",
    "a·[·:·,·1·]",
    "a·[·:·]",
    "lambda·: a",
    "lambda x·,·y·=·1·: x·[·y·:·]",
    "lambda *·a·,·**·k·: 0",
    "{·a·: 1·,·b·: 2·}",
    "{·a·,·b·}",
    "{·**·a·,·'k'·: lambda·: 0·}",
    "[·x for x in a if x·]",
    "{·k·: v for k·,·v in a·}",
    "(·x async for x in a·)",
    "f·(·a·,·b·=·1·,·*·c·,·**·d·)",
    "a·.·b·(·)·.·c",
    "a if b else c",
    "not a",
    "a and not b or c",
    "a is not b",
    "a not in b",
    "a < b <= c",
    "a == b != c",
    "a·>=·b",
    "(·a·,·)",
    "(·yield·)",
    "await a",
    "1 .·real",
    "1. + .5j",
    "0x1f·if·a·else·1_0",
    "...",
    "print·(·*·a·,·sep·=·''·)",
]

# strings / f-strings
STR_EXPRS = [
    "'a" + SP + SP + "b'",
    '"a#b"',
    "'''a" + SP + SP + NL + "b'''",  # trailing blanks inside a multi-line string
    '"""a' + NL + "#" + SP + "c" + SP + NL + 'b"""',  # '#' line with trailing blank inside a string
    "'''a\\" + NL + "b'''",  # backslash at end of line inside a string
    "'''a" + TAB + NL + NL + SP + NL + "'''",  # tab at EOL, blank line, whitespace-only line inside
    "r'\\d' 'b'",
    "b'a'·+·B\"b\"",
    "'a\\" + NL + "b'",  # single-quoted string continued with a backslash
    "f'{·a·}'",
    "f'{{a}}" + SP + "{{'",
    "f'{{·{·a·}·}}'",
    "f\"{·a·!r·:·>{·w·}·}\"",
    "f\"{·d·[·'k'·]·}" + SP + "{·x·!s·}\"",
    "f'{·a·=·}'",
    "f'{·a = ·}'",
    "f'{·a·:·>10·}" + SP + SP + "'",
    "f'{·a·:" + SP + "^" + SP + "5·}'",
    "f'{·lambda·: 1·}'",
    "f'''x" + SP + SP + NL + "{·a·}" + NL + "{{" + NL + "}}" + SP + NL + "'''",
    "F'a'·f\"b\"",
    "f'{·a·}'·'{b}'",
    "f'{·x·:·{·y·}·.·{·z·}·}'",
    "rf'\\{·a·}'",
]

# xonsh expressions (valid in Python mode)
X_EXPRS = [
    "$X",
    "$X·.·upper·(·)",
    "${·'X'·}",
    "${·a + 'b'·}",
    "$(·ls -·l·)",
    "!(·ls -·l·)",
    "![·ls -·l·]",
    "$[·ls -·l·]",
    "$(·echo a | grep b·)",
    "$(·echo @(·a·) $X·)",
    "$(·echo -·-·k·=·v·)",
    "$(·echo a > f·)",
    "$(·echo 'a" + SP + SP + "b'·)",
    "$(·echo a·==·b·)",
    "$(·echo a·,·b c·:·d·)",
    "$(·echo @$(·which ls·)·)",
    "$(·ls a && ls b·)",
    "!(·ls·)·.·rtn",
    "p'a/b'",
    "pf'{·a·}/b'",
    "`a.*`",
    "g`*.py`",
    "f·!(·a ,·b·)",
    "f·!(·x" + SP + SP + "=" + SP + "1·)",
    "f·!(·[·1·,·2·]·,·g·(·x , y·)·)",
    "f·!(·'a" + SP + SP + "b'·)",
    "f·!(·)",
    # multi-line tokens as raw macro material, followed by blanks and another word on their last line
    "f·!(·a" + SP + "'''x" + NL + SP + "y'''" + SP + SP + SP + "b·)",
    "f·!(·a" + SP + "'a\\" + NL + "b'" + SP + SP + SP + "c ,·d·)",
    "a·?",
    "a·.·b·??",
]

# expression contexts ({E} = the expression)
EXPR_CTX = [
    "x = {E}",
    "{E}",
    "f·(·{E}·,·1·)",
    "def f·(·)·:\n>return {E}",
    "if {E}·:\n>pass",
    "echo @(·{E}·) b",
]
# contexts used for the xonsh expressions (no second Python-only slot needed)
XEXPR_CTX = ["x = {E}", "{E}", "f·(·{E}·,·1·)", "for i in {E}·:\n>>echo @(·i·)".replace(">>", ">")]

# simple statements
SIMPLE_STMTS = [
    "x = 1",
    "x·=·y·=·1",
    "x += 1",
    "x·-=·-·1",
    "x·:·int = 1",
    "x·:·int",
    "a·,·b = b·,·a",
    "a·[·0·]·,·*·b = c",
    "del a·,·b",
    "assert a·,·'m'",
    "import a·.·b as c·,·d",
    "from a import (·b·,·c as d·,·)",
    "from . import a",
    "from ..·a import *",
    "global a·,·b",
    "pass",
    "raise E·(·1·) from e",
    "x = 1·;·y = 2",
    "x = 1·;",
    "print·(·a·)",
    "return",
    "if a·: b = 1",
    "x = [·1·,·2·,·]·;·ls -·l",
]

# compound statements (self contained blocks)
BLOCK_STMTS = [
    "def f·(·a·,·b·=·1·,·*·,·c·:·int·=·2·) -> int·:\n>return a",
    "@·dec\n@·dec2·(·1·,·k·=·2·)\ndef f·(·)·:\n>pass",
    "@·a·.·b\nclass A·:\n>pass",
    "class A·(·B·,·metaclass·=·M·)·:\n>x = 1\n>def m·(·self·)·:\n>>return 1\n>y = 2",
    "if a·:\n>b\nelif c·:\n>d = 1\nelse·:\n>e = 1",
    "for i·,·j in a·:\n>x = i\nelse·:\n>pass",
    "while a·:\n>break\n>continue",
    "with a as b·,·c·(·)·as d·:\n>pass",
    "try·:\n>a = 1\nexcept E as e·:\n>raise\nexcept (·A·,·B·)·:\n>pass\nelse·:\n>pass\nfinally·:\n>pass",
    "def f·(·)·:\n>yield a\n>x = yield\n>yield from b",
    "async def f·(·)·:\n>async with a·:\n>>await b",
    "def f·(·)·:\n>'''doc" + SP + NL + SP + SP + "more" + NL + SP + SP + "'''\n>return 1",
    "def f·(·)·:\n>def g·(·)·:\n>>return 1\n>return g",
    "if a·:\n>if b·:\n>>c = 1\n>d = 2\ne = 3",
    "match a·:\n>case [·1·,·x·]·:\n>>pass\n>case _·:\n>>pass",
    "x = [\n>1·,\n>2·,\n]",
    "f·(\n>a·,\n>b·=·1·,\n)",
    "x = (·a\n>and b·)",
]

# xonsh statements
X_STMTS = [
    "ls -·l",
    "ls -·l -·-·all",
    "ls - l",
    "echo a > f",
    "echo a >> f",
    "echo a·>·f",
    "echo a 2·>·&·1",
    "echo a 2>&1 | cat",
    "echo a e>o",
    "cat < f",
    "cmd -·-·k·=·v | other",
    "cmd -·-·k = v",
    "ls | grep a | wc -·l",
    "echo $X",
    "echo $X·/·bin",
    "echo ${·'X'·}",
    "echo @(·a·)",
    "echo @(·a + 1·)·.·txt",
    "echo $(·ls -·l·)",
    "echo @$(·which ls·)",
    "echo a·.·txt",
    "echo *·.·py",
    "ls /·usr·/·bin",
    "cd ~·/·x",
    "cd ..",
    "cd -",
    "echo a·==·b",
    "echo a·!=·b",
    "echo a·<=·b",
    "echo a·->·b",
    "echo a·:=·b",
    "echo a·+=·b",
    "echo a·,·b",
    "echo a·:·b",
    "echo a·;·b",
    "echo a·=·b",
    "echo a·+·b",
    "echo a·-·b",
    "echo (·a·)",
    "echo [·a·]",
    "echo {·a·}",
    "echo a·[·1·:·2·]",
    "echo 1 2",
    "echo 1·.·5",
    "echo -·n a",
    "echo if a else b",
    "echo not a",
    "echo lambda x·: x",
    "tar -·xzf a·.·tar·.·gz",
    "git commit -·m 'a" + SP + SP + "b'",
    "echo \"a" + SP + SP + "$X\"",
    "echo 'a'·\"b\"",
    "echo a·'b'·c",
    "echo f'{·a·}'",
    "echo '''a" + SP + NL + "b'''",
    "python -·c \"print(1)\"",
    "ls a && ls b",
    "ls a || ls b",
    "ls a and ls b",
    "ls a or ls b",
    "ls a && ls b || ls -·c",
    "sleep 1 &",
    "echo·! raw text·,·x",
    "echo·!" + SP + "raw" + SP + SP + SP + "text",
    "echo·! a" + SP + SP + "==·b -·c",
    "echo·!",
    "echo·! a" + SP + "'''x" + NL + SP + "y'''" + SP + SP + SP + "b c",
    "echo·! a" + SP + "\"a\\" + NL + "b\"" + SP + SP + SP + "c",
    "bash -·c·! echo" + SP + SP + "$X",
    "with·! ctx·:\n>a" + SP + SP + "b\n>c·=·1",
    "with·! ctx·:\n>ls -·l\n>if a·:\n>>b",
    "with·! ctx as c·:\n>'''s" + SP + NL + "'''",
    "$X = 1",
    "$X·=·'a'",
    "$X += 'a'",
    "$PATH·.·append·(·'a'·)",
    "del $X",
    "x = $(·ls·)·.·split·(·)",
    "![·ls -·l·]",
    "![·echo a > f·]",
    "$[·ls·]",
    "aliases·[·'a'·] = 'b" + SP + "c'",
    "a·?",
    "ls·?",
    "$X·.·y = 1",
    "@(·a·) -·l",
    "$(·which ls·) -·l",
    "./·run·.·sh -·v",
    "/·bin·/·ls",
    "echo `a.*`",
    "echo g`*.py`",
    "echo ~",
    "echo a·@·b",
    "echo a·|·cat",
    "echo a |·cat",
    "x = 1 if $X else 2",
    "source a·.·xsh",
    "xontrib load a b",
    "echo 'a' > f·.·txt",
    "echo a 1·>·f",
    "echo a o·>·f",
    "echo a a·>·f",
    "echo $X·[·0·]",
    "echo $·{·'X'·}",
    "echo -·-·a·=·$X",
    "echo -·-·a·=·@(·1·)",
    "FOO·=·1 ls -·l",
    "$FOO·=·1 ls",
]

# statement contexts ({S} = the statement, possibly several lines)
STMT_CTX = [
    "{S}",
    "{S}\ny = 2",
    "if a·:\n>{S}\n>y = 2",
    "def f·(·)·:\n>for i in a·:\n>>{S}\n>return i",
]


def _indent_form(text, levels):
    return "\n".join(">" * levels + ln for ln in text.split("\n"))


def _fill_stmt(ctx, stmt):
    out = []
    for ln in ctx.split("\n"):
        lvl = len(ln) - len(ln.lstrip(">"))
        if ln[lvl:] == "{S}":
            out.append(_indent_form(stmt, lvl))
        else:
            out.append(ln)
    return "\n".join(out)


# which context indices make up the quick tier (the thorough tier uses all of them)
QUICK_CTX = {"py": (0, 5), "str": (0, 1, 5), "x": (0, 1, 3), "stmt": (0, 3), "block": (0, 2), "xstmt": (0, 2), "kw2": (0,)}

# command lines whose SECOND word is a Python keyword (hard and soft) and that carry a `k=v` word:
# `zpool import -o k=v`, `x for k=v`, `cmd with k=v` ...  xonsh parses them as commands; a
# formatter that takes the keyword for Python syntax applies the `=` rule and changes argv.
import keyword as _keyword

KW2_WORDS = list(_keyword.kwlist) + list(_keyword.softkwlist)
KW2_FORM = "zpool {KW} -·o k·=·v"


def forms():
    """[(family, core?, quick?, text)] - 'core' forms (context 0) also get the prefix family and
    the higher deviation bound of the thorough tier."""
    out = []
    seen = set()

    def add(fam, ci, text, core=None):
        if text not in seen:
            seen.add(text)
            out.append((fam, ci == 0 if core is None else core, ci in QUICK_CTX[fam], text))

    for fam, exprs, ctxs in (("py", PY_EXPRS, EXPR_CTX), ("str", STR_EXPRS, EXPR_CTX), ("x", X_EXPRS, XEXPR_CTX)):
        for e in exprs:
            for ci, c in enumerate(ctxs):
                add(fam, ci, c.replace("{E}", e))
    for fam, stmts in (("stmt", SIMPLE_STMTS), ("block", BLOCK_STMTS), ("xstmt", X_STMTS)):
        for s in stmts:
            for ci, c in enumerate(STMT_CTX):
                if s == "return" and ci < 3:
                    continue
                add(fam, ci, _fill_stmt(c, s))
    # never 'core' (no prelude / prefix / pair enumeration): short one-line forms, k=1 only
    for kw in KW2_WORDS:
        for ci, c in enumerate(STMT_CTX):
            add("kw2", ci, _fill_stmt(c, KW2_FORM.replace("{KW}", kw)), core=False)
    # expression statements nested at depth 2 (subprocess detection inside blocks)
    for e in X_EXPRS + STR_EXPRS[:6]:
        add("x", 9, _fill_stmt(STMT_CTX[3], e))
    return out


# ---------------------------------------------------------------- file-path family (non-ASCII text)

# `xonsh format FILE` works on BYTES on disk while format_source works on characters: every source
# PRE + BODY + POST with 2-, 3- and 4-byte characters in identifiers, strings, comments and
# command words, before and after the place that gets reformatted; bodies that grow, shrink, keep
# their length or stay unchanged.  Each goes through the real CLI in --check, --diff, in-place and
# in-place-again mode (see c17._cli_clauses) on top of the usual clauses.
UNI_LINES = [
    "\u00e9 = 1",
    "\u6f22 = 2",
    "s = '\u00e9'",
    "s = '\u20ac'",
    "s = '\U0001f642'",
    "# \u00e9",
    "# \u20ac",
    "# \U0001f642",
    "echo \u00e9 \u20ac",
    "t = '''\u00e9\n\U0001f642'''",
]
UNI_BODIES = [
    "x=1",  # grows
    "x   =   1   ",  # shrinks
    "x  =1",  # same length
    "x = 1",  # unchanged
    "\u00e9=1",
    "s='\u20ac'   ",
    "f('\U0001f642',1)",
    "if a:\n\tb=1\n\n\n\n\n\tc   =   2",
]


def uni_sources():
    out = []
    for pre in [""] + UNI_LINES:
        for body in UNI_BODIES:
            for post in [""] + UNI_LINES:
                out.append((pre + "\n" if pre else "") + body + "\n" + (post + "\n" if post else ""))
    return out


# ---------------------------------------------------------------- undecodable files

# Files that are not valid UTF-8: each of 7 invalid byte sequences (lone 0xEF / 0xFF / 0x80,
# truncated 3- and 4-byte sequences, a latin-1 byte, a bad continuation) spliced into a string, a
# comment or an identifier, before or after a body that needs / does not need reformatting.
# They cannot be decoded, let alone tokenised: every CLI mode must leave the bytes alone and
# report an error.
BAD_BYTES = [b"\xef", b"\xff", b"\x80", b"\xe2\x82", b"\xf0\x9f\x99", b"\xe9", b"\xc3\x28"]
BAD_PLACES = [b"s = 'a%sb'\n", b"# a%sb\n", b"a%sb = 1\n", b"echo a%sb\n"]
BAD_BODIES = [b"x=1\n", b"x = 1\n", b"if a:\n\tb=1   \n"]


def badbyte_sources():
    out = []
    for body in BAD_BODIES:
        for place in BAD_PLACES:
            for bad in BAD_BYTES:
                line = place.replace(b"%s", bad)
                out.append(line + body)
                out.append(body + line)
    return out


# ---------------------------------------------------------------- indentation family

# Every sequence of line indentations of 3..5 lines over the columns 0 2 4 8 and a tab: the space
# of well-nested AND of inconsistently dedented programs.  A line is a block header (`if a:`) when
# the next line is deeper, else a plain assignment.  Reference for 'cannot be tokenised': CPython's
# tokenizer (c17._ref_bad_dedent).
INDENT_STRS = ["", "  ", "    ", "        ", "\t"]
_COL = {"": 0, "  ": 2, "    ": 4, "        ": 8, "\t": 8}


def indent_sources(thorough):
    out = []
    for n in (3, 4, 5):
        alphabet = INDENT_STRS if (thorough or n <= 4) else INDENT_STRS[:4]
        for combo in itertools.product(alphabet, repeat=n):
            lines = []
            for i, ind in enumerate(combo):
                deeper_next = i + 1 < n and _COL[combo[i + 1]] > _COL[ind]
                lines.append(ind + ("if a:" if deeper_next else "x = %d" % i))
            out.append("\n".join(lines) + "\n")
    return out


# ---------------------------------------------------------------- parsing the notation


def parse_form(text):
    """-> [(level, chunks, canonical_gaps)]"""
    lines = []
    for raw in text.split("\n"):
        level = len(raw) - len(raw.lstrip(">"))
        body = raw[level:]
        chunks, gaps, cur = [], [], []
        for ch in body:
            if ch == " " or ch == DOT:
                chunks.append("".join(cur))
                gaps.append(" " if ch == " " else "")
                cur = []
            else:
                cur.append(ch)
        chunks.append("".join(cur))
        chunks = [c.replace(SP, " ").replace(NL, "\n").replace(TAB, "\t") for c in chunks]
        lines.append((level, chunks, gaps))
    return lines


# ---------------------------------------------------------------- layout alphabet

GAP_OUT = ["", " ", "   ", "\t", " \\\n", "\\\n", " \\\n      ", " \\\n\t", " \\ \n"]
GAP_IN = ["\n", "\n  ", "\n\t\t", " # c\n", "\n# c\n    ", " \n", "\n\n", "\n        "]
# reduced alphabets used for the pair (k=2) enumeration
GAP_OUT_2 = ["", " ", "   ", " \\\n      "]
GAP_IN_2 = ["\n", " # c\n"]

POST = ["  ", "\t", " # c", "# c", "  #c  ", " #", "   # c # d"]
POST_2 = ["  ", "# c"]
# pre-line alternatives are symbolic: rendered with the line's own indent
PRE = [
    ("blank", 1),
    ("blank", 2),
    ("blank", 3),
    ("blank", 4),
    ("wsblank",),
    ("cmt", "same"),
    ("cmt", "col0"),
    ("cmt", "deeper"),
    ("cmt+blank",),
    ("blank+cmt+blank",),
    ("cmt-trailing-ws",),
    ("cmt", "bare"),
]
PRE_2 = [("blank", 1), ("blank", 3), ("cmt", "same"), ("cmt", "col0")]

INDENTS = ["\t", "  ", "        ", " ", "mix"]
INDENTS_2 = ["\t", "  "]
EOLS = ["\r\n"]
FINALS = ["", "\n\n\n", "\n  \n", "  ", "\n# c", "\n\t"]
FINALS_2 = [""]

# Characters that str.splitlines() treats as line boundaries but the tokenizer (and '\n'-based
# line bookkeeping) does not: form feed, vertical tab, FS, NEL, LINE SEPARATOR.  One of them is
# placed in a PRELUDE line in front of the form - inside a one-line string, inside a triple-quoted
# string, inside a comment, or as leading white space of a statement - and the form is followed
# by a TAIL holding the constructs whose layout depends on per-line source look-ups (bracketed
# expression continued over lines with a hanging indent, f-string with doubled braces, backslash
# continuations in Python and subprocess mode, own-line comment in a nested block).  The tail on
# its own is formatted meaning-preservingly and idempotently by the unchanged formatter.
LINESEP_CHARS = ["\x0c", "\x0b", "\x1c", "\x85", "\u2028"]
PRELUDE_PLACES = ["str", "mlstr", "cmt", "lead"]
PRELUDES = [(pl, ch) for pl in PRELUDE_PLACES for ch in LINESEP_CHARS]
PRELUDES_2 = [("str", "\x0c"), ("mlstr", "\u2028"), ("cmt", "\x85"), ("lead", "\x0c")]
PRELUDE_TAIL = "t = [a,\n     b]\nu = f'{{a}} {b} }}'\nv = a + \\\n    b\nls -l \\\n    -a\nif t:\n    # c\n    w = (t,\n         u)\n"


def prelude_text(alt):
    place, ch = alt
    if place == "str":
        return "s = 'a%sb'\n" % ch
    if place == "mlstr":
        return "s = '''a%sb\nc'''\n" % ch
    if place == "cmt":
        return "# a%sb\n" % ch
    if place == "lead":
        return "%ss = 1\n" % ch
    raise AssertionError(alt)


def _depths(lines):
    """bracket depth *after* each chunk, per line (brackets can span lines)."""
    depth = 0
    out = []
    for _lvl, chunks, _g in lines:
        row = []
        for c in chunks:
            if c and c[-1] in "([{" and not (len(c) > 1 and c[0] in "'\"" ):
                depth += 1
            elif c and c[0] in ")]}" and depth > 0:
                depth -= 1
            row.append(depth)
        out.append(row)
    return out


def sites(lines, reduced=False, prelude=False):
    """[(site_id, [alternatives])] - alternative lists never contain the canonical choice."""
    out = []
    if prelude:
        out.append((("prelude",), list(PRELUDES_2 if reduced else PRELUDES)))
    dep = _depths(lines)
    g_out, g_in = (GAP_OUT_2, GAP_IN_2) if reduced else (GAP_OUT, GAP_IN)
    start_depth = 0
    for li, (lvl, chunks, gaps) in enumerate(lines):
        pre = PRE_2 if reduced else PRE
        if start_depth == 0:
            out.append((("pre", li), [p for p in pre if not (p == ("cmt", "col0") and lvl == 0)]))
        for gi, canon in enumerate(gaps):
            alts = [a for a in g_out if a != canon]
            if dep[li][gi] > 0:
                alts += g_in
            out.append((("gap", li, gi), alts))
        if dep[li][-1] == 0:
            out.append((("post", li), list(POST_2 if reduced else POST)))
        else:
            out.append((("post", li), ["  ", " # c"]))
        start_depth = dep[li][-1]
    if any(lvl > 0 for lvl, _c, _g in lines):
        out.append((("indent",), list(INDENTS_2 if reduced else INDENTS)))
    out.append((("eol",), list(EOLS)))
    out.append((("final",), list(FINALS_2 if reduced else FINALS)))
    return out


def _indent(unit, lvl):
    if unit == "mix":
        return "" if lvl == 0 else "\t" + "  " * (lvl - 1)
    return unit * lvl


def _pre_text(alt, ind, unit):
    kind = alt[0]
    if kind == "blank":
        return "\n" * alt[1]
    if kind == "wsblank":
        return ind + "   \n"
    if kind == "cmt":
        how = alt[1]
        if how == "same":
            return ind + "# c\n"
        if how == "col0":
            return "# c\n"
        if how == "deeper":
            return ind + _indent(unit, 1) + "#c\n"
        if how == "bare":
            return ind + "#\n"
    if kind == "cmt+blank":
        return ind + "# c\n\n"
    if kind == "blank+cmt+blank":
        return "\n\n\n" + ind + "#c\n\n\n"
    if kind == "cmt-trailing-ws":
        return ind + "# c  \t\n"
    raise AssertionError(alt)


def render(lines, devs):
    """devs: {site_id: alternative value}.  Returns the program text (str; '\\r\\n' applied last)."""
    unit = devs.get(("indent",), "    ")
    out = []
    dep = _depths(lines)
    start_depth = 0
    for li, (lvl, chunks, gaps) in enumerate(lines):
        ind = _indent(unit, lvl)
        if ("pre", li) in devs:
            out.append(_pre_text(devs[("pre", li)], ind, unit if unit != "mix" else "\t"))
        # continuation lines inside an open bracket keep the canonical indent as visual alignment
        out.append(ind)
        out.append(chunks[0])
        for gi, canon in enumerate(gaps):
            out.append(devs.get(("gap", li, gi), canon))
            out.append(chunks[gi + 1])
        out.append(devs.get(("post", li), ""))
        out.append("\n")
        start_depth = dep[li][-1]
    text = "".join(out)
    if ("prelude",) in devs:
        text = prelude_text(devs[("prelude",)]) + text + PRELUDE_TAIL
    fin = devs.get(("final",))
    if fin is not None:
        text = text[:-1] + fin
    if devs.get(("eol",)) == "\r\n":
        text = text.replace("\n", "\r\n")
    return text


def layouts(lines, k, reduced_pairs=True, prelude=False):
    """Every deviation set of size <= k, simplest first.  Sets of size 2 use the reduced alphabet
    when reduced_pairs is set (the full x full product is what the bound k=2 would mean with the
    full alphabet; the reduced one keeps the thorough tier inside its budget - stated in the
    evidence)."""
    yield ()
    full = sites(lines, prelude=prelude)
    if k >= 1:
        for sid, alts in full:
            for a in alts:
                yield ((sid, a),)
    if k >= 2:
        ss = sites(lines, reduced=reduced_pairs, prelude=prelude)
        for (s1, a1s), (s2, a2s) in itertools.combinations(ss, 2):
            for a1 in a1s:
                for a2 in a2s:
                    yield ((s1, a1), (s2, a2))


def devs_to_json(devs):
    return [[list(s), list(a) if isinstance(a, tuple) else a] for s, a in devs]


def devs_from_json(js):
    out = []
    for s, a in js:
        s = tuple(s)
        if isinstance(a, list):
            a = tuple(a)
        out.append((s, a))
    return tuple(out)
