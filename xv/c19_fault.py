"""C19 part 2 - exhaustive corruption and crash enumeration on two real cache entries
(script entry of body 1 = the one with a subprocess line; `-c` entry of "print('ka'); 7").

Static corruptions of a FRESH-by-mtime entry:
    trunc k      the first k bytes, every k in 0..len(file)   (k = len is the intact control)
    zero k       full length, bytes from offset k on are NUL, k stepping by 16 (torn, zero-extended)
    foreign v    another xonsh version / another Python minor / another release level / a stamp that
                 properly extends (0.24.1 -> 0.24.10, 0.24.1.dev3) or is a proper prefix (0.24.) of the
                 running one, on either version line - each carrying a loadable payload that prints a
                 tell-tale marker; a 5000-byte line without newline
    dir          a directory in place of the file
    unreadable   mode 000 with the DAC capabilities dropped
    flip b       exactly one bit of the payload (the bytes after the two version lines) inverted.
                 thorough: every bit of every payload byte of both entries; quick: every bit of payload
                 bytes 0..63 and, for every later byte i, the single bit i mod 8.  Each flip runs in a
                 forked child (address space limited, alarm set) with script_cache_check /
                 code_cache_check wrapped by recorders.  A flip after which the check function hands out
                 a CODE OBJECT is "loaded flipped code: not judged" (undetectable damage; counted, and the
                 child stops right there - bytecode with a flipped bit is never executed).  Otherwise the
                 entry is detectably damaged (unmarshalling raises, or yields something that is not a
                 code object): no exception may escape the run (key ...:bit-flip:escaped-<ExcType>), the
                 run must equal the uncached run (a non-code object handed out as "the cached code" is
                 ...:bit-flip:loaded-non-code-object), the entry must be valid afterwards and the next run
                 match.  The parent enforces a deadline with SIGKILL on the child's process group.
Dynamic faults (crashx shims bound into xonsh.codecache in a forked child): the caching run is
killed before every file operation, torn at write lengths, or gets one failing call; then the NEXT
run is judged.
Oracle: the run equals the uncached run (never an escaping exception, never the foreign marker), the
entry is valid afterwards (where rebuilding is possible) and a following cached run matches too."""

import json
import marshal
import os
import pickle
import resource
import shutil
import signal
import time
import warnings

from . import common, crashx
from . import c19_core as core
from .c19_core import ALL_ON, BODIES, CODES

SRC_TICK, ENTRY_TICK = 10, 12

ENTRY = {
    "script": {"kind": "script", "text": BODIES[1], "mode": "exec"},
    "code": {"kind": "code", "text": CODES[1], "mode": "single"},
}
# other versions, plus the six near-miss stamps (proper extension by a digit / by ".dev3", proper prefix, on
# the xonsh line or on the Python line), each carrying the tell-tale payload
FOREIGN = ["xonsh", "py", "py-level", "long-line"] + core.NEAR_STAMPS
PRESTATES = {"script": ["absent", "older"], "code": ["absent", "foreign"]}

_RIG = None
_PRISTINE = None  # filled in the parent, inherited by the workers
_LOGS = None
_PREP_VIOLS = []
_LIVE = None
_QUICK_STRIDE = 1


def _rig():
    global _RIG
    if _RIG is None or _RIG.pid != os.getpid():
        _RIG = core.Rig("c19f")
        _RIG.pid = os.getpid()
    return _RIG


def _path(rig, entry):
    e = ENTRY[entry]
    return rig.entry_file(e["kind"], e["text"], e["mode"])  # discovered by effect, never re-derived


def _clean(rig, body=1):
    rig.wipe(rig.data)
    rig.write_source(BODIES[body], SRC_TICK)


def _put(rig, entry, content, tick=ENTRY_TICK):
    p = _path(rig, entry)
    os.makedirs(os.path.dirname(p), exist_ok=True)
    with open(p, "wb") as f:
        f.write(content)
    rig.set_tick(p, tick)
    return p


def _real(rig, entry):
    e = ENTRY[entry]
    return rig.run_real(e["kind"], e["text"], ALL_ON, "fresh", e["mode"])


def _expected(rig, entry):
    e = ENTRY[entry]
    return rig.reference(e["kind"], e["text"], "fresh", e["mode"])


def prepare():
    """Parent: build the pristine entries with the real implementation and record the operation logs."""
    global _PRISTINE, _LOGS
    rig = _rig()
    pri = {}
    _clean(rig, body=0)
    rig.run_real("script", BODIES[0], ALL_ON, "fresh", "exec")
    with open(_path(rig, "script"), "rb") as f:
        pri["script-old"] = f.read()
    for entry in ("script", "code"):
        _clean(rig)
        o = _real(rig, entry)
        if not core.same_outcome(o, _expected(rig, entry)):
            raise common.ToolError(f"first caching run of {entry} differs from the uncached run: {o}")
        p = _path(rig, entry)
        if core.entry_kind(p) != "ok":
            raise common.ToolError(f"the caching run left no valid {entry} entry ({core.entry_kind(p)}): part 2 would be vacuous")
        with open(p, "rb") as f:
            pri[entry] = f.read()
        # deterministic bytes?  (all case indices refer to these bytes)
        _clean(rig)
        _real(rig, entry)
        with open(p, "rb") as f:
            if f.read() != pri[entry]:
                raise common.ToolError(f"{entry} cache file bytes are not reproducible")
    _PRISTINE = pri
    # liveness probe: an entry with the CURRENT header and a tell-tale payload IS executed, i.e. the
    # cache is really consulted on this seam (otherwise everything below would hold vacuously)
    global _LIVE
    _LIVE = {}
    for entry in ("script", "code"):
        _clean(rig)
        _put(rig, entry, core.current_header() + core.foreign_payload())
        _LIVE[entry] = core.FOREIGN_MARK in _real(rig, entry)["stdout"]
    logs = {}
    for entry in ("script", "code"):
        for pre in PRESTATES[entry]:
            st = _fault_child(rig, entry, pre, ("record", None, None), want_log=True)
            if st["log"] is None or st["rc"] != 0:
                raise common.ToolError(f"fault-free recording run failed for {entry}/{pre}: {st}")
            if not any(k == "write" for k, _n, _s in st["log"]):
                if pre == "older":
                    # the entry is 2 logical ticks (1/8 s) OLDER than its source and was not rewritten: the
                    # implementation took a stale entry for a fresh one (that is the property, not a tool fault)
                    _PREP_VIOLS.append({"key": f"stale-entry-not-rebuilt:{entry}:entry-older-than-source", "clause": "cached-run-equals-uncached-run", "case": {"part": 2, "entry": entry, "prestate": pre, "entry_tick": SRC_TICK - 2, "source_tick": SRC_TICK, "tick_seconds": core.TICK_NS / 1e9}, "observed": {"oplog": [list(x) for x in st["log"]], "stdout": st.get("stdout")}, "expected": "an entry older than its source is recompiled and rewritten"})
                    continue
                raise common.ToolError(f"no cache write recorded for {entry}/{pre}: {st['log']}")
            logs[(entry, pre)] = st["log"]
    _LOGS = logs
    return pri, logs


# ---------------------------------------------------------------------- static corruptions
def _corruption(entry, cls, arg):
    """-> (content | None, class name for the key, undetectable?)"""
    data = _PRISTINE[entry]
    h = core.header_len(data)
    if cls == "trunc":
        content = data[:arg]
        name = "intact" if arg == len(data) else ("truncated-in-header" if arg < h else "truncated-in-code")
    elif cls == "zero":
        content = data[:arg] + b"\0" * (len(data) - arg)
        name = "zero-tail"
    elif cls == "foreign":
        name = "foreign-version"
        if arg in core.NEAR_STAMPS:  # the running stamp properly extended / cut short on one line
            name = "version-stamp-prefix" if arg.endswith("+prefix") else "version-stamp-extension"
        if arg == "long-line":
            content = b"A" * 5000
        else:
            content = core.foreign_header(arg) + core.foreign_payload()
    else:
        return None, cls, False
    hh = core.header_len(content)
    undetectable = content != data and hh is not None and content[:hh] == core.current_header() and core.loads_code(content[hh:])
    return content, name, undetectable


def _static_case(rig, entry, cls, arg):
    e = ENTRY[entry]
    content, cname, undetectable = _corruption(entry, cls, arg)
    out = {"class": cname, "viols": [], "skipped": None}
    if undetectable:
        out["skipped"] = "still unmarshals to a code object"
        return out
    if cls == "unreadable" and not rig.caps_ok:
        out["skipped"] = "permission bits do not bind"
        return out
    _clean(rig)
    p = _path(rig, entry)
    if cls == "dir":
        os.makedirs(p)
    elif cls == "unreadable":
        _put(rig, entry, _PRISTINE[entry])
        os.chmod(p, 0o000)
    else:
        _put(rig, entry, content)
    exp = _expected(rig, entry)
    case = {"part": 2, "entry": entry, "corruption": [cls, arg], "file_length": len(_PRISTINE[entry]), "header_length": core.header_len(_PRISTINE[entry])}

    def V(clause, sig, observed, expected):
        out["viols"].append({"key": f"{clause}:{entry}:{cname}:{sig}", "clause": clause, "case": dict(case), "observed": observed, "expected": expected})

    o1 = _real(rig, entry)
    if not core.same_outcome(o1, exp):
        V("damaged-entry-ignored", _sig(o1, exp), o1, exp)
    if cls not in ("dir", "unreadable") and not o1["escaped"]:
        k = core.entry_kind(p)
        if k != "ok":
            V("damaged-entry-is-rebuilt", f"left-{k}", k, "ok")
    if core.entry_kind(p) not in ("dir", "unreadable", "absent") and rig.get_tick(p) is None:
        rig.set_tick(p, ENTRY_TICK)
    if core.same_outcome(o1, exp):  # (a first-run failure is already reported; judge the follow-up only after a good run)
        o2 = _real(rig, entry)
        if not core.same_outcome(o2, exp):
            V("run-after-damaged-entry", _sig(o2, exp), o2, exp)
    if cls == "unreadable":
        os.chmod(p, 0o644)
    return out


def _sig(o, exp):
    if o["escaped"]:
        return "escaped-" + o["escaped"]
    if core.FOREIGN_MARK in o["stdout"]:
        return "executed-foreign-entry"
    if o["exc"] != exp["exc"]:
        return "error-" + str(o["exc"]).split(":")[0].replace(" ", "-")[:40]
    if o["stdout"] != exp["stdout"] or o["calls"] != exp["calls"]:
        return "stale-or-other-output"
    return "differs"


# ---------------------------------------------------------------------- faults in update_cache
def _fault_prestate(rig, entry, pre):
    _clean(rig)
    if pre == "older":
        _put(rig, entry, _PRISTINE["script-old"], tick=SRC_TICK - 2)
    elif pre == "foreign":
        _put(rig, entry, core.foreign_header("xonsh") + core.foreign_payload())
    elif pre != "absent":
        raise AssertionError(pre)


def _settle():
    """Wait until the OS threads of finished alias proxies are really gone before forking."""
    for _ in range(2000):
        try:
            if len(os.listdir("/proc/self/task")) <= 1:
                return
        except OSError:
            return
        time.sleep(0.001)


def _fault_child(rig, entry, pre, fault, want_log=False):
    _fault_prestate(rig, entry, pre)
    side = os.path.join(rig.root, "side")
    shutil.rmtree(side, ignore_errors=True)
    os.makedirs(side)
    _settle()
    with warnings.catch_warnings():
        warnings.simplefilter("ignore", DeprecationWarning)
        pid = os.fork()
    if pid == 0:
        code = 0
        try:
            inj = crashx.Injector(*fault)
            o, osh, tsh = crashx.make_shims(inj)
            cc = rig.cc
            cc.open = o
            cc.os = osh
            if hasattr(cc, "tempfile"):
                cc.tempfile = tsh
            res = _real(rig, entry)
            with open(os.path.join(side, "res"), "wb") as f:
                pickle.dump({"escaped": res["escaped"], "fired": inj.fired, "log": inj.log if want_log else None}, f)
        except BaseException:  # noqa: BLE001
            code = 3
        finally:
            os._exit(code)
    _, status = os.waitpid(pid, 0)
    st = {"rc": os.waitstatus_to_exitcode(status), "escaped": None, "fired": None, "log": None}
    rp = os.path.join(side, "res")
    if os.path.exists(rp):
        with open(rp, "rb") as f:
            st.update(pickle.load(f))
    return st


def _fault_case(rig, entry, pre, fault):
    mode, idx, arg = fault
    log = _LOGS[(entry, pre)]
    opkind = log[idx][0] if idx < len(log) else "end"
    st = _fault_child(rig, entry, pre, tuple(fault))
    out = {"class": f"fault-{mode}", "viols": [], "skipped": None, "faulted_run_raised": st["escaped"], "rc": st["rc"]}
    if st["rc"] not in (0, 77, 78):
        raise common.ToolError(f"fault child for {entry}/{pre}/{fault} ended with {st}")
    p = _path(rig, entry)
    k0 = core.entry_kind(p)
    if k0 not in ("absent", "dir") and rig.get_tick(p) is None:
        rig.set_tick(p, ENTRY_TICK)  # the interrupted write happened "now"
    exp = _expected(rig, entry)
    case = {"part": 2, "entry": entry, "fault": {"prestate": pre, "mode": mode, "index": idx, "arg": arg, "operation": opkind}, "oplog": [list(x) for x in log], "entry_left_by_fault": k0}

    def V(clause, sig, observed, expected):
        out["viols"].append({"key": f"{clause}:{entry}:{pre}:{mode}-{opkind}:{sig}", "clause": clause, "case": dict(case), "observed": observed, "expected": expected})

    o1 = _real(rig, entry)
    if not core.same_outcome(o1, exp):
        V("run-after-interrupted-cache-write", _sig(o1, exp), o1, exp)
    elif core.entry_kind(p) != "ok":
        V("entry-valid-after-interrupted-cache-write", f"left-{core.entry_kind(p)}", core.entry_kind(p), "ok")
    if core.entry_kind(p) not in ("absent", "dir") and rig.get_tick(p) is None:
        rig.set_tick(p, ENTRY_TICK)
    if core.same_outcome(o1, exp):
        o2 = _real(rig, entry)
        if not core.same_outcome(o2, exp):
            V("second-run-after-interrupted-cache-write", _sig(o2, exp), o2, exp)
    out["left"] = k0
    return out


# ---------------------------------------------------------------------- single-bit flips
FLIP_ALARM_S = 20
FLIP_DEADLINE_S = 25
FLIP_ALL_BITS_BELOW = 64  # quick tier: every bit of payload bytes < 64, then bit (i mod 8) of byte i


def flip_bits(entry, thorough):
    n = len(_PRISTINE[entry]) - core.header_len(_PRISTINE[entry])
    if thorough:
        return list(range(n * 8))
    return [i * 8 + b for i in range(min(n, FLIP_ALL_BITS_BELOW)) for b in range(8)] + [i * 8 + i % 8 for i in range(FLIP_ALL_BITS_BELOW, n)]


def _flip_child(rig, entry, bit):
    data = _PRISTINE[entry]
    h = core.header_len(data)
    b = bytearray(data)
    b[h + bit // 8] ^= 1 << (bit % 8)
    _clean(rig)
    p = _put(rig, entry, bytes(b))
    side = os.path.join(rig.root, "side-flip")
    fd = os.open(side, os.O_WRONLY | os.O_CREAT | os.O_TRUNC, 0o644)
    _settle()
    with warnings.catch_warnings():
        warnings.simplefilter("ignore", DeprecationWarning)
        pid = os.fork()
    if pid == 0:
        try:
            os.setpgid(0, 0)  # own process group: the parent kills the whole group on its deadline

            def say(d):
                os.write(fd, (json.dumps(d) + "\n").encode())

            with open("/proc/self/statm") as f:
                vm = int(f.read().split()[0]) * os.sysconf("SC_PAGE_SIZE")
            lim = vm + (768 << 20)  # a flipped size field must end in MemoryError, not in gigabytes of RSS
            resource.setrlimit(resource.RLIMIT_AS, (lim, lim))
            signal.signal(signal.SIGALRM, signal.SIG_DFL)
            signal.alarm(FLIP_ALARM_S)
            cc = rig.cc
            seen = []

            def wrap(name):
                orig = getattr(cc, name, None)
                if orig is None:
                    return

                def w(*a, **k):
                    say({"ev": "check-enter", "fn": name})
                    try:
                        r = orig(*a, **k)
                    except BaseException as e:  # noqa: BLE001
                        say({"ev": "check-raised", "exc": type(e).__name__})
                        raise
                    try:
                        used, obj = bool(r[0]), type(r[1]).__name__
                    except Exception:  # noqa: BLE001
                        used, obj = None, "?"
                    say({"ev": "check-return", "used": used, "obj": obj})
                    if used and obj == "code" and not seen:
                        # undetectable damage: the verdict ("not judged") is final and there is no point
                        # in executing bytecode with a flipped bit (hangs, interpreter crashes) - stop here
                        os._exit(0)
                    seen.append(1)
                    return r

                setattr(cc, name, w)

            wrap("script_cache_check")
            wrap("code_cache_check")
            try:  # evidence only: what does CPython's unmarshaller itself say about this flip?
                mo = type(marshal.loads(bytes(b[h:]))).__name__
            except BaseException as e:  # noqa: BLE001
                mo = "raises " + type(e).__name__
            say({"ev": "marshal", "r": mo})
            o1 = _real(rig, entry)
            say({"ev": "run1", "out": o1})
            say({"ev": "kind", "k": core.entry_kind(p)})
            if core.entry_kind(p) not in ("dir", "unreadable", "absent") and rig.get_tick(p) is None:
                rig.set_tick(p, ENTRY_TICK)
            o2 = _real(rig, entry)
            say({"ev": "run2", "out": o2})
        except BaseException as e:  # noqa: BLE001
            try:
                os.write(fd, (json.dumps({"ev": "harness-exception", "exc": f"{type(e).__name__}: {e}"[:200]}) + "\n").encode())
            except BaseException:  # noqa: BLE001
                pass
        finally:
            os._exit(0)
    os.close(fd)
    # the parent owns the deadline: SIGKILL also ends a child that got stopped (SIGTTIN/SIGTSTP) or
    # blocked the alarm while running flipped code (only possible when the recorders found no seam)
    deadline = time.time() + FLIP_DEADLINE_S
    timed_out = False
    while True:
        wpid, status = os.waitpid(pid, os.WNOHANG)
        if wpid == pid:
            break
        if time.time() > deadline:
            timed_out = True
            for target in (lambda: os.killpg(pid, signal.SIGKILL), lambda: os.kill(pid, signal.SIGKILL)):
                try:
                    target()
                except OSError:
                    pass
            _, status = os.waitpid(pid, 0)
            break
        time.sleep(0.002)
    try:
        os.killpg(pid, signal.SIGKILL)  # stray grandchildren of a child that already ended
    except OSError:
        pass
    evs = []
    with open(side, "rb") as f:
        for ln in f.read().split(b"\n"):
            if ln.strip():
                try:
                    evs.append(json.loads(ln))
                except ValueError:
                    pass  # a line cut short by the death of the child
    return ("timeout" if timed_out else os.waitstatus_to_exitcode(status)), evs


def _flip_case(rig, entry, bit):
    rc, evs = _flip_child(rig, entry, bit)
    h = core.header_len(_PRISTINE[entry])
    out = {"class": "bit-flip", "viols": [], "skipped": None, "flip": None, "marshal": next((e["r"] for e in evs if e["ev"] == "marshal"), "?")}
    checks = [e for e in evs if e["ev"] in ("check-return", "check-raised")]
    first = checks[0] if checks else None
    by = {e["ev"]: e for e in evs}
    case = {"part": 2, "entry": entry, "corruption": ["flip", bit], "payload_byte": bit // 8, "bit": bit % 8, "file_offset": h + bit // 8, "child_exit": rc, "check_events": [e for e in evs if e["ev"].startswith("check")][:4]}
    exp = _expected(rig, entry)

    def V(clause, sig, observed, expected):
        out["viols"].append({"key": f"{clause}:{entry}:bit-flip:{sig}", "clause": clause, "case": dict(case), "observed": observed, "expected": expected})

    if first is not None and first["ev"] == "check-return" and first["used"] and first["obj"] == "code":
        out["flip"] = "loaded flipped code: not judged"
        out["skipped"] = "bit flip still unmarshals to a code object"
        return out
    if "harness-exception" in by:
        raise common.ToolError(f"flip child {entry}/{bit}: {by['harness-exception']}")
    if "run1" not in by and first is not None:
        raise common.ToolError(f"flip child {entry}/{bit} ended ({rc}) although the damaged entry was not handed out as code: {evs}")
    if "run1" not in by:
        # no recorder fired (the check functions are not where they used to be) and the interpreter died (signal / alarm / rlimit) before the first run returned, without
        # any loaded code running: nothing xonsh could guard against - counted, not judged
        out["flip"] = f"interpreter died before the run returned (exit {rc}): not judged"
        out["skipped"] = out["flip"]
        return out
    o1 = by["run1"]["out"]
    if first is None:
        out["flip"] = "check function not entered"
    elif first["ev"] == "check-raised":
        out["flip"] = "unmarshalling raised " + first["exc"]
    elif first["used"]:
        out["flip"] = "check handed out a non-code object (" + first["obj"] + ")"
    else:
        out["flip"] = "entry rejected"
    if o1["escaped"]:
        V("damaged-entry-ignored", "escaped-" + o1["escaped"], o1, exp)
        return out
    if not core.same_outcome(o1, exp):
        sig = "loaded-non-code-object" if (first is not None and first["ev"] == "check-return" and first["used"]) else _sig(o1, exp)
        V("damaged-entry-ignored", sig, o1, exp)
        return out
    k = by.get("kind", {}).get("k")
    if k != "ok":
        V("damaged-entry-is-rebuilt", f"left-{k}", k, "ok")
    o2 = by.get("run2", {}).get("out")
    if o2 is None:
        raise common.ToolError(f"flip child {entry}/{bit} died (exit {rc}) after a good first run: {evs[-2:]}")
    if not core.same_outcome(o2, exp):
        V("run-after-damaged-entry", _sig(o2, exp), o2, exp)
    return out


def _run_item(item):
    rig = _rig()
    entry, cls, arg = item
    if cls == "fault":
        return _fault_case(rig, entry, arg[0], tuple(arg[1]))
    if cls == "flip":
        return _flip_case(rig, entry, arg)
    return _static_case(rig, entry, cls, arg)


def _items(ctx):
    items = []
    for entry in ("script", "code"):
        n = len(_PRISTINE[entry])
        stride = 1 if (ctx.thorough or entry == "script") else _QUICK_STRIDE
        ks = sorted(set(range(0, n + 1, stride)) | {n, core.header_len(_PRISTINE[entry])})
        items += [(entry, "trunc", k) for k in ks]
        items += [(entry, "zero", k) for k in range(0, n, 16)]
        items += [(entry, "foreign", v) for v in FOREIGN]
        items += [(entry, "dir", None), (entry, "unreadable", None)]
        items += [(entry, "flip", b) for b in flip_bits(entry, ctx.thorough)]
        for pre in PRESTATES[entry]:
            if (entry, pre) not in _LOGS:
                continue  # reported by prepare() (see _PREP_VIOLS)
            for f in crashx.fault_cases(_LOGS[(entry, pre)], all_tears=ctx.thorough):
                items.append((entry, "fault", [pre, list(f)]))
    return items


def run_part(ctx):
    del _PREP_VIOLS[:]
    prepare()
    ctx.add_violations(list(_PREP_VIOLS))
    items = _items(ctx)
    ctx.log(f"part 2: {len(items)} corruption / fault cases; entry sizes { {k: len(v) for k, v in _PRISTINE.items()} }; op logs { {f'{e}/{p}': [x[0] for x in l] for (e, p), l in _LOGS.items()} }")
    res = common.pmap(_run_item, items, ctx.jobs, chunk=8, seed=ctx.seed)
    per = {}
    skipped = {}
    raised = {}
    left = {}
    flips = {}
    munm = {}
    nviol = 0
    for it, r in zip(items, res):
        ctx.add_violations(r["viols"])
        nviol += len(r["viols"])
        key = f"{it[0]}:{r['class']}"
        per[key] = per.get(key, 0) + 1
        if r["skipped"]:
            skipped[r["skipped"]] = skipped.get(r["skipped"], 0) + 1
        if r.get("faulted_run_raised"):
            raised[r["faulted_run_raised"]] = raised.get(r["faulted_run_raised"], 0) + 1
        if "left" in r:
            left[r["left"]] = left.get(r["left"], 0) + 1
        if r.get("marshal"):
            mk = f"{it[0]}: marshal.loads {r['marshal']}"
            munm[mk] = munm.get(mk, 0) + 1
        if r.get("flip"):
            fk = f"{it[0]}: {r['flip']}"
            flips[fk] = flips.get(fk, 0) + 1
    ctx.sample({"part": 2, "entry": "script", "corruption": ["trunc", core.header_len(_PRISTINE["script"]) + 7]})
    ctx.sample({"part": 2, "entry": "code", "fault": items[-2][2]})
    evaluated = len(items) - sum(skipped.values())
    if not all(_LIVE.values()):
        ctx.notes.append(f"vacuity warning: a valid cache entry was not used on this seam: {_LIVE}")
    return {
        "evaluations": evaluated,
        "exhaustive": True,
        "summary": {
            "cases": len(items),
            "cases_by_entry_and_class": dict(sorted(per.items())),
            "skipped_not_required": skipped,
            "entry_bytes": {k: len(v) for k, v in _PRISTINE.items()},
            "truncation_lengths": "every length 0..len for both entries" if (ctx.thorough or _QUICK_STRIDE == 1) else f"every length for the script entry, stride {_QUICK_STRIDE} for the code entry",
            "oplogs": {f"{e}/{p}": [list(x) for x in l] for (e, p), l in _LOGS.items()},
            "faulted_runs_that_raised (not judged)": raised,
            "entry_state_left_by_fault": left,
            "raw_violations": nviol,
            "bit_flips": "every bit of every payload byte (both entries)" if ctx.thorough else f"every bit of payload bytes 0..{FLIP_ALL_BITS_BELOW - 1}, then bit (i mod 8) of every later byte i (both entries)",
            "bit_flip_outcomes": dict(sorted(flips.items())),
            "bit_flip_unmarshal_results": dict(sorted(munm.items())),
            "cache_hit_observed (valid entry with tell-tale payload is executed)": _LIVE,
        },
    }


def replay(rec):
    import json

    prepare()
    c = rec["case"]
    if "fault" in c:
        f = c["fault"]
        item = (c["entry"], "fault", [f["prestate"], [f["mode"], f["index"], f["arg"]]])
        print("operation log:", _LOGS[(c["entry"], f["prestate"])])
    else:
        item = (c["entry"], c["corruption"][0], c["corruption"][1])
    print("case:", item, "pristine entry bytes:", len(_PRISTINE[c["entry"]]))
    r = _run_item(item)
    for v in r["viols"]:
        print("VIOLATION", v["key"])
        print("  observed:", json.dumps(v["observed"], sort_keys=True))
        print("  expected:", json.dumps(v["expected"], sort_keys=True))
    if not r["viols"]:
        print("no violation", r.get("skipped") or "")
    return 1 if r["viols"] else 0
