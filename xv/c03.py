"""C03 - a bare command line means exactly its explicit `![...]` form, everywhere; detection terminates.

PART A (equivalence).  A small subprocess grammar (xv/c03_gen.py) derives command chains: 1-3 segments joined by
`&&` `||` `and` `or` `;`, each segment = command word + arguments drawn from the word alphabet of the statement
(plain words, quoted strings incl. triple-quoted strings of both kinds that span two physical lines, `$V`, `${'V'}`,
`@(ev)`, `$(..)`, `@$(..)`, the same openers with plain ( ) [ ] { } nested one and two levels inside - `@(str(1))`,
`$(ia @(str((1))))`, `${str('V')}` ... -, redirects, a pipe, trailing `&`, `$V=1` prefix).  Every chain is placed in every statement POSITION (top level, after/before `;`, body of
if/for/while/with/try/def at depth 1-3 with space/tab indents, backslash continuation at every word boundary,
one-line compound statements, and after a PRELUDE: earlier statements that bind every identifier of the line only
in a scope that has ended - parameters of another def / async def / lambda, names local to a function or class body,
comprehension variables, an `except ... as` name after its handler, a deleted name - so the names are still unbound
at the line;
HISTORY: an earlier Execer.compile on the same execer whose namespace bound every identifier of the line (then both
programs run through Execer.exec with a fresh namespace and only the runs are compared);
layout: a trailing `# comment`, an empty line in front; LINE ENDS: the whole program, bare and explicit alike, with
CRLF line ends, as a file saved with that convention contains them).  From the SAME derivation the generator renders the bare program and its explicit
twin (each segment wrapped in `![...]` by the generator; subproc_toks is never used to build the twin).  All
derivations within the stated deviation bounds are enumerated (never sampled).
  Oracle (from the statement "behaves exactly as if the user had wrapped each segment in ![...] by hand"):
    * bare and twin are both parsed by the REAL Execer.parse with the same bound-name context; identical
      location-free AST dumps = same program (subprocess argument lists byte for byte) -> agreement;
    * differing trees are not judged on looks: both programs are EXECUTED (XSH.execer.exec, recording callable
      aliases for every command word, every assignment of return codes to the chain's commands, the default and the
      per-command raise flag setting) and only a differing trace (calls with argv / stdin text / $V seen, order,
      files left in the scratch cwd, exception class + returncode) is a violation;
    * one precisely known tree difference is decided per minimal form instead of per pair: trees that become
      identical once the `in_boolop=True` keyword (chain-operand marking) is dropped.  The minimal pair with that
      difference is run under every setting; if it runs identically the whole class is accepted (today it does:
      the marking has no run-time effect for ![...]), if not it is a violation;
    * bare rejected (SyntaxError) while the twin is accepted, or the reverse, is a violation; both rejected is
      agreement (and is counted, not hidden);
    * a fixed slice of agreeing pairs is executed too (evidence that equal trees do mean equal runs, and that the
      twins really run the commands).
  Keys: a failing pair is minimised over the generator's own derivation (position -> top level, drop segments,
  drop features, plain words, fewer words, `||`/`and`/`or` -> `&&`, each step kept only if the same failure class
  persists) and the key names classes of the MINIMAL pair:
  A:<failure>:<position class>:<operators>:<special words>:<python-parsable | needs-recovery>.
PART B (termination / totality).  Every string up to length n over the token alphabet of the design, plus every
sequence of up to 5 (thorough 6) multi-character tokens (triple quotes of both kinds, newline, backslash-newline, blank, 4-blank
indent, tab, `a`, `=`: logical lines spanning several physical lines with unrepairable errors), is fed to
`XSH.execer.parse(s, ctx=set())`.  Allowed outcomes: a tree, None (empty input), SyntaxError.  Anything else is a
violation: another exception type (keyed by type + xonsh function that raised + canonical minimal input), more than
PARSE_BUDGET calls of parser.parse for one input, or more than WALL_S CPU seconds (signal alarm) - so a spinning
recovery loop is reported, it does not hang the check.  The same guards wrap every parse of part A.

Does NOT require (never flagged):
  * that any particular string is accepted: a pair where BOTH the bare line and its hand-wrapped twin are rejected
    is agreement; part B accepts SyntaxError for every input;
  * anything about lines whose first word is a bound name or a Python keyword/builtin (C02's domain; a `global`
    declaration in an earlier function is left out of the preludes because whether it binds is not static): command
    words are ca/cb/cc/ta/tb/tc/pa/pb/pc/ia/cz, never bound; only ok, ctxm, ev, xs (used by the enclosing Python
    statements and @(ev)) and names assigned by the position scaffolding (n, i, fn) are bound;
  * identical trees: a tree that differs from the twin's but runs identically under every return-code assignment
    and flag setting is accepted (counted as agree-trace / boolop-mark-benign);
  * what the commands do, what a redirect writes, return-code / raise semantics of chains (C04/C05/C07): both
    sides run under the same settings and only have to agree with each other;
  * behaviour of a trailing `&` at run time (background jobs are not executed here; trees only - a differing tree
    of a pair with `&` is attributed to the same pair without `&` when that one fails, else reported as a tree
    difference);
  * repeatability of threaded pipelines (a trace difference of a pair with threaded commands counts only if it
    shows three times in a row);
  * lone-CR line ends: xonsh itself does not treat a lone CR as a line end inside ![...] (`![ca \\<CR>1]` passes the
    backslash and the CR on as argument text, and many lone-CR twins are rejected), so the hand-wrapped form is no
    reference there; only LF and CRLF programs are enumerated;
  * error messages, line/column numbers, how many retries detection needs (below the budget).
"""

import ast as pyast
import builtins
import contextlib
import itertools
import os
import signal
import sys
import threading
import time
import traceback
import warnings

from . import common
from . import c03_gen as gen

LEVEL = "exploration"

PARSE_BUDGET = 400  # calls of parser.parse allowed for ONE input (unchanged tree: measured max is 52)
WORK_BUDGET = 50_000  # characters handed to subproc_toks for ONE input (inputs here are <= ~120 characters; a line
# that recovery keeps re-wrapping doubles per retry - 2**(2*lines+10) - which is a hang for a dozen input lines)
WALL_S = 5.0  # alarm per input, in CPU seconds of the worker (the machine may be shared), wall backstop 15 x that;
# an alarm counts only if it repeats on re-running the same input
MAX_TERM_VIOLS_PER_WORKER = 12  # after that many budget/alarm aborts a worker stops exploring (cap is reported)
MAX_WORK_ABORTS_PER_WORKER = 300  # same for the (cheap) work-budget aborts; only the first 25 of a worker are minimised

BOUND = ("ok", "ctxm", "ev", "xs")
CMD_NAMES = [p + s for p in "ctp" for s in "abc"] + ["ia", "cz"]

# ------------------------------------------------------------------------------------------- worker state

_XSH = None
_CWD = None
_DEVNULL = None
_CNT = [0]
_MAXCNT = [0]
_TERM_ABORTS = [0]
LOG = []
RC = {}


class _Budget(BaseException):
    pass


class _Alarm(BaseException):
    pass


class _Work(BaseException):
    pass


_WORK = [0]
_WORK_ABORTS = [0]


def _on_alarm(signum, frame):
    raise _Alarm()


def _mk_alias(name, threadable):
    def _cmd(args, stdin=None, stdout=None):
        si = None
        if stdin is not None:
            try:
                si = stdin.read()
            except Exception as e:  # noqa: BLE001
                si = f"<unreadable {type(e).__name__}>"
        LOG.append([name, list(args), si, repr(_XSH.env.get("V"))])
        print("out-" + name, file=stdout)
        return RC.get(name, 0)

    _cmd.__name__ = name
    _cmd.__xonsh_threadable__ = threadable
    return _cmd


def _init_worker():
    global _XSH, _CWD, _DEVNULL
    from .session import load_session
    from .tables import ensure_tables

    ensure_tables(completion=False)
    warnings.filterwarnings("ignore", category=SyntaxWarning)  # literal evaluation of inputs like '\\-' inside xonsh
    d = common.scratch_dir("c03")
    os.chdir(d)
    with open(os.path.join(d, "g"), "w") as f:
        f.write("gin\n")
    _CWD = d
    _XSH = load_session(data_dir=d, path=[d], env={"V": "vv", "PWD": d})
    for n in CMD_NAMES:
        # ta/tb/tc, pa/pb/pc (pipelines, `< g`) must be threadable; the others run synchronously
        _XSH.aliases[n] = _mk_alias(n, n[0] in "tp")
    if _DEVNULL is None:
        _DEVNULL = os.open(os.devnull, os.O_WRONLY)
    signal.signal(signal.SIGALRM, _on_alarm)
    signal.signal(signal.SIGPROF, _on_alarm)
    p = _XSH.execer.parser
    if not getattr(p.parse, "_c03_counting", False):
        orig = p.parse

        def counting_parse(*a, **k):
            _CNT[0] += 1
            if _CNT[0] > PARSE_BUDGET:
                raise _Budget()
            return orig(*a, **k)

        counting_parse._c03_counting = True
        p.parse = counting_parse
    # module-level name rebinding in the namespaces of the modules under test (no source hook): both callers of
    # subproc_toks (phase-1 recovery loop, phase-2 transformer) go through a character counter
    import xonsh.execer as _ex
    import xonsh.parsers.ast as _xast

    for mod in (_ex, _xast):
        f = mod.subproc_toks
        if not getattr(f, "_c03_counting", False):

            def counting_toks(line, *a, _f=f, _m=mod.__name__.rpartition(".")[2], **k):
                _WORK[0] += len(line)
                if _WORK[0] > WORK_BUDGET:
                    raise _Work(f"{_m}/greedy={bool(k.get('greedy', False))}")
                return _f(line, *a, **k)

            counting_toks._c03_counting = True
            mod.subproc_toks = counting_toks
    _TERM_ABORTS[0] = 0
    _WORK_ABORTS[0] = 0
    _MAXCNT[0] = 0
    _FAILS.clear()
    _MINI.clear()
    _CONFIRM.clear()
    _EXEC_LEFT[0] = MAX_DIFF_EXEC_PER_WORKER[0]


def _where(e):
    tb = traceback.extract_tb(e.__traceback__)
    for fr in reversed(tb):
        if "/xonsh/" in fr.filename or "/ply/" in fr.filename:
            return fr.name
    return tb[-1].name if tb else "?"


def guarded_parse(src, names=None):
    """-> (outcome, parser.parse calls, cpu seconds); outcome =
    ('tree', ast) | ('none',) | ('syntax', msg) | ('exc', type, function, msg) | ('budget', ..) | ('work', ..) | ('alarm', ..)"""
    for attempt in range(3):
        out, n, dt = _guarded_parse_once(src, names)
        if out[0] != "alarm":
            break  # only a repeatable time-out counts (the deterministic budgets are the primary criterion)
    if out[0] in ("budget", "alarm"):
        _TERM_ABORTS[0] += 1  # expensive aborts
    elif out[0].startswith("work"):
        _WORK_ABORTS[0] += 1  # cheap aborts, separate (larger) cap
    return out, n, dt


def _guarded_parse_once(src, names):
    _CNT[0] = 0
    _WORK[0] = 0
    ctx = set() if names is None else set(names)
    t0 = time.process_time()
    signal.setitimer(signal.ITIMER_PROF, WALL_S)
    signal.setitimer(signal.ITIMER_REAL, WALL_S * 15)
    try:
        try:
            tree = _XSH.execer.parse(src, ctx=ctx, user_names=(None if names is None else set(BOUND)))
        finally:
            signal.setitimer(signal.ITIMER_PROF, 0)
            signal.setitimer(signal.ITIMER_REAL, 0)
        out = ("none",) if tree is None else ("tree", tree)
    except SyntaxError as e:
        out = ("syntax", str(e)[:160])
    except _Budget:
        out = ("budget", f"> {PARSE_BUDGET} parser.parse calls")
    except _Work as e:
        out = ("work:" + str(e), f"> {WORK_BUDGET} characters handed to subproc_toks")
    except _Alarm:
        out = ("alarm", f"> {WALL_S} cpu-s")
    except RecursionError as e:
        out = ("exc", "RecursionError", _where(e), "")
    except Exception as e:  # noqa: BLE001 - exactly what part B is about
        out = ("exc", type(e).__name__, _where(e), str(e)[:160])
    _MAXCNT[0] = max(_MAXCNT[0], _CNT[0])
    return out, _CNT[0], time.process_time() - t0


_CTXNAMES = None


def ctx_names():
    global _CTXNAMES
    if _CTXNAMES is None:
        _CTXNAMES = frozenset(dir(builtins)) | frozenset(BOUND)
    return _CTXNAMES


def _globals():
    return {"ok": True, "ctxm": contextlib.nullcontext(), "ev": "E", "xs": [1]}


@contextlib.contextmanager
def _quiet():
    """Commands print; nothing of it may reach the check's own output.  Both the Python-level streams (xonsh may
    close the ones it is handed) and the descriptors are pointed at /dev/null for the duration of one run."""
    keep = (sys.stdout, sys.stderr, sys.__stdout__, sys.__stderr__)
    for s in keep[:2]:
        try:
            s.flush()
        except Exception:  # noqa: BLE001
            pass
    so, se = os.dup(1), os.dup(2)
    os.dup2(_DEVNULL, 1)
    os.dup2(_DEVNULL, 2)
    tmp_o, tmp_e = open(os.devnull, "w"), open(os.devnull, "w")
    sys.stdout = sys.__stdout__ = tmp_o
    sys.stderr = sys.__stderr__ = tmp_e
    try:
        yield
    finally:
        sys.stdout, sys.stderr, sys.__stdout__, sys.__stderr__ = keep
        for s in (tmp_o, tmp_e):
            try:
                s.close()
            except Exception:  # noqa: BLE001
                pass
        os.dup2(so, 1)
        os.dup2(se, 2)
        os.close(so)
        os.close(se)


FLAGSETS = ((True, False), (False, True))  # ($XONSH_SUBPROC_RAISE_ERROR, $XONSH_SUBPROC_CMD_RAISE_ERROR); first = defaults


def execute(src, rcs, flags=FLAGSETS[0]):
    """Run one program on the real implementation; -> JSON-able trace."""
    del LOG[:]
    RC.clear()
    RC.update(rcs)
    _XSH.lastcmd = _XSH.last = None
    _XSH.env["V"] = "vv"
    _XSH.env["XONSH_SUBPROC_RAISE_ERROR"], _XSH.env["XONSH_SUBPROC_CMD_RAISE_ERROR"] = flags
    g = _globals()
    exc = None
    _CNT[0] = _WORK[0] = -(10**12)  # execution is not under the parse budgets (the pair was parsed under them before)
    with _quiet():
        signal.setitimer(signal.ITIMER_REAL, 20.0)
        try:
            try:
                _XSH.execer.exec(src, glbs=g, locs=g, filename="<c03>")
            finally:
                signal.setitimer(signal.ITIMER_REAL, 0)
        except _Alarm:
            exc = ["HANG", None]
        except BaseException as e:  # noqa: BLE001 - observed, compared between the two sides
            exc = [type(e).__name__, getattr(e, "returncode", None)]
    if threading.active_count() > 1:
        for t in threading.enumerate():
            if t is not threading.current_thread():
                t.join(5)
    files = {}
    for fn in sorted(os.listdir(_CWD)):
        p = os.path.join(_CWD, fn)
        if fn == "g" or not os.path.isfile(p):
            continue
        with open(p, errors="replace") as f:
            files[fn] = f.read()
        os.unlink(p)
    try:
        from xonsh.procs.jobs import get_tasks

        get_tasks().clear()
        _XSH.all_jobs.clear()
    except Exception:  # noqa: BLE001
        pass
    return {"calls": [list(x) for x in LOG], "files": files, "exc": exc}


def _dump(tree):
    return pyast.dump(tree)


# ------------------------------------------------------------------------------------------- part A: one pair

_FAILS = {}
_MINI = {}
_CONFIRM = {}
_EXEC_LEFT = [0]
MAX_DIFF_EXEC_PER_WORKER = [6000]  # pairs with differing trees that one worker will decide by execution (set per tier)


def run_settings(chain, full):
    """(return codes per command, flag setting) under which a pair is run: the two uniform assignments under the
    default flags for a pair with equal trees; every assignment x both flag settings when the trees differ."""
    names = gen.chain_commands(chain)
    if not full:
        return [(dict.fromkeys(names, 0), FLAGSETS[0]), (dict.fromkeys(names, 1), FLAGSETS[0])]
    return [(dict(zip(names, bits)), fl) for fl in FLAGSETS for bits in itertools.product((0, 1), repeat=len(names))]


def _strip_boolop_marks(tree):
    """Repair transform for one precisely known difference: drop the `in_boolop=True` keyword the parser puts on
    subprocess calls that are direct operands of and/or/&&/||."""
    n = 0
    for node in pyast.walk(tree):
        if isinstance(node, pyast.Call) and node.keywords:
            kept = [k for k in node.keywords if k.arg != "in_boolop"]
            n += len(node.keywords) - len(kept)
            node.keywords = kept
    return n


def compare_runs(chain, bare, expl, full):
    """-> (number of executions, None | (rcs, flags, trace_bare, trace_explicit) of the first differing run, first trace)"""
    n = 0
    first = None
    threaded = any(c[0] in "tp" for c in gen.chain_commands(chain))
    for rcs, fl in run_settings(chain, full):
        # threaded pipelines of the implementation are not perfectly repeatable (a closed-handle race in
        # ProcProxyThread.wait shows up about once in 100 runs; another property's business): a difference counts
        # only if it shows in three consecutive attempts (chains without threaded commands are run once)
        for attempt in range(3 if (threaded or not full) else 1):
            tb_ = execute(bare, rcs, fl)
            te_ = execute(expl, rcs, fl)
            n += 2
            if tb_ == te_:
                break
        if first is None:
            first = te_
        if tb_ != te_:
            return n, (rcs, list(fl), tb_, te_), first
    return n, None, first


def check_pair(chain, pos, want_exec=False):
    """Evaluate one (chain, position) pair.  -> dict(status=..., ...).  status:
    agree-ast | agree-rejected | agree-trace (trees differ, runs identical) | bare-rejected | explicit-rejected |
    trace-diff | ast-diff-bg (trees differ, not executable here) | internal | hang"""
    bare = gen.render(chain, pos, explicit=False)
    expl = gen.render(chain, pos, explicit=True)
    if pos.get("history") and not gen.has_bg(chain):
        return _check_pair_after_history(chain, pos, bare, expl)
    names = ctx_names()
    rb, nb, tb = guarded_parse(bare, names)
    re_, ne, te = guarded_parse(expl, names)
    res = {"bare": bare, "explicit": expl, "parses": [nb, ne], "executed": 0}
    for side, r in (("bare", rb), ("explicit", re_)):
        if r[0] in ("budget", "alarm") or r[0].startswith("work"):
            res.update(status="hang", side=side, detail=list(r))
            return res
        if r[0] == "exc":
            res.update(status="internal", side=side, detail=list(r))
            return res
    if rb[0] == "syntax" and re_[0] == "syntax":
        res.update(status="agree-rejected")
        return res
    if rb[0] == "syntax":
        res.update(status="bare-rejected", detail=rb[1])
        return res
    if re_[0] == "syntax":
        res.update(status="explicit-rejected", detail=re_[1])
        return res
    db = None if rb[0] == "none" else _dump(rb[1])
    de = None if re_[0] == "none" else _dump(re_[1])
    same = db == de
    runnable = not gen.has_bg(chain)
    if same and not (want_exec and runnable):
        res.update(status="agree-ast")
        return res
    if not same and rb[0] == "tree" and re_[0] == "tree":
        mb, me = _strip_boolop_marks(rb[1]), _strip_boolop_marks(re_[1])
        if mb != me and _dump(rb[1]) == _dump(re_[1]):
            # the ONLY difference: operands of the chain are (not) marked as chain operands.  Whether that is
            # visible at run time is decided once per minimal form (confirm_boolop_mark), not per pair.
            res.update(status="boolop-mark", detail={"in_boolop_marks_bare": mb, "in_boolop_marks_explicit": me})
            return res
    if not runnable:
        res.update(status="ast-diff-bg", detail=_first_diff(db, de))
        return res
    if not same and _EXEC_LEFT[0] <= 0:
        res.update(status="undecided")
        return res
    n, diff, first = compare_runs(chain, bare, expl, full=not same)
    res["executed"] = n
    if not same:
        _EXEC_LEFT[0] -= 1
    if diff is not None:
        if same:
            raise common.ToolError(f"identical trees ran differently (harness nondeterminism): {bare!r} {diff}")
        res.update(status="trace-diff", sub=trace_subsig(diff[2], diff[3]), rcs=diff[0], flags=diff[1], trace_bare=diff[2], trace_explicit=diff[3])
        return res
    res["trace0"] = first
    res.update(status="agree-ast" if same else "agree-trace")
    return res


def _check_pair_after_history(chain, pos, bare, expl):
    """History dimension: an EARLIER Execer.compile on the same execer with a namespace that bound every identifier of
    the line must not make the names bound now.  Both programs then go through the real Execer.exec (fresh
    namespace); only the runs are compared (the trees are not reachable through compile)."""
    res = {"bare": bare, "explicit": expl, "parses": [0, 0], "executed": 0}
    g1 = dict(_globals(), **{n: 1 for n in gen.line_names(chain, pos)})
    _CNT[0] = _WORK[0] = -(10**12)
    try:
        _XSH.execer.compile("pass\n", glbs=g1, locs=g1, mode="exec", filename="<c03-history>")
    except Exception as e:  # noqa: BLE001
        raise common.ToolError(f"history prelude compile failed: {e!r}")
    n, diff, first = compare_runs(chain, bare, expl, full=False)
    res["executed"] = n
    if diff is not None:
        sb = (diff[2]["exc"] or [None])[0] == "SyntaxError" and not diff[2]["calls"]
        se = (diff[3]["exc"] or [None])[0] == "SyntaxError" and not diff[3]["calls"]
        if sb != se:  # same classes as on the parse path, so that a failure that does not need the history reduces to its own key
            res.update(status="bare-rejected" if sb else "explicit-rejected", detail="SyntaxError from Execer.exec")
            return res
        res.update(status="trace-diff", sub=trace_subsig(diff[2], diff[3]), rcs=diff[0], flags=diff[1], trace_bare=diff[2], trace_explicit=diff[3])
        return res
    res["trace0"] = first
    res.update(status="agree-trace")
    return res


def confirm_boolop_mark(chain, pos):
    """A pair whose trees differ only in the chain-operand marking: run it (all return codes x both flag settings)."""
    k = common.jdump([chain, pos])
    if k not in _CONFIRM:
        if gen.has_bg(chain):
            _CONFIRM[k] = "unrunnable"  # `&` is essential to the difference: cannot be decided here (counted as undecided)
        else:
            _CONFIRM[k] = compare_runs(chain, gen.render(chain, pos, False), gen.render(chain, pos, True), full=True)[1]
    return _CONFIRM[k]


def _subseq(a, b):
    it = iter(b)
    return all(x in it for x in a)


def trace_subsig(tb, te):
    """How the bare run departs from the hand-wrapped run (part of the failure signature)."""
    nb, ne = [c[0] for c in tb["calls"]], [c[0] for c in te["calls"]]
    if nb != ne:
        if not nb:
            return "runs-nothing"
        if sorted(nb) == sorted(ne):
            return "order"
        if len(nb) < len(ne) and _subseq(nb, ne):
            return "skips-command"
        if len(nb) > len(ne) and _subseq(ne, nb):
            return "extra-command"
        return "other-commands"
    for k, name in ((1, "argv"), (2, "stdin"), (3, "env")):
        if [c[k] for c in tb["calls"]] != [c[k] for c in te["calls"]]:
            return name
    if tb["files"] != te["files"]:
        return "files"
    return "exc"


def _first_diff(a, b):
    a, b = a or "", b or ""
    i = 0
    while i < min(len(a), len(b)) and a[i] == b[i]:
        i += 1
    return {"at": i, "bare": a[max(0, i - 60) : i + 120], "explicit": b[max(0, i - 60) : i + 120]}


FAIL = ("bare-rejected", "explicit-rejected", "trace-diff", "boolop-mark", "ast-diff-bg", "internal", "hang")


def _sig(res):
    """Failure signature preserved by the minimiser."""
    s = res["status"]
    if s == "internal":
        return f"internal:{res['side']}:{res['detail'][1]}@{res['detail'][2]}"
    if s == "hang":
        return f"hang/{res['detail'][0]}:{res['side']}"
    return s


def _fails(chain, pos):
    k = common.jdump([chain, pos])
    if k not in _FAILS:
        r = check_pair(chain, pos)
        _FAILS[k] = _sig(r) if r["status"] in FAIL else None
    return _FAILS[k]


def minimise(chain, pos, sig):
    """Deterministic greedy reduction over the generator's own derivation: keep a reduction whenever the same
    failure signature persists.  Memoised (path compression) so that the many inputs of one root cause are cheap."""
    path = []
    cur = (chain, pos)
    while True:
        k = common.jdump([cur[0], cur[1], sig])
        if k in _MINI:
            final = _MINI[k]
            break
        path.append(k)
        for cand in gen.reductions(*cur):
            if _TERM_ABORTS[0] > MAX_TERM_VIOLS_PER_WORKER * 4 or _WORK_ABORTS[0] > MAX_WORK_ABORTS_PER_WORKER * 4:
                break
            if _fails(*cand) == sig:
                cur = cand
                break
        else:
            final = cur
            break
        if _TERM_ABORTS[0] > MAX_TERM_VIOLS_PER_WORKER * 4 or _WORK_ABORTS[0] > MAX_WORK_ABORTS_PER_WORKER * 4:
            final = cur
            break
    for k in path:
        _MINI[k] = final
    return final


def body_class(chain, pos):
    """Does the bare logical line (with its `;` neighbours) parse as Python/xonsh WITHOUT recovery?  'needs-recovery'
    lines are wrapped by the phase-1 retry loop, 'python-parsable' ones by the context-aware transformer."""
    line = gen.render(chain, dict(pos, wrap=None, prelude=None), explicit=False)
    _CNT[0] = 0
    try:
        _XSH.execer.parser.parse(line, filename="<c03>", mode="exec")
        return "python-parsable"
    except SyntaxError:
        return "needs-recovery"
    except Exception:  # noqa: BLE001
        return "parser-error"


def a_key(sig, mchain, mpos):
    """<failure>:<position class>:<operators>:<special words/features>:<how the parser sees the line>, all taken from the
    MINIMISED pair.  One root cause fails for many texts (any number of plain words, any indent ...), so the key
    names classes, not the text; the text of the minimal pair is in the artefact."""
    w = mpos["wrap"]
    if w and w[0] == "oneline":
        # a one-line compound statement whose body needs recovery is wrapped as a whole, whatever the body is
        return f"A:{sig}:oneline-{w[1]}:body-{body_class(mchain, mpos)}"
    return f"A:{sig}:{gen.pos_class(mchain, mpos)}:{gen.ops_class(mchain)}:{gen.feature_class(mchain)}:{body_class(mchain, mpos)}"


CLAUSES = {
    "bare-rejected": "bare line rejected although its hand-wrapped form is accepted",
    "explicit-rejected": "bare line accepted although its hand-wrapped form is rejected",
    "trace-diff": "bare line runs differently from its hand-wrapped form",
    "boolop-mark": "bare chain operand is not compiled as a chain operand (runs differently from its hand-wrapped form under $XONSH_SUBPROC_CMD_RAISE_ERROR)",
    "ast-diff-bg": "bare line with `&` compiles to a different program than its hand-wrapped form",
    "internal": "detection raised an internal exception",
    "hang": "detection did not terminate within the budget",
}


def _violation_for(chain, pos, res):
    s = res["status"]
    note = ""
    if s == "ast-diff-bg":
        # repair transform: the pair cannot be run because of `&`.  If the same pair WITHOUT `&` fails, the failure
        # is attributed to that (runnable, minimisable) root cause; only if `&` is essential it gets an `&` key.
        c2 = {"segs": [dict(sg, bg=False) for sg in chain["segs"]], "ops": chain["ops"]}
        r2 = check_pair(c2, pos)
        if r2["status"] in FAIL:
            v = _violation_for(c2, pos, r2)
            if isinstance(v, dict):
                v["case"].update(chain=chain, pos=pos, bare=res["bare"], explicit=res["explicit"])
                v["note"] = "trees differ for the pair with `&` (not executed); attributed to the same pair without `&`, which fails: " + repr(r2["bare"])
                return v
    sig = _sig(res)
    mchain, mpos = minimise(chain, pos, sig)
    key = a_key(sig, mchain, mpos)
    if s == "boolop-mark":
        d = confirm_boolop_mark(mchain, mpos)
        if d is None or d == "unrunnable":
            return d  # None: same runs under every return-code assignment and flag setting - allowed
        obs = {"trees": res["detail"], "minimal_form_run": {"rcs": d[0], "RAISE_ERROR,CMD_RAISE_ERROR": d[1], "bare": d[2]}}
        exp = {"minimal_form_run": {"explicit": d[3]}}
    elif s == "trace-diff":
        obs, exp = {"how": res["sub"], "rcs": res["rcs"], "RAISE_ERROR,CMD_RAISE_ERROR": res["flags"], "bare": res["trace_bare"]}, {"explicit": res["trace_explicit"]}
    elif s == "ast-diff-bg":
        obs, exp = res["detail"]["bare"], res["detail"]["explicit"]
    elif s == "bare-rejected":
        obs, exp = "SyntaxError: " + res["detail"], "accepted like the explicit form"
    elif s == "explicit-rejected":
        obs, exp = "bare form accepted", "explicit form: SyntaxError: " + res["detail"]
    else:
        obs, exp = res["detail"], "a tree or SyntaxError"
    return {
        "key": key,
        "clause": CLAUSES[s],
        "case": {
            "part": "A",
            "chain": chain,
            "pos": pos,
            "bare": res["bare"],
            "explicit": res["explicit"],
            "minimal": {"chain": mchain, "pos": mpos, "bare": gen.render(mchain, mpos, False), "explicit": gen.render(mchain, mpos, True)},
        },
        "observed": obs,
        "expected": exp,
        "note": note,
    }


_BLOCKS = None


def _do_chain(item):
    """One chain of one block under every position of the block."""
    bi, chain = item
    b = _BLOCKS[bi]
    out = {"n": 0, "st": {}, "viols": [], "executed": 0, "maxparses": 0, "capped": 0, "slow": 0.0, "samples": []}
    for pos in gen.block_positions(b, chain):
        if _TERM_ABORTS[0] > MAX_TERM_VIOLS_PER_WORKER or _WORK_ABORTS[0] > MAX_WORK_ABORTS_PER_WORKER:
            out["capped"] += 1
            continue
        want = b["exec"] == "all" or (b["exec"] == "slice" and gen.in_exec_slice(chain, pos))
        t0 = time.perf_counter()
        res = check_pair(chain, pos, want_exec=want)
        out["slow"] = max(out["slow"], time.perf_counter() - t0)
        out["n"] += 1
        st = res["status"]
        out["st"][st] = out["st"].get(st, 0) + 1
        out["executed"] += res["executed"]
        out["maxparses"] = max(out["maxparses"], *res["parses"])
        if st in FAIL:
            v = _violation_for(chain, pos, res)
            if v is None:
                out["st"]["boolop-mark-benign"] = out["st"].get("boolop-mark-benign", 0) + 1
            elif v == "unrunnable":
                out["st"]["undecided"] = out["st"].get("undecided", 0) + 1
            else:
                out["viols"].append(v)
        elif res["executed"] and len(out["samples"]) < 1 and "trace0" in res:
            out["samples"].append({"bare": res["bare"], "explicit": res["explicit"], "trace(rc=0)": res["trace0"]["calls"]})
    return out


# ------------------------------------------------------------------------------------------- part B

FULL = ["a", "-", "=", "(", ")", "[", "]", "{", "}", "!", "$", "@", "&", "|", ";", ":", "'", '"', "\\", "#", ",", ">", " ", "\n"]
A16 = ["a", "-", "=", "(", ")", "[", "]", "!", "$", "@", "&", "|", ";", "\\", " ", "\n"]
A10 = ["a", "-", "(", ")", "[", "]", "!", "$", "&", " "]
_ORDER = {c: i for i, c in enumerate(FULL)}
# multi-character TOKENS: logical lines that span several physical lines (triple-quoted strings with a newline inside,
# backslash-newline) combined with leading indentation, i.e. unrepairable errors on multi-line logical lines - the
# branch of the recovery loop that re-parses the joined line recursively
TOK9 = ["a", "=", " ", "    ", "\t", "\n", "\\\n", '"""', "'''"]
TOK8 = [t for t in TOK9 if t != "="]  # quick tier


def b_families(thorough):
    """(name, alphabet, lengths in symbols/tokens).  Strings already covered by an earlier family are skipped."""
    if not thorough:
        return [("full<=3", FULL, (0, 1, 2, 3)), ("A16=4", A16, (4,)), ("A10=5", A10, (5,)), ("TOK8<=5", TOK8, (1, 2, 3, 4, 5))]
    return [("full<=4", FULL, (0, 1, 2, 3, 4)), ("A16=5", A16, (5,)), ("A10=6", A10, (6,)), ("TOK9<=6", TOK9, (1, 2, 3, 4, 5, 6))]


def _covered_earlier(s, fams, fi):
    """Is the STRING s enumerated by an earlier (single-character) family?"""
    for name, alpha, lens in fams[:fi]:
        if len(s) in lens and set(s) <= set(alpha):
            return True
    return False


def _tok_canonical(toks):
    """One token sequence per string: four blanks are the indentation token, and a single blank never precedes it."""
    for k in range(len(toks) - 1):
        if toks[k] == " " and toks[k + 1] == "    ":
            return False
    return " " * 4 not in "".join(t if t == " " else "|" for t in toks)


_BFAMS = None


def b_items(fams):
    items = []
    for fi, (name, alpha, lens) in enumerate(fams):
        for n in lens:
            pl = min(n, 2)
            for pre in itertools.product(alpha, repeat=pl):
                items.append((fi, n, list(pre)))
    return items


_BOUT = {}


def b_outcome_memo(s):
    if s not in _BOUT:
        if len(_BOUT) > 200000:
            _BOUT.clear()
        _BOUT[s] = b_outcome(s)[:2]
    return _BOUT[s]


def b_outcome(s):
    r, n, dt = guarded_parse(s, None)
    if r[0] in ("tree", "none", "syntax"):
        return r[0], None, n, dt
    if r[0] == "exc":
        return "internal", f"{r[1]}@{r[2]}", n, dt
    return "nonterm", r[0], n, dt


def _shortest_failing_subsequence(s, kind, sig):
    subs = set()
    for r in range(len(s)):
        for idx in itertools.combinations(range(len(s)), r):
            subs.add("".join(s[i] for i in idx))
    for c in sorted(subs, key=lambda t: (len(t), [_ORDER.get(ch, 99) for ch in t])):
        if b_outcome_memo(c) == (kind, sig):
            return c
    return None


def b_minimise(s, kind, sig):
    """Canonical small witness of the same failure, to a fixpoint of: the shortest proper subsequence (ties: alphabet
    order) that fails with the same signature; a bracketed group / longer piece replaced by the plain word `a`; a
    symbol replaced by the earliest alphabet symbol that keeps the failure.  Inputs are <= 6 symbols (<= 64 subsequences)."""
    cur = s
    while len(cur) > 8:  # token strings can be long: single deletions first (2**len subsequences otherwise)
        for i in range(len(cur)):
            c = cur[:i] + cur[i + 1 :]
            if b_outcome_memo(c) == (kind, sig):
                cur = c
                break
        else:
            break
    while True:
        c = _shortest_failing_subsequence(cur, kind, sig) if len(cur) <= 10 else None
        if c is not None:
            cur = c
            continue
        nxt = None
        for ln in (2, 3, 4):
            for i in range(len(cur) - ln + 1):
                c = cur[:i] + "a" + cur[i + ln :]
                if b_outcome_memo(c) == (kind, sig):
                    nxt = c
                    break
            if nxt:
                break
        if nxt is None:
            for i in range(len(cur)):
                for sym in FULL[: _ORDER.get(cur[i], 0)]:
                    c = cur[:i] + sym + cur[i + 1 :]
                    if b_outcome_memo(c) == (kind, sig):
                        nxt = c
                        break
                if nxt:
                    break
        if nxt is None:
            return cur
        cur = nxt


_BMIN = {}


def _do_prefix(item):
    fi, n, pre = item
    name, alpha, lens = _BFAMS[fi]
    out = {"n": 0, "oc": {}, "viols": [], "maxparses": 0, "maxparses_in": "", "slow": 0.0, "slow_in": "", "capped": 0}
    multi = any(len(t) > 1 for t in alpha)
    for suf in itertools.product(alpha, repeat=n - len(pre)):
        if multi and not _tok_canonical(list(pre) + list(suf)):
            continue
        s = "".join(pre) + "".join(suf)
        if _covered_earlier(s, _BFAMS, fi):
            continue
        if _TERM_ABORTS[0] > MAX_TERM_VIOLS_PER_WORKER or _WORK_ABORTS[0] > MAX_WORK_ABORTS_PER_WORKER:
            out["capped"] += 1
            continue
        kind, sig, np_, dt = b_outcome(s)
        out["n"] += 1
        out["oc"][kind] = out["oc"].get(kind, 0) + 1
        if np_ > out["maxparses"]:
            out["maxparses"], out["maxparses_in"] = np_, s
        if dt > out["slow"]:
            out["slow"], out["slow_in"] = dt, s
        if kind in ("internal", "nonterm"):
            if kind == "internal" or (sig.startswith("work") and _WORK_ABORTS[0] <= 25):
                saved = (_TERM_ABORTS[0], _WORK_ABORTS[0])  # aborts of minimisation candidates do not count towards the caps
                m = b_minimise(s, kind, sig)  # every evaluation is bounded by the budgets
                _TERM_ABORTS[0], _WORK_ABORTS[0] = saved
            else:
                # a spinning input is not minimised (each attempt costs a full budget): first one of this worker
                m = _BMIN.setdefault((kind, sig), s)
            out["viols"].append(b_violation(s, m, kind, sig, np_, dt))
    return out


def b_violation(s, m, kind, sig, np_, dt):
    if kind == "internal":
        key = f"B:internal:{sig}:{m!r}"
        clause = "detection raised an internal exception (neither a program nor SyntaxError)"
        obs = f"{sig} for input {s!r}"
    else:
        # budget / alarm / work:<caller of subproc_toks>/<greedy pass?>; the minimal input is in the artefact (one growth
        # mechanism fails for many small inputs: ` (]`, ` ](`, ` (!)`, ` (]a` ... preceded by blank lines)
        key = f"B:nonterm:{sig}"
        clause = "detection did not terminate within the per-input budget"
        obs = f"{sig} budget exceeded ({np_} parser.parse calls, {dt:.2f} cpu-s) for input {s!r}; budgets: {PARSE_BUDGET} parser.parse calls, {WORK_BUDGET} characters through subproc_toks, {WALL_S} cpu-s"
    return {"key": key, "clause": clause, "case": {"part": "B", "input": s, "minimal": m}, "observed": obs, "expected": "a tree, None (empty input) or SyntaxError within the budget", "note": ""}


# ------------------------------------------------------------------------------------------- driver


def run(ctx):
    global _BLOCKS, _BFAMS
    from .tables import ensure_tables

    regen = ensure_tables(completion=False)
    ctx.log(f"parser tables validated against the working tree (regenerated: {regen})")

    # ---- part B first (cheap, and a spinning loop should be reported even if part A is slow under it)
    only = os.environ.get("XV_C03_ONLY", "")  # development aid: "A" or "B" runs one part (evidence then says so)
    _BFAMS = b_families(ctx.thorough) if not only.startswith("A") else [("none", ["a"], (0,))]
    if only.startswith("B:"):  # development aid: one family
        _BFAMS = [f for f in _BFAMS if f[0].startswith(only[2:])]
    items = b_items(_BFAMS)
    resb = common.pmap(_do_prefix, items, ctx.jobs, chunk=1, init=_init_worker, seed=ctx.seed)
    nb = sum(r["n"] for r in resb)
    ocb = {}
    for r in resb:
        for k, v in r["oc"].items():
            ocb[k] = ocb.get(k, 0) + v
    mp = max(resb, key=lambda r: r["maxparses"])
    sl = max(resb, key=lambda r: r["slow"])
    capped_b = sum(r["capped"] for r in resb)
    vb = [v for r in resb for v in r["viols"]]
    vb.sort(key=lambda v: (len(v["case"]["input"]), v["case"]["input"]))
    ctx.add_violations(vb)
    ctx.log(
        f"part B: {nb} strings ({', '.join(f[0] for f in _BFAMS)}); outcomes {ocb}; max parser.parse calls {mp['maxparses']} on {mp['maxparses_in']!r}; slowest {sl['slow'] * 1000:.0f} ms on {sl['slow_in']!r}; {len(vb)} violating inputs"
    )

    # ---- part A
    MAX_DIFF_EXEC_PER_WORKER[0] = ctx.pick(6000, 60000)
    _BLOCKS = gen.blocks(ctx.thorough) if not only.startswith("B") else gen.blocks(False)[2:3]
    if only.startswith("A:"):  # development aid: blocks by id prefix
        _BLOCKS = [b for b in _BLOCKS if b["id"].startswith(only[2:])]
    if only:
        ctx.assumptions.append(f"PARTIAL RUN: XV_C03_ONLY={only}")
    items = []
    per_block = []
    for bi, b in enumerate(_BLOCKS):
        chains = list(gen.chains(b))
        per_block.append(len(chains))
        items += [(bi, c) for c in chains]
    ctx.log(f"part A: {len(items)} chains in {len(_BLOCKS)} blocks {dict(zip([b['id'] for b in _BLOCKS], per_block))}")
    resa = common.pmap(_do_chain, items, ctx.jobs, chunk=4, init=_init_worker, seed=ctx.seed)
    na = sum(r["n"] for r in resa)
    sta = {}
    for r in resa:
        for k, v in r["st"].items():
            sta[k] = sta.get(k, 0) + v
    executed = sum(r["executed"] for r in resa)
    capped_a = sum(r["capped"] for r in resa)
    va = [v for r in resa for v in r["viols"]]
    va.sort(key=lambda v: (len(v["case"]["bare"]), v["case"]["bare"]))
    ctx.add_violations(va)
    keys_a = sorted({v["key"] for v in va})
    ctx.log(f"part A: {na} bare/explicit pairs; statuses {sta}; {executed} program executions; max parser.parse calls per input {max(r['maxparses'] for r in resa)}; slowest pair {max(r['slow'] for r in resa) * 1000:.0f} ms; {len(va)} violating pairs in {len(keys_a)} keys")

    samples = [s for r in resa for s in r["samples"]]
    for s in common.pick_samples(samples, ctx.seed, 5):
        ctx.sample(s)
    ctx.sample({"part": "B", "max_parser_calls_input": mp["maxparses_in"], "calls": mp["maxparses"]})
    reached = na - sta.get("agree-rejected", 0)
    undecided = sta.get("undecided", 0)
    if undecided:
        ctx.log(f"part A: execution cap hit - {undecided} pairs with differing trees were NOT decided (reported as cap, not as violations)")
    ctx.coverage.update(
        evaluations=na + nb,
        distinct_nontrivial=reached,
        rule=(
            "part A: every derivation of the chain grammar within the block bounds x every position within the position bound, "
            "rendered as bare program + generator-wrapped explicit twin, both parsed by Execer.parse and compared (tree dump; runs when trees differ "
            "or the pair is in the execution slice); non-trivial = pairs where at least one side was accepted (reached the comparison). "
            "part B: every string of the stated lengths over the stated alphabets through Execer.parse(s, ctx=set()) under a parser-call budget and alarm"
        ),
        exhaustive=(capped_a == 0 and capped_b == 0 and undecided == 0),
        caps_hit={
            "part_a_pairs_skipped_after_termination_cap": capped_a,
            "part_b_strings_skipped_after_termination_cap": capped_b,
            "part_a_pairs_with_differing_trees_left_undecided_by_execution_cap": undecided,
        },
        part_a_pairs=na,
        part_a_chains=len(items),
        part_a_blocks={b["id"]: {k: b[k] for k in ("segs", "words", "kf", "kp", "rich", "exec", "prelude", "family", "fields", "eols", "argset", "chainset") if k in b} for b in _BLOCKS},
        part_a_status=sta,
        part_a_program_executions=executed,
        part_a_both_rejected=sta.get("agree-rejected", 0),
        part_b_strings=nb,
        part_b_families=[{"name": f[0], "alphabet": list(f[1]), "lengths": list(f[2])} for f in _BFAMS],
        part_b_outcomes=ocb,
        part_b_max_parser_calls=mp["maxparses"],
        part_b_slowest_ms=round(sl["slow"] * 1000),
        budgets={"parser_calls_per_input": PARSE_BUDGET, "subproc_toks_characters_per_input": WORK_BUDGET, "cpu_s_per_input": WALL_S},
    )
    ctx.assumptions += [
        "command words are callable aliases (ca.. unthreaded, ta../pa.. threaded); a real child process would be wrapped the same way since wrapping happens before any command lookup",
        "XSH.execer.parse with ctx = builtins + {ok, ctxm, ev, xs} stands for every context in which the command words are unbound",
        "one xonsh session per worker process; programs do not change session state that detection depends on",
    ]


def replay(rec):
    case = rec["case"]
    _init_worker()
    if case.get("part") == "B":
        s = case["input"]
        kind, sig, n, dt = b_outcome(s)
        print("input    :", repr(s), " minimal:", repr(case.get("minimal")))
        print("observed :", kind, sig or "", f"({n} parser.parse calls, {dt * 1000:.1f} ms)")
        print("expected : tree / None / SyntaxError within", PARSE_BUDGET, "parser.parse calls,", WORK_BUDGET, "characters through subproc_toks and", WALL_S, "cpu-s")
        return 1 if kind in ("internal", "nonterm") else 0
    chain, pos = case["chain"], case["pos"]
    _EXEC_LEFT[0] = 10**6
    res = check_pair(chain, pos, want_exec=True)
    print("bare     :", repr(res["bare"]))
    print("explicit :", repr(res["explicit"]))
    print("status   :", res["status"], res.get("detail", ""))
    bad = res["status"] in FAIL
    if res["status"] == "trace-diff":
        print("settings : return codes", res["rcs"], " $XONSH_SUBPROC_RAISE_ERROR, $XONSH_SUBPROC_CMD_RAISE_ERROR =", res["flags"])
        print("observed (bare run)     :", res["trace_bare"])
        print("expected (explicit run) :", res["trace_explicit"])
    elif res["status"] in ("bare-rejected", "explicit-rejected"):
        print("observed :", "bare", "rejected" if res["status"] == "bare-rejected" else "accepted", "/ explicit", "accepted" if res["status"] == "bare-rejected" else "rejected")
        print("expected : both accepted (same program) or both rejected")
    m = case.get("minimal")
    if m:
        r2 = check_pair(m["chain"], m["pos"])
        print("minimal  :", repr(m["bare"]), "vs", repr(m["explicit"]), "->", r2["status"], r2.get("detail", ""))
        if res["status"] == "boolop-mark":
            d = confirm_boolop_mark(m["chain"], m["pos"])
            bad = d is not None and d != "unrunnable"
            if bad:
                print("settings : return codes", d[0], " flags", d[1])
                print("observed (bare run of the minimal form)     :", d[2])
                print("expected (explicit run of the minimal form) :", d[3])
            else:
                print("the two minimal programs run identically under every return-code assignment and flag setting: allowed")
    if bad:
        v = _violation_for(chain, pos, res)
        print("key      :", v["key"] if v else None)
    return 1 if bad else 0
