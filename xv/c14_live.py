"""C14 helper: the two parts of the property that only show in a HISTORY of a running session.

1. live-session sequences (``check_sequences``): a real ``JsonHistory`` object whose file lives in the
   scanned history directory next to two closed sessions; every sequence (to depth 3/4) of
   {append+flush through the real flusher, append + the `history flush` command through the real
   history alias, external delete of the session file, external truncation of it, GC pass with limit
   (n, unit) [forced / unforced]}.  Oracle: a GC pass never deletes the file
   of the session that is still open and never lists it among the unlocked candidates; the closed
   files are collected exactly as the reference says with the open session as a live member; and a
   file the flusher had to recreate carries the same lock flag as the first flush of a brand-new
   session (differential: the reference value is read from a real fresh session, not written down).
2. start-up handshake (``check_startup``): the real ``JsonHistoryGC`` THREAD as ``JsonHistory(gc=True)``
   starts it (wait_for_shell=True, size=None), parked in the module's ``time.sleep`` by a hook; while it
   waits ``$XONSH_HISTORY_SIZE`` is changed from L1 to L2 (what an rc file does), then the flag is
   cleared exactly like ``Shell.__init__`` does, the thread is joined and the deleted set is compared
   with the reference for the limit in force when the collector acts (L2).

Does NOT require: anything about a session file that was emptied to 0 bytes (it carries no lock
flag any more; the collector documents that it collects empty files), what the recreated file
contains besides the lock flag, or that a flush over a damaged file succeeds (that is C13).
"""

import itertools
import os
import threading

from . import c14 as B
from . import common

SID = "live"  # the open session's id
BG = (("ok", 1, False), ("ok", 2, False))  # two closed sessions: ids c (20 s old, 1 cmd), a (10 s old, 2 cmds)
GC_EVENTS = [
    ("gc", 0, "files", True),
    ("gc", 1, "files", True),
    ("gc", 0, "commands", True),
    ("gc", 2, "commands", True),
    ("gc", 0.0, "s", True),
    ("gc", 0, "b", True),
    ("gc", 1, "files", False),
    ("gc", 2, "commands", False),
]
# af = append + JsonHistory.flush(); hflush = append + the user runs the `history flush` COMMAND (real alias entry point)
EVENTS = [("af",), ("hflush",), ("rm",), ("trunc",)] + GC_EVENTS


def _ensure():
    """Per-process additions to the base harness (idempotent)."""
    B._init_worker()
    W = B._W
    if getattr(W, "live_ready", None) == os.getpid():
        return
    hj = W.hj
    real_fl = getattr(hj, "_xv_real_flusher", None) or hj.JsonHistoryFlusher
    hj._xv_real_flusher = real_fl

    class SyncFlusher(real_fl):
        def start(self):  # the flusher thread's body, run in the caller
            self.run()

        def join(self, timeout=None):  # never started as a thread: nothing to wait for
            return None

    hj.JsonHistoryFlusher = SyncFlusher
    W.sync_gc = hj.JsonHistoryGC
    W.real_gc = hj._xv_real_gc
    # reference for the differential lock-flag oracle: the first flush of a brand-new session
    ref_dir = os.path.join(W.data, "ref")
    os.makedirs(ref_dir, exist_ok=True)
    ref = os.path.join(ref_dir, "xonsh-ref.json")
    if os.path.exists(ref):
        os.remove(ref)
    W.vt.now = B.NOW
    h = hj.JsonHistory(filename=ref, sessionid="ref", gc=False, ts=[B.NOW - 3.0, None], locked=True, env={})
    h.append({"inp": "c0\n", "rtn": 0, "ts": [B.NOW - 1.0, B.NOW - 0.9], "cwd": "/"})
    h.flush()
    W.ref_flag = _lock_flag(ref)
    if W.ref_flag is not True:
        raise common.ToolError(f"a brand-new session's first flush is not locked: {W.ref_flag!r}")
    W.live_ready = os.getpid()


def _lock_flag(path):
    """The lock flag as the collector reads it ('<absent>', or '<unreadable: ..>')."""
    try:
        lj = B._W.xlj.LazyJSON(path, reopen=False)
        try:
            return lj.get("locked", "<absent>")
        finally:
            lj.close()
    except Exception as e:  # noqa: BLE001
        return f"<unreadable: {type(e).__name__}>"


def _unlocked_listing():
    """What the real collector considers closed (deletable) right now."""
    W = B._W
    inst = W.real_gc.__new__(W.real_gc)
    return {os.path.basename(f[2]) for f in W.real_gc.files(inst, only_unlocked=True)}


# ---------------------------------------------------------------------------- 1. live-session sequences


def sequences(depth_full, depth_gc_tail):
    """All event sequences up to depth_full; at depth_gc_tail (if larger) those that end 'af, gc'."""
    out = []
    for d in range(1, depth_full + 1):
        out.extend(itertools.product(EVENTS, repeat=d))
    if depth_gc_tail > depth_full:
        for head in itertools.product(EVENTS, repeat=depth_gc_tail - 2):
            for fl in (("af",), ("hflush",)):
                for g in GC_EVENTS:
                    out.append(head + (fl, g))
    return out


def run_sequence(events):
    """Execute one sequence on the real objects; returns (violations, number of events executed)."""
    _ensure()
    W = B._W
    hj = W.hj
    viols = []
    B._clean_histdir()
    bg_files, top = B._materialise(BG, 0, 0)
    boot = B._boot_value(top, 0)
    W.vt.now = B.NOW
    W.up.boot = boot
    path = os.path.join(W.histdir, f"xonsh-{SID}.json")
    h = hj.JsonHistory(filename=path, sessionid=SID, gc=False, ts=[B.NOW - 3.0, None], locked=True, env={})
    old_hist, W.xsh.history = W.xsh.history, h
    state = "original"  # original | deleted | corrupted | recreated-after-delete | recreated-after-corruption
    ncmds = 0
    done = 0

    def bad(key, clause, k, observed, expected):
        viols.append(
            {
                "key": key,
                "clause": clause,
                "case": {"part": "live-seq", "events": [list(e) for e in events[: k + 1]]},
                "observed": observed,
                "expected": expected,
                "note": f"open session '{SID}' next to closed sessions c (20 s old, 1 cmd) and a (10 s old, 2 cmds); session file state: {state}",
                "n": 1,
            }
        )

    try:
        for k, ev in enumerate(events):
            done += 1
            if ev[0] in ("af", "hflush"):
                h.append({"inp": f"c{k}\n", "rtn": 0, "ts": [B.NOW - 1.0, B.NOW - 0.9], "cwd": "/"})
                try:
                    if ev[0] == "af":
                        h.flush()
                    else:  # `history flush` typed by the user of the still running session
                        import xonsh.history.main as xhm

                        W.xsh.history = h
                        xhm.history_main(["flush"])
                except Exception:  # noqa: BLE001 - whether a flush over a damaged file succeeds is C13's business
                    continue
                if state in ("deleted", "corrupted") and os.path.exists(path):
                    state = "recreated-after-delete" if state == "deleted" else "recreated-after-corruption"
                    ncmds = 0
                ncmds += 1
                flag = _lock_flag(path)
                if os.path.exists(path) and flag != W.ref_flag:
                    bad(f"json-live:lock-flag-differs-from-fresh-session:{state}", "recreated file is locked like a fresh one", k, {"locked": flag}, {"locked": W.ref_flag, "source": "first flush of a brand-new session"})
            elif ev[0] == "rm":
                if os.path.exists(path):
                    os.remove(path)
                    state = "deleted"
            elif ev[0] == "trunc":
                if os.path.exists(path) and os.path.getsize(path) > 1:
                    with open(path, "r+b") as f:
                        f.truncate(os.path.getsize(path) // 2)
                    state = "corrupted"
            else:
                _, limit, unit, force = ev
                existed = os.path.exists(path)
                fname = os.path.basename(path)
                counted = existed and fname in _unlocked_listing()
                if counted:
                    bad(f"json-live:open-session-counted-as-closed:{state}", "open session is not a GC candidate", k, {"unlocked_candidates_include": fname, "locked": _lock_flag(path)}, "not listed by JsonHistoryGC.files(only_unlocked=True)")
                files = [f for f in bg_files if os.path.exists(os.path.join(W.histdir, f"xonsh-{f['name']}.json"))]
                if existed:
                    files = files + [{"name": SID, "kind": "ok", "cmds": ncmds, "locked": True, "ts": B.NOW, "size": os.path.getsize(path), "group": top + 1}]
                W.xsh.history = h
                deleted, crash, refused = B._gc_json((limit, unit), force, boot)
                if SID in deleted:
                    bad(f"json-live:open-session-file-deleted:{state}", "GC never deletes the file of a session that is still open", k, {"deleted": sorted(deleted)}, f"xonsh-{SID}.json survives every GC pass")
                    state = "deleted"
                elif not counted:
                    verdict = B._judge(files, boot, unit, limit, force, deleted, crash, refused)
                    if verdict:
                        key = B._key(verdict[0], unit, limit, force) if verdict[0] == "unlink-order-not-oldest-first" else f"json-live:{verdict[0]}:{unit}"
                        bad(key, verdict[0], k, {"deleted": sorted(deleted), "crash": crash, "refusal_warning": refused}, {"acceptable_deletion_sets": verdict[1]})
    finally:
        W.xsh.history = old_hist
    return viols, done


def check_sequences(seqs):
    out = {"evals": 0, "nontrivial": 0, "viols": [], "live_sequences": 0}
    seen = {}
    for events in seqs:
        viols, done = run_sequence(events)
        out["evals"] += done
        out["live_sequences"] += 1
        out["nontrivial"] += any(e[0] == "gc" for e in events) and any(e[0] in ("rm", "trunc") for e in events)
        for v in viols:
            if v["key"] not in seen:
                seen[v["key"]] = v
            else:
                seen[v["key"]]["n"] += 1
    out["viols"] = list(seen.values())
    return out


# ---------------------------------------------------------------------------- 2. start-up handshake

HS_STATES = [("ok", 1, False), ("ok", 2, False), ("ok", 1, True), ("ok", 3, False)]
BIG = {"files": 1000, "commands": 100000, "s": 1e9, "b": 10**9}


def startup_collections(nmax):
    return [(states, 0) for n in range(1, nmax + 1) for states in itertools.product(HS_STATES, repeat=n)]


def startup_pairs(files, boot):
    """(L1, L2): every ordered pair of distinct boundary limits of one unit (both directions), plus a
    change of unit from 'keep nothing' / 'keep everything' in each other unit."""
    alpha = {u: B._limits(files, boot, u, False) for u in B.UNITS}
    pairs = []
    for u2 in B.UNITS:
        for l2 in alpha[u2]:
            for l1 in alpha[u2]:
                if l1 != l2:
                    pairs.append(((l1, u2), (l2, u2)))
            for u1 in B.UNITS:
                if u1 != u2:
                    pairs.append(((0.0 if u1 == "s" else 0, u1), (l2, u2)))
                    pairs.append(((BIG[u1], u1), (l2, u2)))
    return pairs


def startup_once(l1, l2, boot):
    """Real JsonHistory(gc=True) -> real GC thread parked in its wait_for_shell loop -> the limit changes
    -> released as Shell.__init__ releases it -> joined.  Returns (deleted, crash, refused)."""
    _ensure()
    W = B._W
    hj = W.hj
    env = W.xsh.env
    before = set(os.listdir(W.histdir))
    W.vt.now = B.NOW
    W.up.boot = boot
    del W.printed[:]
    reached, go = threading.Event(), threading.Event()
    crashes = []

    def hook():
        reached.set()
        if not go.wait(30):
            raise common.ToolError("start-up handshake: never released")

    old_hook, old_exc = W.vt.hook, threading.excepthook
    threading.excepthook = lambda a: crashes.append(f"{a.exc_type.__name__}: {a.exc_value}"[:160])
    W.vt.hook = hook
    hj.JsonHistoryGC = W.real_gc
    gc = None
    try:
        env["XONSH_HISTORY_SIZE"] = l1  # the limit in force while the history object is built
        sess = os.path.join(W.data, "session", "xonsh-startup.json")
        h = hj.JsonHistory(filename=sess, sessionid="startup", gc=True, ts=[B.NOW, None], locked=True, env={})
        gc = h.gc
        if not reached.wait(30):
            raise common.ToolError("start-up handshake: the GC thread never reached its wait_for_shell loop")
        env["XONSH_HISTORY_SIZE"] = l2  # ~/.xonshrc runs: $XONSH_HISTORY_SIZE = ...
        gc.wait_for_shell = False  # Shell.__init__: "allows history garbage collector to start running"
        go.set()
        gc.join(30)
        if gc.is_alive():
            raise common.ToolError("start-up handshake: the GC thread did not finish")
    finally:
        go.set()
        if gc is not None:
            gc.wait_for_shell = False
        hj.JsonHistoryGC = W.sync_gc
        W.vt.hook = old_hook
        threading.excepthook = old_exc
    after = set(os.listdir(W.histdir))
    deleted = frozenset(n[len("xonsh-") : -len(".json")] for n in before - after)
    refused = any("garbage collection would discard" in p for p in W.printed)
    return deleted, (crashes[0] if crashes else None), refused


def check_startup(item):
    states, mask = item
    _ensure()
    out = {"evals": 0, "nontrivial": 0, "viols": [], "startup_runs": 0}
    seen = {}
    B._clean_histdir()
    files, top = B._materialise(states, mask, 0)
    boot = B._boot_value(top, 0)
    dirty = False
    for l1, l2 in startup_pairs(files, boot):
        if dirty:
            B._materialise(states, mask, 0)
        deleted, crash, refused = startup_once(l1, l2, boot)
        dirty = bool(deleted or crash)
        out["evals"] += 1
        out["startup_runs"] += 1
        acc2, _ = B.accept_sets(files, boot, l2[1], l2[0], False)
        acc1, _ = B.accept_sets(files, boot, l1[1], l1[0], False)
        out["nontrivial"] += acc1 != acc2
        if crash or deleted not in acc2:
            if crash:
                clause = "crash:" + crash.split(":")[0].strip()
            elif deleted in acc1:
                clause = "limit-in-force-ignored"  # exactly what the limit at construction time asks for
            else:
                clause = B.classify_mismatch(files, boot, l2[1], l2[0], False, deleted, refused)
            key = f"json-startup:{clause}" + ("" if clause == "limit-in-force-ignored" else f":{l2[1]}")
            if key not in seen:
                seen[key] = {
                    "key": key,
                    "clause": clause,
                    "case": {"part": "startup", "files": [list(s) for s in states], "ties": mask, "l1": list(l1), "l2": list(l2)},
                    "observed": {"deleted": sorted(deleted), "crash": crash, "refusal_warning": refused},
                    "expected": {"acceptable_deletion_sets_for_l2": sorted(sorted(a) for a in acc2), "for_l1_(superseded)": sorted(sorted(a) for a in acc1)},
                    "note": B._describe(files, boot) + f"; $XONSH_HISTORY_SIZE={l1!r} when the history object (and its GC thread) is built, {l2!r} when the shell is ready",
                    "n": 0,
                }
            seen[key]["n"] += 1
    out["viols"] = list(seen.values())
    return out


# ---------------------------------------------------------------------------- replay


def replay(case):
    _ensure()
    if case["part"] == "live-seq":
        events = [tuple(e) for e in case["events"]]
        viols, _ = run_sequence(events)
        print("events:", events)
        for v in viols:
            print("violated:", v["key"], "| observed:", v["observed"], "| expected:", v["expected"])
        print("files left:", sorted(os.listdir(B._W.histdir)))
        return 1 if viols else 0
    states = tuple(tuple(s) for s in case["files"])
    B._clean_histdir()
    files, top = B._materialise(states, case["ties"], 0)
    boot = B._boot_value(top, 0)
    l1, l2 = tuple(case["l1"]), tuple(case["l2"])
    deleted, crash, refused = startup_once(l1, l2, boot)
    acc2, label = B.accept_sets(files, boot, l2[1], l2[0], False)
    print(B._describe(files, boot))
    print(f"JsonHistory(gc=True) built under $XONSH_HISTORY_SIZE={l1!r}; changed to {l2!r} before wait_for_shell is cleared")
    print("observed deleted :", sorted(deleted), "| crash:", crash, "| refusal warning printed:", refused)
    print("expected deletion set for the limit in force, one of:", sorted(sorted(a) for a in acc2), f"({label})")
    return 1 if (crash or deleted not in acc2) else 0
