"""pysched - stateless, preemption-bounded exploration of REAL CPython threads.

One controlled thread runs at a time (baton = per-thread semaphore).  Scheduling points are
  * `line` trace events inside an explicit set of code objects of the code under test, and
  * every blocking / polling primitive, replaced by a cooperative shim so that waiting is an
    *enabledness predicate* the scheduler can evaluate (Lock/RLock/Condition, Thread.join,
    queue.get, time.sleep and timed waits as yield-waits on a virtual clock).
explore() enumerates every schedule of a harness with at most `bound` preemptions (switching
away from a thread that could have continued), depth-first and stateless: each schedule is a fresh
execution of the harness that replays a recorded choice prefix and then always takes choice 0
("keep running / lowest id").  A prefix that cannot be replayed (a recorded choice is out of range)
is a hard tool error: some nondeterminism is not owned."""

import sys
import threading
import time as _time

from . import common

_real_sleep = _time.sleep
_RealThread = threading.Thread
_real_start = threading.Thread.start
_real_join = threading.Thread.join
_real_is_alive = threading.Thread.is_alive
_real_settrace = sys.settrace


class SchedAbort(BaseException):
    """Raised inside parked threads when an execution is torn down."""


class Divergence(common.ToolError):
    pass


class _T:
    __slots__ = ("id", "sem", "state", "pred", "deadline", "timed_out", "thread", "steps", "name", "loc", "wake_mark", "yielding", "no_early")

    def __init__(self, tid, name):
        self.id = tid
        self.sem = threading.Semaphore(0)
        self.state = "new"  # new | ready | running | finished
        self.pred = None
        self.deadline = None
        self.timed_out = False
        self.thread = None
        self.steps = 0
        self.name = name
        self.loc = None
        self.wake_mark = 0
        self.yielding = False
        self.no_early = False


class Scheduler:
    """One execution."""

    def __init__(self, prefix=(), traced_codes=(), max_steps=20000, virtual_limit=120.0):
        # traced_codes: iterable of code objects, or dict code -> set of line numbers (points only
        # on those lines; the other lines of the function are declared thread-local by the harness)
        self.line_ok = traced_codes if isinstance(traced_codes, dict) else None
        self.prefix = list(prefix)
        self.trace = []  # (n_enabled, chosen_idx, cur_enabled)
        self.threads = []
        self.by_ident = {}
        self.current = None
        self.traced = set(traced_codes)
        self.traced_files = {c.co_filename for c in self.traced}
        self.max_steps = max_steps
        self.total_steps = 0
        self.now = 1_000_000.0
        self.virtual_limit = virtual_limit
        self.start_now = self.now
        self.outcome = None  # None | 'deadlock' | 'livelock' | 'horizon'
        self.abort = False
        self.sigs = set()
        self.tls = threading.local()
        self.errors = []
        self.diverged = None
        self._n_normal = 0

    # ------------------------------------------------------------------ thread bookkeeping
    def me(self):
        return self.by_ident.get(threading.get_ident())

    def _register(self, name):
        t = _T(len(self.threads), name)
        self.threads.append(t)
        return t

    def adopt_main(self):
        t = self._register("main")
        t.thread = threading.current_thread()
        t.state = "running"
        self.by_ident[threading.get_ident()] = t
        self.current = t
        self._install_trace()
        return t

    def _install_trace(self):
        if self.traced:
            sys.settrace(self._global_trace)

    def _global_trace(self, frame, event, arg):
        if frame.f_code in self.traced:
            return self._local_trace
        return None

    def _local_trace(self, frame, event, arg):
        if event == "line":
            if getattr(self.tls, "busy", False):
                return self._local_trace
            if self.line_ok is not None and frame.f_lineno not in self.line_ok[frame.f_code]:
                return self._local_trace
            t = self.me()
            if t is not None and t is self.current:
                t.loc = (frame.f_code.co_name, frame.f_lineno)
                self.point()
        return self._local_trace

    # ------------------------------------------------------------------ core
    def _enabled(self, cur):
        out = []
        for t in self.threads:
            if t.state not in ("ready", "running"):
                continue
            if t.pred is None:
                out.append(t)
            else:
                self.tls.busy = True
                try:
                    ok = bool(t.pred())
                finally:
                    self.tls.busy = False
                if ok:
                    out.append(t)
        # pollers (threads parked in a sleep / yield-wait) come last: the default continuation prefers
        # threads that do real work, so two pollers can never starve a worker by waking each other
        out.sort(key=lambda t: (t.yielding, t.id))
        if cur in out and not cur.yielding:
            out.remove(cur)
            out.insert(0, cur)
        # A timer may also land first: a thread in a timed wait whose condition does not hold yet can
        # be woken by its timeout although other threads could still run (they are merely slow).  These
        # alternatives come last and always cost one deviation.
        self._n_normal = len(out)
        if out:
            early = [t for t in self.threads if t.state == "ready" and t.pred is not None and t.deadline is not None and not t.no_early and t not in out]
            early.sort(key=lambda t: (t.deadline, t.id))
            out.extend(early)
        return out

    def _choose(self, enabled, cur_enabled):
        if len(enabled) == 1:
            return enabled[0]
        i = len(self.trace)
        if i < len(self.prefix):
            idx = self.prefix[i]
            if idx >= len(enabled):
                self.diverged = f"replay diverged at choice {i}: recorded {idx}, only {len(enabled)} enabled"
                self.outcome = "diverged"
                return None
        else:
            idx = 0
        self.trace.append((len(enabled), idx, cur_enabled, self._n_normal))
        nxt = enabled[idx]
        if idx >= self._n_normal:
            # the timeout fires early
            self.now = max(self.now, nxt.deadline)
            nxt.timed_out = True
            nxt.pred = None
        return nxt

    def point(self, pred=None, timeout=None, early=True):
        """Scheduling point of the calling (current) thread.  With pred: the caller blocks until
        pred() holds (or the virtual timeout fires; returns False then)."""
        cur = self.me()
        if cur is None or self.abort:
            if self.abort and cur is not None:
                raise SchedAbort()
            return True
        if getattr(self.tls, "busy", False):
            return True
        self.tls.busy = True
        try:
            self.total_steps += 1
            cur.steps += 1
            if self.total_steps > self.max_steps:
                self.outcome = self.outcome or "horizon"
                self._teardown(cur)
                raise SchedAbort()
            cur.pred = pred
            cur.no_early = not early  # harness-internal waits are never woken by an early timeout
            cur.deadline = (self.now + timeout) if (pred is not None and timeout is not None) else None
            cur.timed_out = False
            cur.state = "ready"
            nxt = self._pick(cur)
            if nxt is None:
                self._teardown(cur)
                raise SchedAbort()
            self._switch(cur, nxt)
            cur.pred = None
            cur.deadline = None
            return not cur.timed_out
        finally:
            self.tls.busy = False

    def _pick(self, cur):
        enabled = self._enabled(cur)
        if not enabled:
            # only timed waiters can make progress: fire the earliest deadline (virtual clock)
            timed = [t for t in self.threads if t.state == "ready" and t.deadline is not None]
            if not timed:
                self.outcome = self.outcome or "deadlock"
                return None
            t = min(timed, key=lambda x: (x.deadline, x.id))
            self.now = max(self.now, t.deadline)
            if self.now - self.start_now > self.virtual_limit:
                self.outcome = self.outcome or "livelock"
                return None
            t.timed_out = True
            t.pred = None
            return t
        cur_enabled = bool(enabled) and enabled[0] is cur and not cur.yielding
        nxt = self._choose(enabled, cur_enabled)
        if nxt is None:
            return None
        self.sigs.add((tuple((t.id, t.loc) for t in self.threads if t.state != "finished"), nxt.id))
        return nxt

    def _switch(self, cur, nxt):
        nxt.state = "running"
        if nxt is cur:
            return
        self.current = nxt
        nxt.sem.release()
        cur.sem.acquire()
        if self.abort:
            raise SchedAbort()

    def _teardown(self, cur):
        """Abort the execution: wake every parked thread so that it unwinds."""
        self.abort = True
        for t in self.threads:
            if t is not cur and t.state in ("ready", "new"):
                t.sem.release()

    # ------------------------------------------------------------------ threads
    def spawn_wrapper(self, thread):
        """Called from patched Thread.start in the parent (current) thread."""
        t = self._register(thread.name)
        t.thread = thread
        t.state = "ready"
        orig_run = thread.run
        sched = self

        def run():
            sched.by_ident[threading.get_ident()] = t
            t.sem.acquire()  # wait for the baton
            if sched.abort:
                t.state = "finished"
                return
            sched._install_trace()
            try:
                orig_run()
            except SchedAbort:
                pass
            except BaseException as e:  # noqa: BLE001
                sched.errors.append((t.id, f"{type(e).__name__}: {e}"))
                if not sched.abort:
                    try:
                        threading.excepthook(threading.ExceptHookArgs((type(e), e, e.__traceback__, thread)))
                    except Exception:
                        pass
            finally:
                sys.settrace(None)
                sched._finish(t)

        thread.run = run
        thread._xv_t = t
        return t

    def _finish(self, t):
        t.state = "finished"
        if self.abort:
            return
        self.tls.busy = True
        try:
            nxt = self._pick(t)
            if nxt is None:
                self._teardown(t)
                return
            nxt.state = "running"
            self.current = nxt
            nxt.sem.release()
        finally:
            self.tls.busy = False

    def finished(self, thread):
        t = getattr(thread, "_xv_t", None)
        return t is None or t.state == "finished"

    # ------------------------------------------------------------------ waits
    def sleep(self, secs):
        """time.sleep as a yield-wait: other threads get to run; if nobody else can, virtual time
        advances."""
        cur = self.me()
        if cur is None:
            return
        base = {t.id: t.steps for t in self.threads}

        def progressed():
            for t in self.threads:
                if t is not cur and t.steps != base.get(t.id, 0):
                    return True
            return False

        start = self.now
        cur.yielding = True
        try:
            self.point(pred=progressed, timeout=max(secs, 1e-6))
        finally:
            cur.yielding = False
        # waking up costs the requested time even when another thread's progress ended the wait:
        # otherwise two polling loops could spin forever with the virtual clock frozen
        self.now = max(self.now, start + max(secs, 1e-6))
        if self.now - self.start_now > self.virtual_limit and not self.abort:
            self.outcome = self.outcome or "livelock"
            self._teardown(cur)
            raise SchedAbort()

    def time(self):
        return self.now


_ACTIVE = None  # the Scheduler of the execution in progress (one per process)


def active():
    return _ACTIVE


# ---------------------------------------------------------------------- cooperative primitives


class CoLock:
    """Cooperative under the scheduler; a real lock for callers outside it (free-running parts of a
    driver, threads the scheduler does not own)."""

    def __init__(self):
        self.owner = None
        self._real = threading.Lock()

    def acquire(self, blocking=True, timeout=-1):
        s = _ACTIVE
        me = s.me() if s else None
        if s is None or me is None:
            ok = self._real.acquire(blocking, timeout)
            if ok:
                self.owner = "ext"
            return ok
        if not blocking:
            if self.owner is None:
                self.owner = me
                return True
            return False
        ok = s.point(pred=lambda: self.owner is None, timeout=None if timeout in (-1, None) else timeout)
        if not ok:
            return False
        self.owner = me
        return True

    def release(self):
        if self.owner == "ext":
            self.owner = None
            self._real.release()
        else:
            self.owner = None

    def locked(self):
        return self.owner is not None

    __enter__ = acquire

    def __exit__(self, *a):
        self.release()


class CoRLock:
    def __init__(self):
        self.owner = None
        self.count = 0

    def acquire(self, blocking=True, timeout=-1):
        s = _ACTIVE
        me = s.me() if s else "ext"
        if self.owner is me:
            self.count += 1
            return True
        if s is None or me == "ext" or me is None:
            self.owner, self.count = me, 1
            return True
        if not blocking:
            if self.owner is None:
                self.owner, self.count = me, 1
                return True
            return False
        ok = s.point(pred=lambda: self.owner is None, timeout=None if timeout in (-1, None) else timeout)
        if not ok:
            return False
        self.owner, self.count = me, 1
        return True

    def release(self):
        self.count -= 1
        if self.count <= 0:
            self.owner, self.count = None, 0

    def _release_save(self):
        st = (self.owner, self.count)
        self.owner, self.count = None, 0
        return st

    def _acquire_restore(self, st):
        s = _ACTIVE
        s.point(pred=lambda: self.owner is None)
        self.owner, self.count = st

    def _is_owned(self):
        s = _ACTIVE
        return self.owner is (s.me() if s else "ext")

    __enter__ = acquire

    def __exit__(self, *a):
        self.release()


class CoCondition:
    def __init__(self, lock=None):
        self.lock = lock if lock is not None else CoRLock()
        self.waiters = []
        self.acquire = self.lock.acquire
        self.release = self.lock.release

    def __enter__(self):
        return self.lock.__enter__()

    def __exit__(self, *a):
        return self.lock.__exit__(*a)

    def wait(self, timeout=None):
        s = _ACTIVE
        token = [False]
        self.waiters.append(token)
        if isinstance(self.lock, CoRLock):
            st = self.lock._release_save()
        else:
            self.lock.release()
            st = None
        ok = s.point(pred=lambda: token[0], timeout=timeout)
        if not ok and token in self.waiters:
            self.waiters.remove(token)
        if st is not None:
            self.lock._acquire_restore(st)
        else:
            self.lock.acquire()
        return ok

    def wait_for(self, predicate, timeout=None):
        result = predicate()
        while not result:
            if not self.wait(timeout) and timeout is not None:
                return predicate()
            result = predicate()
        return result

    def notify(self, n=1):
        for token in self.waiters[:n]:
            token[0] = True
        del self.waiters[:n]

    def notify_all(self):
        self.notify(len(self.waiters))

    notifyAll = notify_all


class CoEvent:
    def __init__(self):
        self._flag = False

    def is_set(self):
        return self._flag

    isSet = is_set

    def set(self):
        self._flag = True

    def clear(self):
        self._flag = False

    def wait(self, timeout=None):
        s = _ACTIVE
        if self._flag or s is None or s.me() is None:
            return self._flag
        s.point(pred=lambda: self._flag, timeout=timeout)
        return self._flag


class ShimModule:
    """A module look-alike: attribute lookups fall through to the real module."""

    def __init__(self, real, **overrides):
        self.__dict__["_real"] = real
        self.__dict__.update(overrides)

    def __getattr__(self, name):
        return getattr(self._real, name)


# Objects are cooperative only when they are created during a scheduled execution.  A driver that also
# has a free-running part (real threads, no scheduler) keeps the shim modules installed: whatever is
# created there must be the real primitive - a cooperative lock outside the scheduler excludes nobody.
def _lock():
    return CoLock() if _ACTIVE is not None else threading.Lock()


def _rlock():
    return CoRLock() if _ACTIVE is not None else threading.RLock()


def _condition(lock=None):
    return CoCondition(lock) if _ACTIVE is not None else threading.Condition(lock)


def _event():
    return CoEvent() if _ACTIVE is not None else threading.Event()


def threading_shim():
    return ShimModule(threading, Lock=_lock, RLock=_rlock, Condition=_condition, Event=_event)


def time_shim():
    import time as real

    return ShimModule(real, sleep=lambda s: (_ACTIVE.sleep(s) if _ACTIVE and _ACTIVE.me() else real.sleep(s)), time=lambda: (_ACTIVE.time() if _ACTIVE else real.time()))


# ---------------------------------------------------------------------- global Thread patches


def _patched_start(self):
    s = _ACTIVE
    if s is None or s.me() is None or s.abort:
        return _real_start(self)
    s.spawn_wrapper(self)
    _real_start(self)
    s.point()  # the child is now schedulable


def _patched_join(self, timeout=None):
    s = _ACTIVE
    t = getattr(self, "_xv_t", None)
    if s is None or t is None or s.me() is None or s.abort:
        return _real_join(self, timeout)
    if t.state != "finished":
        s.point(pred=lambda: t.state == "finished", timeout=timeout)
    return None


def _patched_is_alive(self):
    t = getattr(self, "_xv_t", None)
    s = _ACTIVE
    if t is None or s is None or s.abort:
        return _real_is_alive(self)
    return t.state != "finished"


class Result:
    __slots__ = ("trace", "outcome", "value", "error", "steps", "sigs", "errors", "threads")


def run_once(body, prefix, traced_codes, max_steps=20000):
    """One execution of body(sched) on the calling thread (= controlled thread 0)."""
    global _ACTIVE
    import gc

    # finalizers (PipeChannel.__del__, proxies) close fds: the cyclic collector must not fire at an
    # allocation-count dependent moment inside an execution; collect between executions instead
    gc.collect()
    gc.disable()
    s = Scheduler(prefix, traced_codes, max_steps)
    _ACTIVE = s
    threading.Thread.start = _patched_start
    threading.Thread.join = _patched_join
    threading.Thread.is_alive = _patched_is_alive
    old_trace = sys.gettrace()
    res = Result()
    res.value = None
    res.error = None
    try:
        s.adopt_main()
        try:
            res.value = body(s)
        except SchedAbort:
            pass
        except Divergence:
            raise
        except Exception as e:  # noqa: BLE001
            res.error = f"{type(e).__name__}: {e}"
    finally:
        sys.settrace(old_trace)
        # tear down: nobody may stay parked
        unfinished = [t for t in s.threads[1:] if t.state != "finished"]
        if unfinished and not s.abort and s.outcome is None and res.error is None:
            s.outcome = "threads-left-running"
        s.abort = True
        for t in s.threads[1:]:
            if t.state != "finished":
                t.sem.release()
        threading.Thread.start = _real_start
        threading.Thread.join = _real_join
        threading.Thread.is_alive = _real_is_alive
        for t in s.threads[1:]:
            if t.thread is not None:
                _real_join(t.thread, 60.0)
                if _real_is_alive(t.thread):
                    raise common.ToolError(f"controlled thread {t.name} did not unwind")
        _ACTIVE = None
        gc.enable()
    if s.diverged:
        raise Divergence(f"{s.diverged} (prefix {list(prefix)!r})")
    res.trace = s.trace
    res.outcome = s.outcome
    res.steps = s.total_steps
    res.sigs = s.sigs
    res.errors = s.errors
    res.threads = len(s.threads)
    return res


COST_MODE = "preemption"  # or "deviation": every departure from choice 0 costs 1 (also free switches)


def _children(trace, prefix_len, bound):
    """Alternative prefixes reachable from this execution within the bound.  In 'preemption' mode
    only switching away from a thread that could continue costs 1 (CHESS); in 'deviation' mode every
    non-default choice costs 1, which also bounds the free switches at blocking/polling points."""
    out = []
    cost = 0
    dev = COST_MODE == "deviation"
    for i, (n, idx, cur_enabled, n_normal) in enumerate(trace):
        if i >= prefix_len:
            for alt in range(1, n):
                c = cost + (1 if (cur_enabled or dev or alt >= n_normal) else 0)
                if c <= bound:
                    out.append([x[1] for x in trace[:i]] + [alt])
        if idx > 0 and (cur_enabled or dev or idx >= n_normal):
            cost += 1
    return out


class Stats:
    def __init__(self):
        self.executions = 0
        self.steps = 0
        self.sigs = set()
        self.outcomes = {}
        self.max_choice_points = 0
        self.capped = None


MAX_VIOLATING_SCHEDULES = 25  # per sub-tree: a refuted property needs no exhaustive refutation
DEADLINE = [None]  # wall-clock deadline (time.time()) for the exploration in progress


def explore_subtree(body, check, traced_codes, bound, root_prefix, stats, max_execs=None, max_steps=20000):
    """Depth-first exploration below root_prefix.  check(result, prefix) -> list of violation dicts."""
    stack = [list(root_prefix)]
    viols = []
    bad_execs = 0
    while stack:
        if max_execs is not None and stats.executions >= max_execs:
            stats.capped = f"execution cap {max_execs}"
            break
        if bad_execs >= MAX_VIOLATING_SCHEDULES:
            stats.capped = f"stopped after {bad_execs} violating schedules in one sub-tree"
            break
        if DEADLINE[0] is not None and _time.time() > DEADLINE[0]:
            stats.capped = "wall-clock budget of this exploration reached"
            break
        prefix = stack.pop()
        r = run_once(body, prefix, traced_codes, max_steps)
        stats.executions += 1
        stats.steps += r.steps
        stats.sigs |= r.sigs
        stats.max_choice_points = max(stats.max_choice_points, len(r.trace))
        vs = check(r, prefix) or []
        if vs:
            bad_execs += 1
        for v in vs:
            v.setdefault("case", {})["schedule"] = [x[1] for x in r.trace]
            viols.append(v)
        for child in reversed(_children(r.trace, len(prefix), bound)):
            stack.append(child)
    return viols


# ---------------------------------------------------------------------- parallel driver

_JOB = None


def _worker(prefix):
    body, check, traced, bound, max_execs, max_steps, setup = _JOB
    st = Stats()
    viols = explore_subtree(body, check, traced, bound, prefix, st, max_execs, max_steps)
    return {"viols": viols, "executions": st.executions, "steps": st.steps, "sigs": list(st.sigs), "outcomes": st.outcomes, "capped": st.capped, "maxcp": st.max_choice_points}


def _worker_init():
    setup = _JOB[6]
    if setup is not None:
        setup()


def explore(body, check, traced_codes, bound, ctx, setup=None, max_execs_per_shard=None, max_steps=20000, split_depth=2, budget_s=None):
    """Explore all schedules with <= bound preemptions.  The first `split_depth` levels of the
    schedule tree are expanded in the parent to obtain independent sub-trees for the workers."""
    global _JOB
    _JOB = (body, check, traced_codes, bound, max_execs_per_shard, max_steps, setup)
    if setup is not None:
        setup()
    st = Stats()
    viols = []
    if budget_s is None:
        budget_s = 240 if ctx.tier == "quick" else 1500
    DEADLINE[0] = _time.time() + budget_s
    # expand the top of the tree sequentially
    frontier = [[]]
    shards = []
    for _ in range(split_depth):
        nxt = []
        for prefix in frontier:
            r = run_once(body, prefix, traced_codes, max_steps)
            st.executions += 1
            st.steps += r.steps
            st.sigs |= r.sigs
            st.max_choice_points = max(st.max_choice_points, len(r.trace))
            for v in check(r, prefix) or []:
                v.setdefault("case", {})["schedule"] = [x[1] for x in r.trace]
                viols.append(v)
            nxt.extend(_children(r.trace, len(prefix), bound))
        frontier = nxt
        if not frontier:
            break
    shards = frontier
    if len(viols) >= MAX_VIOLATING_SCHEDULES:
        # already refuted at the top of the tree: sample no further
        st.capped = f"stopped: {len(viols)} violations in the first {st.executions} schedules"
        shards = []
    if shards:
        # each shard root itself still has to be executed: explore_subtree does that
        res = common.pmap(_worker, shards, ctx.jobs, chunk=max(1, len(shards) // (ctx.jobs * 4) or 1), init=_worker_init, seed=ctx.seed)
        for r in res:
            viols.extend(r["viols"])
            st.executions += r["executions"]
            st.steps += r["steps"]
            st.sigs |= set(map(_freeze, r["sigs"]))
            st.max_choice_points = max(st.max_choice_points, r["maxcp"])
            if r["capped"]:
                st.capped = r["capped"]
    return viols, st


def _freeze(x):
    if isinstance(x, list):
        return tuple(_freeze(y) for y in x)
    return x


def shared_lines(codes, patterns):
    """dict code -> line numbers whose source matches one of the regex `patterns` (plus the first
    line of the function).  Lines not listed are treated as touching thread-local data only."""
    import linecache
    import re

    rx = re.compile("|".join(patterns))
    out = {}
    for c in codes:
        lines = set()
        linenos = sorted({ln for _, _, ln in c.co_lines() if ln is not None})
        for ln in linenos:
            if rx.search(linecache.getline(c.co_filename, ln)):
                lines.add(ln)
        out[c] = lines
    return out


def codes_of(*funcs):
    """Code objects of the named callables.  A name may have become a class in the tree under test
    (a context manager rewritten as a class, say): then all its methods are traced."""
    import inspect

    out = []
    for f in funcs:
        if inspect.isclass(f):
            for v in vars(f).values():
                v = getattr(v, "__func__", v)
                if inspect.isfunction(v):
                    out.append(v.__code__)
            continue
        f = getattr(f, "__func__", f)
        while hasattr(f, "__wrapped__"):
            f = f.__wrapped__
        if hasattr(f, "__code__"):
            out.append(f.__code__)
    return out


# ---------------------------------------------------------------------- queue / fd shims


class CoQueue:
    """queue.Queue look-alike whose blocking get is an enabledness predicate."""

    def __init__(self, maxsize=0):
        import collections

        self._q = collections.deque()
        self.maxsize = maxsize

    def put(self, item, block=True, timeout=None):
        self._q.append(item)

    put_nowait = put

    def empty(self):
        return not self._q

    def qsize(self):
        return len(self._q)

    def get(self, block=True, timeout=None):
        import queue as _queue

        s = _ACTIVE
        if self._q:
            return self._q.popleft()
        if not block or s is None or s.me() is None:
            raise _queue.Empty
        ok = s.point(pred=lambda: bool(self._q), timeout=timeout)
        if not ok or not self._q:
            raise _queue.Empty
        return self._q.popleft()

    def get_nowait(self):
        return self.get(block=False)

    def task_done(self):
        pass

    def join(self):
        pass


def queue_shim():
    import queue as real

    return ShimModule(real, Queue=lambda maxsize=0: CoQueue(maxsize) if _ACTIVE is not None else real.Queue(maxsize), SimpleQueue=lambda: CoQueue() if _ACTIVE is not None else real.SimpleQueue())


def os_read_shim(real_os=None, extra=None):
    """os look-alike whose read() blocks cooperatively until the fd is readable (data or EOF)."""
    import os as real
    import select

    real = real_os or real

    def readable(fd):
        try:
            r, _, _ = select.select([fd], [], [], 0)
        except (OSError, ValueError):
            return True  # closed/invalid: the real call will raise at once
        return bool(r)

    def read(fd, n):
        s = _ACTIVE
        if s is not None and s.me() is not None and not readable(fd):
            s.point(pred=lambda: readable(fd))
        return real.read(fd, n)

    over = {"read": read}
    if extra:
        over.update(extra)
    return ShimModule(real, **over)
