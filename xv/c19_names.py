"""C19 part 4 - different scripts never share a cache entry.

The script cache is keyed by the script's real path (escaped into a file name).  The statement's clause
"different code strings never share an entry" extends to script paths: whatever two different
scripts are called, each runs its own source.

Space (exhaustive): every script name  <stem>.xsh  with a stem over the alphabet {a, A, _, ., -} of
length 1..3 (thorough: 1..4; stems made of dots only are left out), plus directory variants
{d, D, _d, d_, d.} x {a, A, _a} joined by "/", "_" and "__", plus two-level variants - an alphabet
aimed at the escaping scheme (case, underscore and dot escapes, separator vs underscore).
  structural step: the cache file of EVERY name is discovered by effect (one cache-on run into an empty
      data directory, the file that appears); this covers all n(n-1)/2 pairs at once - names whose
      entries are the same file are the candidate pairs;
  behavioural step (the oracle): for every candidate pair and for a fixed list of targeted pairs, two
      different bodies printing different markers, both sources older than the cache, are run cache-on
      as X Y X Y and Y X Y X in a fresh data directory; every run must equal the uncached run of that
      script.  key  scripts-share-entry:<pair class>.

Does not require: distinct files as such (sharing a file is only reported when a run goes wrong);
anything for two names of the SAME real file (symlinks, ./x vs x)."""

import itertools
import os

from . import common
from . import c19_core as core
from .c19_core import ALL_OFF, ALL_ON

ALPHABET = ["a", "A", "_", ".", "-"]
DIRS = ["d", "D", "_d", "d_", "d."]
LEAVES = ["a.xsh", "A.xsh", "_a.xsh"]
TWO_LEVEL = ["d/d/a.xsh", "d_d/a.xsh", "d/d_a.xsh", "d__d/a.xsh", "d/d__a.xsh", "d_/d/a.xsh", "d/_d/a.xsh", "d/d/A.xsh", "d/D/a.xsh"]
TARGETED = [
    ("a.xsh", "A.xsh"),
    ("A.xsh", "_a.xsh"),
    ("_a.xsh", "__a.xsh"),
    ("Deploy.xsh", "_deploy.xsh"),
    ("a.b.xsh", "a_.b.xsh"),
    ("a.b.xsh", "a_b.xsh"),
    ("a_b.xsh", "a__b.xsh"),
    ("a-b.xsh", "a_b.xsh"),
    ("a..xsh", "a_.xsh"),
    ("d/a.xsh", "d_a.xsh"),
    ("d/a.xsh", "d__a.xsh"),
    ("d_a.xsh", "d__a.xsh"),
    ("D/a.xsh", "_d/a.xsh"),
    ("d./a.xsh", "d_/a.xsh"),
    ("d/A.xsh", "d/_a.xsh"),
]
SRC_TICK, NOW_TICK = 10, 12
CANDIDATE_CAP = 80  # behavioural confirmations of structurally colliding pairs (simplest first)


def names(thorough):
    out = []
    for n in range(1, (4 if thorough else 3) + 1):
        for t in itertools.product(ALPHABET, repeat=n):
            stem = "".join(t)
            if set(stem) == {"."}:
                continue
            out.append(stem + ".xsh")
    for d in DIRS:
        for leaf in LEAVES:
            out += [f"{d}/{leaf}", f"{d}_{leaf}", f"{d}__{leaf}"]
    out += TWO_LEVEL
    for x, y in TARGETED:
        out += [x, y]
    seen = set()
    return [n for n in out if not (n in seen or seen.add(n))]


def pair_class(x, y):
    def norm(s, *drop, lower=False):
        for d in drop:
            s = s.replace(d, "")
        return s.lower() if lower else s

    if x.lower() == y.lower():
        return "case-only"
    if norm(x, "_") == norm(y, "_"):
        return "underscores-only"
    if norm(x, "_", lower=True) == norm(y, "_", lower=True):
        return "case-vs-underscore"
    if norm(x, "_", "/") == norm(y, "_", "/"):
        return "separator-vs-underscore"
    if norm(x, "_", ".") == norm(y, "_", "."):
        return "dot-vs-underscore"
    if norm(x, "_", ".", "/", "-", lower=True) == norm(y, "_", ".", "/", "-", lower=True):
        return "punctuation-and-case"
    return "other"


class _Part:
    def __init__(self):
        self.rig = core.Rig("c19n")
        self.runs = 0

    def write(self, name, marker):
        p = os.path.join(self.rig.srcdir, name)
        os.makedirs(os.path.dirname(p), exist_ok=True)
        with open(p, "w", encoding="utf-8") as f:
            f.write(f"print({marker!r})\nv = {marker!r}\n")
        self.rig.set_tick(p, SRC_TICK)
        return p

    def clear_sources(self):
        self.rig.wipe(self.rig.srcdir)

    def run(self, datadir, name, sw):
        self.runs += 1
        return self.rig._run(datadir, "script", None, sw, "fresh", "exec", script=name)

    def files(self, d):
        out = []
        for dp, _dns, fns in os.walk(d):
            for n in fns:
                out.append(os.path.relpath(os.path.join(dp, n), d))
        return sorted(out)

    def discover(self, name):
        rig = self.rig
        self.clear_sources()
        self.write(name, "P")
        rig.wipe(rig.probedata)
        r = self.run(rig.probedata, name, ALL_ON)
        found = self.files(rig.probedata)
        rig.wipe(rig.probedata)
        if r["escaped"] or r["stdout"] != "P\n":
            raise common.ToolError(f"probing run of script {name!r} failed: {r}")
        return found

    def behaviour(self, x, y):
        """-> list of (order, step, name, observed, expected) that went wrong."""
        rig = self.rig
        bad = []
        for order in ((x, y), (y, x)):
            self.clear_sources()
            rig.wipe(rig.data)
            marker = {x: "PX", y: "PY"}
            for n in (x, y):
                self.write(n, marker[n])
            exp = {}
            for n in (x, y):
                exp[n] = self.run(rig.refdata, n, ALL_OFF)
                if self.files(rig.refdata):
                    rig.wipe(rig.refdata)
                if exp[n]["escaped"] or exp[n]["stdout"] != marker[n] + "\n":
                    raise common.ToolError(f"uncached run of {n!r} is wrong: {exp[n]}")
            for step, n in enumerate([order[0], order[1], order[0], order[1]]):
                o = self.run(rig.data, n, ALL_ON)
                for f in self.files(rig.data):
                    fp = os.path.join(rig.data, f)
                    if rig.get_tick(fp) is None:
                        rig.set_tick(fp, NOW_TICK)
                if not core.same_outcome(o, exp[n]):
                    bad.append((list(order), step, n, o, exp[n]))
        self.clear_sources()
        rig.wipe(rig.data)
        return bad


def _check_pair(part, x, y, why, viols):
    bad = part.behaviour(x, y)
    if bad:
        order, step, n, o, e = bad[0]
        cls = pair_class(x, y)
        viols.append(
            {
                "key": f"scripts-share-entry:{cls}",
                "clause": "different scripts never share a cache entry",
                "case": {"part": 4, "pair": [x, y], "order": order, "failing_step": step, "script_run": n, "selected_because": why, "wrong_runs": len(bad)},
                "observed": o,
                "expected": e,
                "note": "both sources are older than the cache; runs are cache-on X Y X Y in a fresh data directory",
            }
        )
    return bool(bad)


def run_part(ctx):
    part = _Part()
    ns = names(ctx.thorough)
    where = {}
    none_written = []
    for n in ns:
        found = part.discover(n)
        if len(found) != 1:
            none_written.append([n, found])
            continue
        where.setdefault(found[0], []).append(n)
    if len(none_written) > len(ns) // 2:
        raise common.ToolError(f"most probing runs wrote no single cache file: {none_written[:5]}")
    groups = [g for g in where.values() if len(g) > 1]
    candidates = []
    for g in groups:
        candidates += list(itertools.combinations(g, 2))
    viols = []
    confirmed = 0
    for x, y in candidates[:CANDIDATE_CAP]:  # (no candidates at all on a sound naming scheme)
        confirmed += _check_pair(part, x, y, "the two names were observed to use the same cache file", viols)
    cand = {frozenset(p) for p in candidates}
    for x, y in TARGETED:
        if frozenset((x, y)) not in cand:
            _check_pair(part, x, y, "targeted pair", viols)
    ctx.add_violations(viols)
    ctx.sample({"part": 4, "pair": list(TARGETED[3]), "meaning": "Deploy.xsh and _deploy.xsh with different bodies, cache-on runs X Y X Y and Y X Y X"})
    n = len(ns) - len(none_written)
    return {
        "script_names": len(ns),
        "name_pairs_covered_structurally": n * (n - 1) // 2,
        "distinct_cache_files": len(where),
        "names_sharing_a_file_with_another": sum(len(g) for g in groups),
        "candidate_pairs": len(candidates),
        "candidate_pairs_run": min(len(candidates), CANDIDATE_CAP),
        "candidate_pairs_confirmed_by_behaviour": confirmed,
        "targeted_pairs_run": len(TARGETED),
        "names_without_a_single_cache_file": none_written[:10],
        "real_runs": part.runs,
        "stem_alphabet": ALPHABET,
        "max_stem_length": 4 if ctx.thorough else 3,
    }


def replay(rec):
    import json

    c = rec["case"]
    part = _Part()
    x, y = c["pair"]
    print("cache file of", x, ":", part.discover(x))
    print("cache file of", y, ":", part.discover(y))
    bad = part.behaviour(x, y)
    for order, step, n, o, e in bad:
        print(f"VIOLATION scripts-share-entry:{pair_class(x, y)} order={order} step={step} script={n}")
        print("  observed:", json.dumps(o, sort_keys=True))
        print("  expected:", json.dumps(e, sort_keys=True))
    if not bad:
        print("no violation: every run printed its own marker")
    return 1 if bad else 0
