"""C18 - tab-completing a path inserts text that means that path; context analysis is total.

Part 1 (round trip).  For EVERY file name up to a length bound over an alphabet of shell-hostile
characters (plus the keyword names), as a file and as a directory, for every typed proper prefix in
every opening-quote style (and with / without an already typed closing quote after the cursor):
the real ``Completer.complete`` (the call the prompt-toolkit shell makes; ``XSH.completers``
restricted to the ``path`` completer) is asked for completions, each returned RichCompletion is
spliced into the line the way the shells do (replace ``prefix_len`` characters before the cursor),
the spliced line is executed by the real execer with ``rec`` being an in-process recording alias,
and the recorded argv must be exactly ``[name]`` (``name`` or ``name/`` for a directory).

Part 1b (company).  The same round trip in directories holding 2 or 3 entries at once (all pairs and
triples out of one representative per quoting class: plain, ``$``, backslash, each quote kind, control
character, blank, ...) for every opening-quote style, under EVERY order in which the completer can
visit the candidates: they travel in a ``set``, so the order depends on the hash seed; the real
``_quote_paths`` is handed the same candidates as a list in each permutation.  Every completion must
read back as exactly one argument naming one of the entries (a failing completion that is literally
the single-entry completion of part 1 is not counted twice).

Part 1c (cursor after a closed quote).  Part 1 also types every prefix as a CLOSED literal with the
cursor right after the closing quote (``rec 'my'<Tab>``; names up to length 2): the path completer's
own prefix length already spans the closing quote and the pipeline (``_format_completion``) must not
widen it again - the command word and the blank before the argument have to survive.

Part 1d (hostile parent).  A directory with a hostile name (one, thorough: two hostile symbols before
/ between / after plain letters) holding one file, reached on the routes where the completer expands
the PARENT itself so that the user never typed (or quoted) it: ``$D/f`` (environment variable),
the plain letters of the directory + ``/f`` (subsequence matching, on by default) and ``~/f`` with
``$HOME`` = that directory.  Oracle: exactly one argument that denotes the file.  (CDPATH candidates
are only produced for ``cd`` and are relative to the CDPATH entry, which never appears in the
inserted text; fuzzy matching is off by default: both are not explored.)

Part 1e (closed quote + typed tail).  What the line looks like after accepting a quoted directory
completion and typing on: ``<q>dir/<q>f``, ``<q>dir<q>/f``, ``<q>di<q>r/f`` for the 7 quoted styles,
directory and file names plain and with a blank; full pipeline, spliced with the returned prefix_len
(the completer's prefix length must cover the tail typed after the closing quote).

Part 2 (analyser totality).  ``CompletionContextParser.parse(text, cursor)`` for ALL strings up to
a length bound over a 20-symbol alphabet x every cursor position: never raises, and the context's
prefix / suffix (command context) or code slice (python context) reproduce the text around the
cursor.

Part 3 (analyser, prefixed strings).  The same oracle for ALL sequences of up to 3 (thorough: 4 on a
reduced set) symbols out of {'', f, F, rf, fr, b, r} x {', ", ''', \"\"\"} (the bare quotes double
as closers: terminated and unterminated literals of every kind) plus a few neighbours, x every cursor.
Every parse runs under a CPU-time fuse (ITIMER_VIRTUAL, independent of machine load): "never fails"
includes "returns".

Does NOT require (never flagged):
* that a completion is offered at all (an empty completion list inserts nothing);
* any particular quoting style, raw vs. non-raw, trailing space, or whether ``dir/`` gets a slash;
* anything for typed text that the real CompletionContextParser does not analyse as "cursor at the
  end of the second word of the command ``rec``" or whose value - after the path completer's own
  unquoting (check_for_partial_string / _path_from_partial_string applied to the whole word) - is
  not a prefix of the name (a lone ``#`` starts a comment, ``a'`` is the word ``a`` glued to an opened
  string of which only the string part is completed, ...: those are different situations than "the
  user typed a prefix of this name"); the quote style used in keys is the one the analyser reports;
* part 2: line continuations (backslash-newline) may be elided from prefix / suffix - this is the
  documented, tested behaviour; the comparison is made modulo elision, trying every reading;
* part 2: which kind of context (command / python / none) is returned;
* part 2: that prefix + suffix span the whole word is only judged where "word" is unambiguous (no IO
  redirect characters, no comment before the cursor, no line continuation in the text).
"""

import collections
import contextlib
import io
import itertools
import json
import os
import re
import shutil
import signal
import sys
import threading
import traceback

from . import common, tables
from .session import load_session

LEVEL = "exploration"

# ------------------------------------------------------------------------------- part 1: the space

ALPHA1 = [
    "a", " ", "'", '"', "$", "\\", "\n", "\t", "*", "?", "[", "]", "{", "}", "(", ")", "&", "|", ";",
    "<", ">", "!", "#", "~", "-", "=", ",", "%", "@", "`", "\u00e9",
]
KEYWORD_NAMES = ["and", "or", "not", "in", "is", "if"]
STYLES = ["", "'", '"', "r'", 'r"', "'''", "p'", "pr'", "rp'"]  # rp' = the r-before-p spelling (normalised to pr by the completer)

CHAR_NAMES = {
    "a": "a", "b": "b", "f": "f", "i": "i", " ": "sp", "'": "sq", '"': "dq", "$": "dollar", "\\": "bslash", "\n": "nl", "\t": "tab",
    "*": "star", "?": "qmark", "[": "lbrack", "]": "rbrack", "{": "lbrace", "}": "rbrace", "(": "lparen",
    ")": "rparen", "&": "amp", "|": "pipe", ";": "semi", "<": "lt", ">": "gt", "!": "bang", "#": "hash",
    "~": "tilde", "-": "dash", "=": "eq", ",": "comma", "%": "pct", "@": "at", "`": "btick",
    "\u00e9": "eacute",
}
STYLE_NAMES = {"": "bare", "'": "sq", '"': "dq", "r'": "r-sq", 'r"': "r-dq", "'''": "tsq", '"""': "tdq",
               "p'": "p-sq", "pr'": "pr-sq", "rp'": "rp-sq", 'rp"': "rp-dq", 'p"': "p-dq", 'pr"': "pr-dq", "r'''": "r-tsq", "p'''": "p-tsq", "pr'''": "pr-tsq"}


def shape(name):
    if name in KEYWORD_NAMES:
        return "kw-" + name
    return ".".join(CHAR_NAMES.get(c, "u%04x" % ord(c)) for c in name)


def all_names(maxlen):
    out = []
    for n in range(1, maxlen + 1):
        for tup in itertools.product(ALPHA1, repeat=n):
            out.append("".join(tup))
    # keyword names, and plain names of the same lengths as controls (is it the keyword or the length?)
    controls = sorted({"a" * len(k) for k in KEYWORD_NAMES} - set(out))
    return out + controls + [k for k in KEYWORD_NAMES]


def _closer(style):
    return style.lstrip("prRP") if style else ""


def spellings(style, p):
    """How a user can type the name prefix `p` after the opening quote `style`: literally, and (in
    non-raw strings) with backslash escapes.  Admission (below) decides which ones mean `p`."""
    out = [("literal", p)]
    if style and "r" not in style:
        q = style[-1]
        esc = p.replace("\\", "\\\\").replace(q, "\\" + q).replace("\n", "\\n").replace("\t", "\\t")
        if esc != p:
            out.append(("escaped", esc))
    return out


# ------------------------------------------------------------------------------- part 1: the worker

_W = None  # per-process worker state


class _Timeout(Exception):
    pass


def _alarm(signum, frame):
    raise _Timeout()


class _Worker:
    def __init__(self):
        import warnings

        warnings.simplefilter("ignore")  # SyntaxWarning from literal_eval of typed text like '\\@'
        self._admit_cache = {}
        # tables.ensure_tables() was called by the parent (run/replay): forked workers inherit the pinned tables
        root = common.scratch_dir("c18")
        self.home = os.path.join(root, "home")
        self.cwd = os.path.join(root, "cwd")
        self.bin = os.path.join(root, "bin")
        for d in (self.home, self.cwd, self.bin):
            os.makedirs(d)
        os.chdir(self.cwd)
        os.environ["HOME"] = self.home
        self.xsh = load_session(
            data_dir=self.home,
            path=[self.bin],
            env={
                "THREAD_SUBPROCS": False,
                "XONSH_SUBPROC_RAISE_ERROR": False,
                "CDPATH": [],
                "GLOB_SORTED": True,
                "COMPLETIONS_CONFIRM": False,
                "XONSH_COMPLETER_TRACE": False,
                "PWD": self.cwd,
            },
        )
        from xonsh.completer import Completer
        from xonsh.completers.path import complete_path

        # only the path completer: what the shell does, minus every other source of candidates
        self.xsh._completers = collections.OrderedDict([("path", complete_path)])
        self.completer = Completer()
        self.rec = []

        def rec(args, stdin=None):
            self.rec.append(list(args))
            return 0

        self._rec_alias = rec
        self.xsh.aliases["rec"] = rec
        self.sink = io.StringIO()
        signal.signal(signal.SIGALRM, _alarm)
        # The candidates travel through path._complete_path_raw in a `set`, so the order in which
        # _quote_paths visits them depends on the hash seed.  For directories with several entries
        # the real _quote_paths is therefore handed the same candidates as a LIST in an order chosen
        # by the harness (every permutation is run); with self.order None it is called untouched.
        import xonsh.completers.path as xcp

        self.order = None
        real_quote_paths = xcp._quote_paths

        def ordered_quote_paths(paths, *a, **kw):
            if self.order is not None:
                rank = self.order
                paths = sorted(paths, key=lambda s_: (rank.get(s_, len(rank)), s_))
            return real_quote_paths(paths, *a, **kw)

        xcp._quote_paths = ordered_quote_paths

    # -- the situation the property talks about -------------------------------------------------
    def admit(self, line, cursor, closer):
        """How the REAL code reads the typed text, or None if this is not the situation the property
        talks about.  Admitted: the real analyser says the cursor is at the end of the second word of
        `rec ...` (nothing after it but, optionally, the closing quote `closer`), the whole typed word
        is that argument's prefix, and the path completer's own partial-string detection
        (check_for_partial_string / _path_from_partial_string) reads the WHOLE word - not a string glued
        to a bare word such as `a'` - as the value `unq`.  Returns (opening quote as analysed, unq); the
        caller admits the case when `unq` is a prefix of the file name.  A pure function of its
        arguments (independent of the directory), hence cached."""
        k = (line, cursor, closer)
        if k not in self._admit_cache:
            self._admit_cache[k] = self._admit(line, cursor, closer)
        return self._admit_cache[k]

    def _admit(self, line, cursor, closer):
        from xonsh.completers.path import _path_from_partial_string
        from xonsh.parsers.completion_context import CommandArg
        from xonsh.tools import check_for_partial_string

        ctx = self.completer.parse(line, cursor)
        if ctx is None or ctx.command is None:
            return None
        cmd = ctx.command
        if cmd.arg_index != 1 or cmd.args != (CommandArg("rec"),):
            return None
        if cmd.subcmd_opening or cmd.suffix or cmd.is_after_closing_quote:
            return None
        if cmd.closing_quote != closer:
            return None
        if cmd.opening_quote not in STYLES:
            return None  # e.g. r' followed by two typed quotes is read as a raw triple quote: outside the declared style set
        raw = cmd.raw_prefix
        if line[:cursor] != "rec " + raw or line[cursor:] != closer:
            return None
        if check_for_partial_string(raw)[0] not in (0, None):
            return None  # a string that starts in the middle of the word: `a'...` completes the string part only
        got = _path_from_partial_string(raw + closer, len(raw))
        unq = got[1] if got is not None else raw
        return (cmd.opening_quote, unq)

    def admit_after(self, line, cursor, closer):
        """Same as admit() for a cursor placed right AFTER an already closed quote (`rec 'my'<Tab>`): the
        analyser must say is_after_closing_quote, the whole word `opening + value + closing` is the
        argument, and the completer's unquoting reads that closed literal as `unq`."""
        k = (line, cursor, closer, "after")
        if k not in self._admit_cache:
            self._admit_cache[k] = self._admit_after(line, cursor, closer)
        return self._admit_cache[k]

    def _admit_after(self, line, cursor, closer):
        from xonsh.completers.path import _path_from_partial_string
        from xonsh.parsers.completion_context import CommandArg
        from xonsh.tools import check_for_partial_string

        ctx = self.completer.parse(line, cursor)
        if ctx is None or ctx.command is None:
            return None
        cmd = ctx.command
        if cmd.arg_index != 1 or cmd.args != (CommandArg("rec"),):
            return None
        if cmd.subcmd_opening or cmd.suffix or not cmd.is_after_closing_quote:
            return None
        if cmd.closing_quote != closer or cmd.opening_quote not in STYLES or not cmd.opening_quote:
            return None
        raw = cmd.raw_prefix
        if line[:cursor] != "rec " + raw or line[cursor:] != "":
            return None
        if check_for_partial_string(raw)[0] != 0:
            return None
        got = _path_from_partial_string(raw, len(raw))
        if got is None:
            return None
        return (cmd.opening_quote, got[1])

    def completions(self, line, cursor):
        """Exactly the call PromptToolkitCompleter.get_completions makes (expand_alias leaves a
        callable alias alone); returns [(text, prefix_len)]."""
        begidx = line[:cursor].rfind(" ") + 1
        prefix = line[begidx:cursor]
        with contextlib.redirect_stdout(self.sink), contextlib.redirect_stderr(self.sink):
            comps, plen = self.completer.complete(
                prefix, line, begidx, cursor, {}, multiline_text=line, cursor_index=cursor
            )
        out = []
        for c in comps:
            pl = getattr(c, "prefix_len", None)
            out.append((str(c), plen if pl is None else pl))
        return out

    @staticmethod
    def splice(line, cursor, text, prefix_len):
        """prompt_toolkit Completion(text, start_position=-prefix_len); readline's
        _render_completions does the same on the word."""
        return line[: cursor - prefix_len] + text + line[cursor:]

    def execute(self, src, name):
        """Run the line for real; returns the observation: list of argv lists, or 'exc:<Type>'.
        `name`: the directory entry (or a tuple of entries) that must survive."""
        self.rec.clear()
        self.xsh.ctx.clear()
        self.sink.seek(0)
        self.sink.truncate()
        obs = None
        signal.setitimer(signal.ITIMER_REAL, 10.0)
        try:
            with contextlib.redirect_stdout(self.sink), contextlib.redirect_stderr(self.sink):
                self.xsh.execer.exec(src, glbs=self.xsh.ctx, locs=None)
        except _Timeout:
            obs = "exc:Timeout"
        except SystemExit:
            obs = "exc:SystemExit"
        except BaseException as e:  # noqa: BLE001 - whatever the line does is the observation
            obs = "exc:" + type(e).__name__
        finally:
            signal.setitimer(signal.ITIMER_REAL, 0)
        if threading.active_count() > 1:
            for t in threading.enumerate():
                if t is not threading.current_thread():
                    t.join(2.0)
        if obs is None:
            obs = [list(a) for a in self.rec]
        self._repair(name)
        return obs

    def _repair(self, name):
        """A mis-read line may have side effects (redirect files, cd, rebinding); undo them."""
        if os.getcwd() != self.cwd:
            os.chdir(self.cwd)
        env = self.xsh.env
        if env.get("PWD") != self.cwd:
            env["PWD"] = self.cwd
        if self.xsh.aliases.get("rec") is None or self.xsh.aliases._raw.get("rec") is not self._rec_alias:
            self.xsh.aliases["rec"] = self._rec_alias
        try:
            entries = os.listdir(self.cwd)
        except OSError:
            entries = []
        keep = (name,) if isinstance(name, str) else tuple(name)
        if sorted(entries) != sorted(keep):
            for e in entries:
                if e not in keep:
                    p = os.path.join(self.cwd, e)
                    if os.path.isdir(p) and not os.path.islink(p):
                        shutil.rmtree(p, ignore_errors=True)
                    else:
                        os.unlink(p)

    def make(self, name, kind):
        p = os.path.join(self.cwd, name)
        if kind == "file":
            with open(p, "w"):
                pass
        else:
            os.mkdir(p)

    def remove(self, name, kind):
        p = os.path.join(self.cwd, name)
        if kind == "file":
            os.unlink(p)
        else:
            os.rmdir(p)
        left = os.listdir(self.cwd)
        if left:
            raise common.ToolError(f"scratch cwd not empty after {name!r}: {left!r}")


def _init_worker():
    global _W
    _W = _Worker()


_QUOTE_RE = re.compile(r"""^(pr|rp|p|r|R)?('''|\"\"\"|'|\")""")


def emitted_style(text):
    m = _QUOTE_RE.match(text)
    return (m.group(1) or "").lower().replace("rp", "pr") + m.group(2) if m else ""


def signature(obs, name, kind):
    """Failure signature of an observation, or None when it satisfies the statement."""
    if isinstance(obs, str):
        return obs.replace("exc:", "raises-")
    if len(obs) == 0:
        return "rec-not-run"
    if len(obs) > 1:
        return "rec-run-%d-times" % len(obs)
    argv = obs[0]
    ok = [[name]] if kind == "file" else [[name], [name + "/"]]
    if argv in ok:
        return None
    if len(argv) != 1:
        return "argc-%d" % len(argv)
    return "value"


_CLOSED_VARIANTS = (False, True)
AFTER = "after"  # third value of `closed`: the quote is closed and the cursor sits right after it
AFTER_MAXLEN = 2  # names up to this length are also tried with the cursor after the closed quote


def cases_for(name):
    """Every (style, closed, prefix, spelling-kind, line, cursor) the harness tries for one name;
    simplest first.  closed: False = nothing after the cursor, True = the closing quote follows the
    cursor, AFTER = the closing quote precedes the cursor."""
    out = []
    for style in STYLES:
        closer = _closer(style)
        variants = (False,) if not style else _CLOSED_VARIANTS + ((AFTER,) if len(name) <= AFTER_MAXLEN else ())
        for closed in variants:
            for k in range(len(name)):
                p = name[:k]
                for how, sp in spellings(style, p):
                    line = "rec " + style + sp
                    cursor = len(line)
                    if closed is True:
                        line += closer
                    elif closed == AFTER:
                        line += closer
                        cursor = len(line)
                    out.append((style, closed, p, how, line, cursor))
    return out


def check_name(name):
    w = _W
    res = {"name": name, "generated": 0, "admitted": 0, "no_completion": 0, "completions": 0, "execs": 0, "failing": 0, "fails": []}
    first = {}  # one detailed record per (kind, typed style, closed, failure class); the rest is counted
    for kind in ("file", "dir"):
        w.make(name, kind)
        try:
            seen_lines = set()
            exec_cache = {}
            for gstyle, closed, p, how, line, cursor in cases_for(name):
                res["generated"] += 1
                if (line, cursor) in seen_lines:
                    continue
                seen_lines.add((line, cursor))
                if closed == AFTER:
                    adm = w.admit_after(line, cursor, _closer(gstyle))
                else:
                    adm = w.admit(line, cursor, _closer(gstyle) if closed else "")
                if adm is None or not name.startswith(adm[1]):
                    continue
                style, p = adm  # as the real analyser / completer read the typed text
                res["admitted"] += 1
                comps = w.completions(line, cursor)
                if not comps:
                    res["no_completion"] += 1
                    continue
                for text, plen in comps:
                    res["completions"] += 1
                    new = w.splice(line, cursor, text, plen)
                    if new not in exec_cache:
                        exec_cache[new] = w.execute(new, name)
                        res["execs"] += 1
                    obs = exec_cache[new]
                    sig = signature(obs, name, kind)
                    if sig is None and style and "example" not in res:
                        res["example"] = {"part": "roundtrip", "name": name, "kind": kind, "typed_line": line, "cursor": cursor,
                                          "completion": text, "prefix_len": plen, "spliced_line": new, "argv_calls": obs, "verdict": "ok"}
                    if sig is not None:
                        res["failing"] += 1
                        fk = (kind, style, closed, sig_class(sig))
                        if fk in first:
                            first[fk]["same_class_cases"] += 1
                            continue
                        first[fk] = {
                            "name": name, "kind": kind, "style": style, "closed": closed, "typed_prefix": p,
                            "spelling": how, "line": line, "cursor": cursor, "completion": text,
                            "prefix_len": plen, "spliced": new, "observed": obs, "sig": sig,
                            "emitted": emitted_style(text), "same_class_cases": 1,
                        }
                        res["fails"].append(first[fk])
        finally:
            w.remove(name, kind)
    return res


# ------------------------------------------------------------------------------- part 1b: several entries

# One representative per quoting class, all starting with the same letter so that one typed prefix
# matches them all: plain, `$`, backslash, each quote kind, control character, blank (+ more in thorough).
MULTI_POOL_QUICK = ["ab", "a$b", "a\\b", "a'b", 'a"b', "a\nb", "a b"]
MULTI_POOL_THOROUGH = MULTI_POOL_QUICK + ["a\tb", "a*b", "a;b", "a{b", "a#b", "a~b", "aé"]
MULTI_TYPED = ["", "a"]


def multi_sets(pool, sizes=(2, 3)):
    out = []
    for k in sizes:
        out.extend(itertools.combinations(pool, k))
    return out


def multi_cases():
    """(generated style, closed, line, cursor) for directories with several entries."""
    out = []
    for style in STYLES:
        closer = _closer(style)
        for closed in _CLOSED_VARIANTS if style else (False,):
            for p in MULTI_TYPED:
                line = "rec " + style + p
                cursor = len(line)
                out.append((style, closed, line + (closer if closed else ""), cursor))
    return out


def check_multi(names):
    """Directory with SEVERAL entries: every admitted typed text x EVERY visiting order of the
    candidates.  Each returned completion must read back as exactly one argument naming one of the
    entries.  A failing completion whose text is exactly what the completer offers for one of the
    entries when it is alone in the directory is the single-entry failure (reported by part 1) and is
    not counted again; anything else is specific to the company the entry keeps / the visiting order."""
    w = _W
    names = tuple(names)
    res = {"names": list(names), "admitted": 0, "completions": 0, "execs": 0, "same_as_single": 0, "failing": 0, "fails": []}
    cases = []
    for gstyle, closed, line, cursor in multi_cases():
        adm = w.admit(line, cursor, _closer(gstyle) if closed else "")
        if adm is None or not all(n.startswith(adm[1]) for n in names):
            continue
        cases.append((adm[0], closed, line, cursor))
    # what the completer offers for each entry alone (to recognise single-entry failures)
    single = collections.defaultdict(set)
    for n in names:
        w.make(n, "file")
        try:
            for style, closed, line, cursor in cases:
                for text, plen in w.completions(line, cursor):
                    single[(line, cursor)].add((text, plen))
        finally:
            w.remove(n, "file")
    for n in names:
        w.make(n, "file")
    try:
        exec_cache = {}
        allowed = [[n] for n in names]
        for style, closed, line, cursor in cases:
            res["admitted"] += 1
            per_perm = {}
            for perm in itertools.permutations(names):
                w.order = {n: i for i, n in enumerate(perm)}
                try:
                    comps = w.completions(line, cursor)
                finally:
                    w.order = None
                bad = []
                for text, plen in comps:
                    res["completions"] += 1
                    new = w.splice(line, cursor, text, plen)
                    if new not in exec_cache:
                        exec_cache[new] = w.execute(new, names)
                        res["execs"] += 1
                    obs = exec_cache[new]
                    if isinstance(obs, list) and len(obs) == 1 and obs[0] in allowed:
                        continue
                    if (text, plen) in single[(line, cursor)]:
                        res["same_as_single"] += 1
                        continue
                    bad.append((text, plen, new, obs))
                per_perm[perm] = bad
            failing_perms = [p for p, b in per_perm.items() if b]
            if not failing_perms:
                continue
            res["failing"] += 1
            perm = failing_perms[0]
            text, plen, new, obs = per_perm[perm][0]
            res["fails"].append({
                "names": list(names), "style": style, "closed": closed, "line": line, "cursor": cursor, "order": list(perm),
                "completion": text, "prefix_len": plen, "spliced": new, "observed": obs,
                "sig": signature(obs, names[0], "file") or "value",
                "orders_failing": len(failing_perms), "orders_total": len(per_perm),
            })
    finally:
        w.order = None
        for n in names:
            p = os.path.join(w.cwd, n)
            if os.path.exists(p):
                os.unlink(p)
        left = os.listdir(w.cwd)
        if left:
            raise common.ToolError(f"scratch cwd not empty after {names!r}: {left!r}")
    return res


def classify_multi(fails):
    """key = roundtrip-multi:<typed style>[+closing-quote-after-cursor]:<shapes of the smallest failing set of
    entries>:<class>:<order-dependent|any-order>.  A failing triple is attributed to a failing pair it contains
    (same style / closing quote / class) when there is one."""
    table = {}
    for f in fails:
        table.setdefault((frozenset(f["names"]), f["style"], bool(f["closed"]), sig_class(f["sig"])), f)
    out = []
    for f in fails:
        ident = (f["style"], bool(f["closed"]), sig_class(f["sig"]))
        names = tuple(f["names"])
        best = names
        if len(names) > 2:
            for sub in itertools.combinations(names, 2):
                if (frozenset(sub),) + ident in table:
                    best = sub
                    break
        g = table[(frozenset(best),) + ident]
        dep = "order-dependent" if g["orders_failing"] < g["orders_total"] else "any-order"
        style = STYLE_NAMES.get(f["style"], f["style"]) + ("+closing-quote-after-cursor" if f["closed"] else "")
        out.append(("roundtrip-multi:%s:%s:%s:%s" % (style, "|".join(shape(n) for n in best), ident[2], dep), best, f))
    return out


# ------------------------------------------------------------------------------- part 1d: hostile PARENT component

# The completed path is not always "typed text + new last component": the completer itself expands
# the leading part - `$D/f` (the variable is expanded while globbing), subsequence matching `ab/f` ->
# `a b/fi` (on by default), `~/f` - so a PARENT directory can bring in characters the user never typed.
DIR_ROUTES = ("envvar", "subsequence", "home")
DIR_FILES_QUICK = ["fi", "f i", "f'i", "f$i"]
DIR_FILES_THOROUGH = DIR_FILES_QUICK
_PLAIN = set("abfi")


def dir_names(thorough):
    """Directory names with one (thorough: also two) hostile characters before / between / after plain letters."""
    hostile = [c for c in ALPHA1 if c != "a"]
    out = ["ab"]  # control: a failure that also occurs under a plain parent is not the parent's doing
    for h in hostile:
        out += ["a" + h + "b", h + "ab", "ab" + h]
    if thorough:
        for h1 in hostile:
            for h2 in hostile:
                out.append("a" + h1 + h2 + "b")
    return out


def _dir_reductions(d):
    """Simpler directory names a failure may be attributed to (same route / file / class)."""
    hs = [c for c in d if c not in _PLAIN]
    if len(hs) == 2:
        for h in hs:
            yield "a" + h + "b"
    elif len(hs) == 1 and d != "a" + hs[0] + "b":
        yield "a" + hs[0] + "b"


def check_dir(item):
    """One hostile directory `d` holding one file `f`, reached by every route on which the completer
    expands the parent itself; the typed word is a plain unquoted word.  Oracle: exactly one argument
    that denotes that file (xonsh has expanded variables / `~` by then: compared as absolute paths)."""
    w = _W
    d, f = item
    res = {"dir": d, "file": f, "admitted": 0, "no_completion": 0, "completions": 0, "execs": 0, "failing": 0, "fails": []}
    dpath = os.path.join(w.cwd, d)
    target = os.path.join(dpath, f)
    os.mkdir(dpath)
    with open(target, "w"):
        pass
    env = w.xsh.env
    try:
        for route in DIR_ROUTES:
            if route == "envvar":
                typed = "$D/" + f[0]
                env["D"] = dpath
            elif route == "subsequence":
                letters = "".join(c for c in d if c in _PLAIN)
                if not letters or letters == d:
                    continue
                typed = letters + "/" + f[0]
            else:
                typed = "~/" + f[0]
                env["HOME"] = dpath
                os.environ["HOME"] = dpath
            try:
                line = "rec " + typed
                cursor = len(line)
                ctx = w.completer.parse(line, cursor)
                cmd = ctx.command if ctx is not None else None
                if (cmd is None or cmd.arg_index != 1 or len(cmd.args) != 1 or cmd.args[0].value != "rec"
                        or cmd.prefix != typed or cmd.opening_quote or cmd.suffix or cmd.subcmd_opening):
                    continue
                res["admitted"] += 1
                comps = w.completions(line, cursor)
                if not comps:
                    res["no_completion"] += 1
                    continue
                for text, plen in comps:
                    res["completions"] += 1
                    new = w.splice(line, cursor, text, plen)
                    obs = w.execute(new, d)
                    res["execs"] += 1
                    ok = (isinstance(obs, list) and len(obs) == 1 and len(obs[0]) == 1
                          and os.path.normpath(os.path.join(w.cwd, obs[0][0])) == target)
                    if ok:
                        if "example" not in res and route != "home":
                            res["example"] = {"part": "roundtrip-dir", "route": route, "dir": d, "file": f, "typed_line": line, "completion": text,
                                              "prefix_len": plen, "spliced_line": new, "argv_calls": _scrub(obs, w), "verdict": "ok"}
                        continue
                    res["failing"] += 1
                    sig = signature(obs, "\0", "file") or "value"
                    res["fails"].append({"dir": d, "file": f, "route": route, "line": line, "cursor": cursor, "completion": _scrub(text, w),
                                         "prefix_len": plen, "spliced": _scrub(new, w), "observed": _scrub(obs, w), "sig": sig})
            finally:
                if route == "home":
                    env["HOME"] = w.home
                    os.environ["HOME"] = w.home
                if route == "envvar" and "D" in env:
                    del env["D"]
    finally:
        shutil.rmtree(dpath, ignore_errors=True)
        left = os.listdir(w.cwd)
        if left:
            raise common.ToolError(f"scratch cwd not empty after {item!r}: {left!r}")
    return res


def _scrub(x, w):
    """Scratch paths out of artefacts (they carry pids)."""
    if isinstance(x, str):
        return x.replace(w.cwd, "<CWD>")
    if isinstance(x, list):
        return [_scrub(y, w) for y in x]
    return x


def classify_dir(fails):
    """key = roundtrip-dir:<route>:<shape of the simplest failing directory name>/<shape of file>:<class>"""
    table = {(f["route"], f["dir"], f["file"], sig_class(f["sig"])) for f in fails}
    out = []
    for f in fails:
        route, d, fl, sc = f["route"], f["dir"], f["file"], sig_class(f["sig"])
        if fl != "fi" and (route, d, "fi", sc) in table:
            fl = "fi"
        if (route, "ab", fl, sc) in table:
            d = "ab"
        for cand in _dir_reductions(d):
            if (route, cand, fl, sc) in table:
                d = cand
                break
        out.append(("roundtrip-dir:%s:%s/%s:%s" % (route, shape(d), shape(fl), sc), (d, fl), f))
    return out


# ------------------------------------------------------------------------------- part 1e: closed quote + unquoted tail

# What the line looks like after accepting a quoted DIRECTORY completion and typing on: the quote is
# closed somewhere in the directory part and the rest is typed bare: <q>dir/<q>f, <q>dir<q>/f, <q>di<q>r/f.
TAIL_DIRS = ["ab", "a b"]
TAIL_FILES = ["fi", "f i"]
TAIL_FORMS = ("quote-after-slash", "quote-before-slash", "quote-inside-name")


def tail_typed(style, form, d, f):
    closer = _closer(style)
    if form == "quote-after-slash":
        return style + d + "/" + closer + f[0]
    if form == "quote-before-slash":
        return style + d + closer + "/" + f[0]
    return style + d[:-1] + closer + d[-1] + "/" + f[0]


def check_tail(item):
    """Directory `d` holding file `f`; the typed word is a closed quoted prefix of the path followed by
    an unquoted tail (8 quote styles x 3 places for the closing quote).  Full pipeline, splice with
    the returned prefix_len, execute; oracle: exactly one argument that denotes d/f."""
    w = _W
    d, f = item
    res = {"dir": d, "file": f, "admitted": 0, "no_completion": 0, "completions": 0, "execs": 0, "failing": 0, "fails": []}
    dpath = os.path.join(w.cwd, d)
    target = os.path.join(dpath, f)
    os.mkdir(dpath)
    with open(target, "w"):
        pass
    try:
        for style in STYLES:
            if not style:
                continue
            for form in TAIL_FORMS:
                line = "rec " + tail_typed(style, form, d, f)
                cursor = len(line)
                ctx = w.completer.parse(line, cursor)
                cmd = ctx.command if ctx is not None else None
                if (cmd is None or cmd.arg_index != 1 or len(cmd.args) != 1 or cmd.args[0].value != "rec"
                        or cmd.suffix or cmd.subcmd_opening or line[:cursor] != "rec " + cmd.raw_prefix):
                    continue
                res["admitted"] += 1
                comps = w.completions(line, cursor)
                if not comps:
                    res["no_completion"] += 1
                    continue
                for text, plen in comps:
                    res["completions"] += 1
                    new = w.splice(line, cursor, text, plen)
                    obs = w.execute(new, d)
                    res["execs"] += 1
                    ok = (isinstance(obs, list) and len(obs) == 1 and len(obs[0]) == 1
                          and os.path.normpath(os.path.join(w.cwd, obs[0][0])) == target)
                    if ok:
                        res.setdefault("example", {"part": "roundtrip-tail", "dir": d, "file": f, "typed_line": line, "completion": text,
                                                   "prefix_len": plen, "spliced_line": new, "argv_calls": _scrub(obs, w), "verdict": "ok"})
                        continue
                    res["failing"] += 1
                    res["fails"].append({"dir": d, "file": f, "style": style, "form": form, "line": line, "cursor": cursor,
                                         "completion": _scrub(text, w), "prefix_len": plen, "spliced": _scrub(new, w),
                                         "observed": _scrub(obs, w), "sig": signature(obs, "\0", "file") or "value"})
    finally:
        shutil.rmtree(dpath, ignore_errors=True)
        left = os.listdir(w.cwd)
        if left:
            raise common.ToolError(f"scratch cwd not empty after {item!r}: {left!r}")
    return res


def classify_tail(fails):
    """key = roundtrip-tail:<quote style>:<where the quote closes>:<shape dir>/<shape file>:<class>, attributed to the
    plainest layout (plain file, then plain directory) that fails the same way."""
    table = {(f["style"], f["form"], f["dir"], f["file"], sig_class(f["sig"])) for f in fails}
    out = []
    for f in fails:
        st, form, d, fl, sc = f["style"], f["form"], f["dir"], f["file"], sig_class(f["sig"])
        if (st, form, d, "fi", sc) in table:
            fl = "fi"
        if (st, form, "ab", fl, sc) in table:
            d = "ab"
        out.append(("roundtrip-tail:%s:%s:%s/%s:%s" % (STYLE_NAMES.get(st, st), form, shape(d), shape(fl), sc), (d, fl), f))
    return out


# ------------------------------------------------------------------------------- part 1: keys


def _reductions(name):
    if name in KEYWORD_NAMES:
        yield "a" * len(name)  # is it the keyword, or would any plain name of that length fail too?
        return
    for i in range(len(name)):
        if len(name) > 1:
            yield name[:i] + name[i + 1 :]
    for i in range(len(name)):
        if name[i] != "a":
            yield name[:i] + "a" + name[i + 1 :]


def sig_class(sig):
    if sig == "value":
        return "wrong-value"
    if sig.startswith("argc-") or sig.startswith("rec-run-"):
        return "split"
    return "not-run"  # the completed line raises / never calls the command


def classify_roundtrip(fails):
    """Attribute every failing case to the MINIMAL failing name with the same typed quote style and
    the same failure class (every smaller name was enumerated too, so minimisation is a lookup in the
    table of failures: delete one character / replace one character by a plain letter while a failure
    of the same class with the same emitted quoting remains).  A failure seen with a closing quote
    after the cursor is labelled so only if the same name passes without one.
    key = roundtrip:<typed quote style>[+closing-quote-after-cursor]:<shape of minimal name>:<class>:<kinds>"""
    tables_ = {False: collections.defaultdict(set), True: collections.defaultdict(set), AFTER: collections.defaultdict(set)}
    for f in fails:
        k = (f["name"], f["style"], sig_class(f["sig"]))
        tables_[f["closed"] or False][k].add(f["kind"])
    memo = {}

    def minimal(name, ident, closed):
        k = (name, ident, closed)
        if k not in memo:
            memo[k] = name
            for cand in _reductions(name):
                if (cand,) + ident in tables_[closed]:
                    memo[k] = minimal(cand, ident, closed)
                    break
        return memo[k]

    labels = {False: "", True: "+closing-quote-after-cursor", AFTER: "+cursor-after-closed-quote"}
    out = []
    for f in fails:
        ident = (f["style"], sig_class(f["sig"]))
        closed = f["closed"] or False
        if closed and (f["name"],) + ident in tables_[False]:
            closed = False  # fails without any closing quote as well: not specific to it
        m = minimal(f["name"], ident, closed)
        kinds = "+".join(sorted(tables_[closed][(m,) + ident], key=("file", "dir").index))
        style = STYLE_NAMES.get(f["style"], f["style"]) + labels[closed]
        out.append(("roundtrip:%s:%s:%s:%s" % (style, shape(m), ident[1], kinds), m, f))
    return out


# ------------------------------------------------------------------------------- part 2

ALPHA2 = ["a", " ", "'", '"', "\\", "$", "(", ")", "[", "]", "{", "}", "|", "&", ";", "\n", "@", "!", ">", "#"]
ALPHA2_REDUCED = ["a", " ", "'", "\\", "\n", "$", "(", ")"]
# part 3: string-prefix letters in front of every quote kind (the bare quotes double as closers, so
# terminated and unterminated literals of every kind occur), plus a few neighbours
_PREFIXES = ["", "f", "F", "rf", "fr", "b", "r"]
_QUOTES = ["'", '"', "'''", '"""']
ALPHA3 = [p_ + q_ for p_ in _PREFIXES for q_ in _QUOTES] + ["a", " ", "\n", "&&", ">", "{", "}", "\\"]
ALPHA3_REDUCED = [p_ + q_ for p_ in ["", "f", "rf", "b"] for q_ in ["'", "'''"]] + ["a", " ", "\n", "&&", ">", "{", "}", "\\"]
_P2 = None
_P2_STEM = 2  # work items are (length, alphabet id, first _P2_STEM symbols)
_ALPHAS = {"full": ALPHA2, "reduced": ALPHA2_REDUCED, "strings": ALPHA3, "strings-reduced": ALPHA3_REDUCED}
LC = "\\\n"

# An unterminated single-quoted f-string followed by a newline makes the tolerant tokenizer spin
# forever (see _p2_class).  Texts of that shape get a short CPU-time fuse, everything else a long one.
HANG_RE = re.compile(r"""(?:[fF][rR]?|[rR][fF])(['"])(?!\1\1)[^\n]*\n""")
_FUSE_SHORT = 0.03  # seconds of this process's CPU time (ITIMER_VIRTUAL: independent of machine load)
_FUSE_LONG = 1.0
_LOOP_OWNERS = ("_tokenize", "get_tokens", "token", "parseopt_notrack", "parse")
_HANG_WHERE = "?"


class _Hang(BaseException):
    pass


def _vt_alarm(signum, frame):
    global _HANG_WHERE
    _HANG_WHERE = "?"
    f = frame
    while f is not None:
        if f.f_code.co_name in _LOOP_OWNERS and "xonsh" in f.f_code.co_filename:
            _HANG_WHERE = f.f_code.co_name
            break
        f = f.f_back
    raise _Hang()


def _init_p2():
    global _P2
    import gc
    import warnings

    from xonsh.parsers.completion_context import CompletionContextParser

    warnings.simplefilter("ignore")
    _P2 = CompletionContextParser()
    signal.signal(signal.SIGVTALRM, _vt_alarm)
    gc.freeze()  # no long collection pauses under the CPU-time fuse


def _readings(before, after):
    """Every way to read the text around the cursor modulo elided line continuations."""
    bs = {before, before.replace(LC, "")}
    as_ = {after, after.replace(LC, "")}
    if before.endswith("\\") and after.startswith("\n"):
        # the cursor splits a continuation: the continuation as a whole is elided
        bs.add(before[:-1].replace(LC, ""))
        as_.add(after[1:].replace(LC, ""))
    return bs, as_


def analyse(text, cursor):
    """Run the real parser on one (text, cursor); returns None if the statement holds, else
    (clause, detail)."""
    fuse = _FUSE_SHORT if HANG_RE.search(text) else _FUSE_LONG
    signal.setitimer(signal.ITIMER_VIRTUAL, fuse)
    try:
        ctx = _P2.parse(text, cursor)
    except _Hang:
        return ("hang", _HANG_WHERE, f"no result within {fuse} s of CPU time (a parse takes about 0.0002 s)")
    except BaseException as e:  # noqa: BLE001
        tb = traceback.extract_tb(e.__traceback__)
        where = tb[-1].name if tb else "?"
        return ("raises", f"{type(e).__name__}@{where}", f"{type(e).__name__}: {e}"[:160])
    finally:
        signal.setitimer(signal.ITIMER_VIRTUAL, 0)
    if ctx is None:
        return None
    before, after = text[:cursor], text[cursor:]
    if ctx.command is None and ctx.python is None:
        return ("empty-context", "", repr(ctx))
    if ctx.command is not None:
        cmd = ctx.command
        bs, as_ = _readings(before, after)
        raw = cmd.raw_prefix
        if not any(b.endswith(raw) for b in bs):
            return ("command-prefix", "", f"raw_prefix={raw!r} is not how the text before the cursor {before!r} ends")
        inside = bool(cmd.opening_quote or cmd.closing_quote) and not cmd.is_after_closing_quote
        tail = cmd.suffix + (cmd.closing_quote if inside else "")
        if not any(a.startswith(tail) for a in as_):
            return ("command-suffix", "", f"suffix={cmd.suffix!r} (+closing quote {cmd.closing_quote!r}) is not how the text after the cursor {after!r} starts")
        # prefix + suffix are the WHOLE word around the cursor: the reproduced word must not stop in
        # the middle of a word.  Only the unambiguous situation is judged: no line continuation, no
        # comment before the cursor, no IO redirect anywhere (`a>`, `2>`, `>` are separate words glued
        # to their neighbours by design), and the neighbouring character can only continue a word.
        if LC not in text and "#" not in before and ">" not in text and "<" not in text:
            e = cursor + len(tail)
            if e < len(text) and text[e] in _WORD_CONT_RIGHT:
                return ("command-suffix-truncated", "", f"suffix={cmd.suffix!r} closing_quote={cmd.closing_quote!r} stops before {text[e:]!r}, in the middle of a word")
            b = cursor - len(raw)
            if b > 0 and text[b - 1] in _WORD_CONT_LEFT:
                return ("command-prefix-truncated", "", f"raw_prefix={raw!r} starts after {text[:b]!r}, in the middle of a word")
    if ctx.python is not None:
        py = ctx.python
        code, ci = py.multiline_code, py.cursor_index
        start = cursor - ci if isinstance(ci, int) else -1
        if not (isinstance(ci, int) and 0 <= ci <= len(code)) or start < 0 or text[start : start + len(code)] != code:
            return ("python-slice", "", f"multiline_code={code!r} cursor_index={ci!r} is not a slice of the text aligned at the cursor")
        if not py.is_sub_expression and code != text:
            return ("python-slice", "", f"top-level multiline_code={code!r} is not the whole text")
        if py.is_sub_expression and not (text[:start].endswith("@(") or text[:start].endswith("@!(")):
            return ("python-slice", "", f"sub-expression code {code!r} does not start right after '@(' / '@!('")
    return None


# characters that can only continue the word they touch (letters, quotes, backslash, `$`, `@`, `!`, braces)
_WORD_CONT_RIGHT = set("a'\"\\$@!{}([")
_WORD_CONT_LEFT = set("a'\"\\$@!{})]")


def _p2_class(text, cursor, bad):
    """Known, precisely delimited classes; anything else gets its own (minimised) key later."""
    clause = bad[0]
    if clause == "hang":
        # tokenize._tokenize (PEP 701 scanning, tolerant mode) never leaves its loop when a
        # single-quoted f-string is still open at the end of a line that ends in a newline
        if bad[1] == "_tokenize" and HANG_RE.search(text):
            return "fstring-unterminated-at-newline"
        return None
    if clause == "raises" and bad[1] == "AttributeError@handle_error_linecont" and "'NoneType' object has no attribute 'end'" in bad[2]:
        # lexer.handle_error_linecont dereferences state["last"] while no token has been recorded yet:
        # a backslash-newline preceded only by things the lexer does not record (nothing, newlines,
        # comments, `&&`, `||`)
        if LC in text:
            return "no-token-before-line-continuation"
    if clause in ("command-prefix", "command-suffix") and cursor >= 1 and text[cursor - 1 : cursor + 1] == LC:
        # process_string_segment only discounts continuations wholly before the cursor, so a cursor
        # between the backslash and the newline is placed two characters too far to the right
        if analyse(text, cursor + 1) is None and analyse(text, cursor - 1) is None:
            return "cursor-inside-line-continuation"
    if clause in ("command-prefix", "command-suffix"):
        # cursor strictly inside a three-character closing quote: handle_command_arg's "inside the
        # closing quote" branch tests `>= len(opening + value + closing)` and is never taken, so the
        # cursor is reported as inside the string, before a complete closing quote.  Repair transform:
        # with the cursor at the start of that closing quote the case passes.
        try:
            c2 = _P2.parse(text, cursor)
        except BaseException:  # noqa: BLE001
            c2 = None
        cq = c2.command.closing_quote if c2 is not None and c2.command is not None else ""
        if len(cq) == 3 and not c2.command.is_after_closing_quote:
            for k in (1, 2):
                if cursor - k >= 0 and text[cursor - k : cursor - k + 3] == cq and analyse(text, cursor - k) is None:
                    return "cursor-inside-triple-closing-quote"
    if clause.startswith("command-") and _FPREFIX_RE.search(text):
        # f-strings reach the analyser as FSTRING_START / MIDDLE / END pieces which it glues back
        # from token values and line/column positions: doubled braces lose a character, pieces of a
        # multi-line literal are misplaced.  Repair transform: the same text with the f removed from the
        # string prefixes (a plain / raw literal) passes.  Sub-class from the minimised text.
        t2, c2 = _drop_f(text, cursor)
        r2 = analyse(t2, c2)
        if r2 is None or r2[0] != clause:
            m, _ = _p2_minimise(text, cursor, clause, bad[1])
            if "{{" in m or "}}" in m:
                feature = "doubled-brace"
            elif "\n" in m:
                feature = "multi-line"
            elif "{" in m or "}" in m:
                feature = "brace"
            else:
                feature = "other"
            return "fstring-pieces:" + feature
        # the same clause fails without the f as well: the f is incidental, classify the plain text
        return _p2_class(t2, c2, r2)
    if clause == "command-prefix" and LC in text[:cursor]:
        # cursor strictly inside a sub-expression opener (`$(`, `![`, `@$(` ...) glued to a word that
        # contains an elided continuation: handle_command_arg falls back to `cursor - span.start`,
        # which ignores the elision.  Repair transform: without the continuations the case passes.
        inside_opener = any(
            text[cursor - k : cursor - k + len(o)] == o for o in _OPENERS for k in range(1, len(o)) if cursor - k >= 0
        )
        if inside_opener:
            n = text[:cursor].count(LC)
            if analyse(text[:cursor].replace(LC, "") + text[cursor:], cursor - len(LC) * n) is None:
                return "cursor-inside-subexpr-opener-after-line-continuation"
    return None


_OPENERS = ("$(", "$[", "${", "!(", "![", "@(", "@!(", "@$(")
_FPREFIX_RE = re.compile(r"""(?<![A-Za-z0-9_])(?:[fF][rR]?|[rR][fF])(?=['"])""")


def _drop_f(text, cursor):
    """The same text with f/F removed from every string prefix; cursor shifted accordingly."""
    out = []
    last = 0
    shift = 0
    for m in _FPREFIX_RE.finditer(text):
        keep = m.group(0).replace("f", "").replace("F", "")
        out.append(text[last : m.start()] + keep)
        removed = len(m.group(0)) - len(keep)
        if m.end() <= cursor:
            shift += removed
        elif m.start() < cursor:
            shift += min(removed, cursor - m.start())
        last = m.end()
    out.append(text[last:])
    return "".join(out), cursor - shift


def check_stem(item):
    length, alpha_id, stem = item
    alpha = _ALPHAS[alpha_id]
    res = {"strings": 0, "parses": 0, "skipped_after_hang": 0, "bad": collections.Counter(), "records": []}
    kept = collections.Counter()
    for tail in itertools.product(alpha, repeat=length - len(stem)):
        text = "".join(stem + tail)
        res["strings"] += 1
        for cursor in range(len(text) + 1):
            res["parses"] += 1
            bad = analyse(text, cursor)
            if bad is None:
                continue
            cls = _p2_class(text, cursor, bad)
            k = (bad[0], bad[1], cls)
            res["bad"][k] += 1
            if kept[k] < (2 if cls else 12):
                kept[k] += 1
                res["records"].append({"text": text, "cursor": cursor, "clause": bad[0], "where": bad[1], "detail": bad[2], "class": cls})
            if bad[0] == "hang":
                # the tokenizer runs over the whole text whatever the cursor: do not burn a fuse per position
                res["skipped_after_hang"] += len(text) - cursor
                break
    res["bad"] = [[list(k), n] for k, n in sorted(res["bad"].items(), key=lambda kv: repr(kv[0]))]
    return res


def _p2_items(maxlen, alpha_id, minlen=0):
    alpha = _ALPHAS[alpha_id]
    items = []
    for n in range(minlen, maxlen + 1):
        for tup in itertools.product(alpha, repeat=min(n, _P2_STEM)):
            items.append((n, alpha_id, tuple(tup)))
    return items


def _p2_minimise(text, cursor, clause, where):
    """Greedy deletion of characters (cursor shifted accordingly) while the same clause fails."""
    changed = True
    while changed:
        changed = False
        for i in range(len(text)):
            t2 = text[:i] + text[i + 1 :]
            c2 = cursor - 1 if i < cursor else cursor
            bad = analyse(t2, c2)
            if bad is not None and bad[0] == clause and bad[1] == where:
                text, cursor, changed = t2, c2, True
                break
    return text, cursor


def p2_key(rec):
    if rec["class"]:
        mid = rec["where"] + ":" if rec["where"] else ""
        return f"analyser:{rec['clause']}:{mid}{rec['class']}"
    t, c = _p2_minimise(rec["text"], rec["cursor"], rec["clause"], rec["where"])
    mid = rec["where"] + ":" if rec["where"] else ""
    return f"analyser:{rec['clause']}:{mid}min={json.dumps(t)}@{c}"


# ------------------------------------------------------------------------------- run / replay


def run(ctx):
    tables.ensure_tables()
    # ---- part 1
    maxlen = ctx.pick(2, 3)
    names = all_names(maxlen)
    ctx.log(f"part 1: {len(names)} names (length <= {maxlen} over {len(ALPHA1)} symbols + {len(KEYWORD_NAMES)} keywords) x file/dir x {len(STYLES)} quote styles")
    res = common.pmap(check_name, names, ctx.jobs, chunk=8, init=_init_worker, seed=ctx.seed)
    tot = collections.Counter()
    fails = []
    for r in res:
        for k in ("generated", "admitted", "no_completion", "completions", "execs", "failing"):
            tot[k] += r[k]
        fails.extend(r["fails"])
    dump = os.environ.get("XV_C18_DUMP")  # debugging aid: all first-of-class failing records as JSON
    if dump:
        with open(dump, "w") as f:
            json.dump(fails, f, indent=0)
    classified = classify_roundtrip(fails)
    per_key = collections.Counter()
    cases_per_key = collections.Counter()
    for key, m, f in classified:
        cases_per_key[key] += f["same_class_cases"]
    for key, m, f in classified:  # names come simplest-first, so the first record of a key is its smallest
        per_key[key] += 1
        if per_key[key] > 3:
            continue
        ctx.violation(
            key=key,
            clause="completed text is read back as exactly one argument equal to the name",
            case={"part": "roundtrip", "name": f["name"], "kind": f["kind"], "line": f["line"], "cursor": f["cursor"],
                  "style": f["style"], "typed_prefix": f["typed_prefix"], "closed": f["closed"], "minimal_name": m},
            observed={"completion": f["completion"], "prefix_len": f["prefix_len"], "spliced_line": f["spliced"], "argv_calls": f["observed"]},
            expected={"argv_calls": [[f["name"]]] if f["kind"] == "file" else "one call with argv == [name] or [name + '/']"},
            note=f"{cases_per_key[key]} failing completions are attributed to this key in this run",
        )
    ctx.log(f"part 1: {dict(tot)}; failing completions {tot['failing']} in {len(per_key)} keys")
    if tot["completions"] * 2 < tot["admitted"]:
        # the statement does not oblige the completer to offer anything, but a run in which it mostly
        # offers nothing has checked nothing: that is a harness/tool problem, not a pass
        raise common.ToolError(f"vacuous run: only {tot['completions']} completions for {tot['admitted']} admitted cases")
    nontrivial_names = sum(1 for r in res if r["completions"] > 0)

    # ---- part 1b: several entries in the directory, every visiting order
    pool = ctx.pick(MULTI_POOL_QUICK, MULTI_POOL_THOROUGH)
    sets_ = multi_sets(pool)
    ctx.log(f"part 1b: {len(sets_)} directories with 2-3 entries from a pool of {len(pool)} x quote styles x every visiting order")
    resm = common.pmap(check_multi, sets_, ctx.jobs, chunk=1, init=_init_worker, seed=ctx.seed)
    totm = collections.Counter()
    mfails = []
    for r in resm:
        for k in ("admitted", "completions", "execs", "same_as_single", "failing"):
            totm[k] += r[k]
        mfails.extend(r["fails"])
    mfails.sort(key=lambda f: (len(f["names"]), f["names"]))
    per_mkey = collections.Counter()
    for key, best, f in classify_multi(mfails):
        per_mkey[key] += 1
        if per_mkey[key] > 3:
            continue
        ctx.violation(
            key=key,
            clause="completed text is read back as exactly one argument equal to the name (several candidates)",
            case={"part": "roundtrip-multi", "names": f["names"], "line": f["line"], "cursor": f["cursor"], "style": f["style"],
                  "closed": f["closed"], "order": f["order"], "minimal_set": list(best)},
            observed={"completion": f["completion"], "prefix_len": f["prefix_len"], "spliced_line": f["spliced"], "argv_calls": f["observed"],
                      "visiting_orders_failing": f["orders_failing"], "visiting_orders_total": f["orders_total"]},
            expected="one call whose single argument is one of the directory entries",
        )
    ctx.log(f"part 1b: {dict(totm)}; {len(per_mkey)} keys")
    if totm["completions"] == 0:
        raise common.ToolError("vacuous run: no completion was offered in any multi-entry directory")

    # ---- part 1d: hostile parent directory reached through the completer's own expansions
    ditems = [(d, f) for d in dir_names(ctx.thorough) for f in ctx.pick(DIR_FILES_QUICK, DIR_FILES_THOROUGH)]
    ctx.log(f"part 1d: {len(ditems)} (hostile directory, file) layouts x routes {DIR_ROUTES}")
    resd = common.pmap(check_dir, ditems, ctx.jobs, chunk=8, init=_init_worker, seed=ctx.seed)
    totd = collections.Counter()
    dfails = []
    for r in resd:
        for k in ("admitted", "no_completion", "completions", "execs", "failing"):
            totd[k] += r[k]
        dfails.extend(r["fails"])
    per_dkey = collections.Counter()
    for key, best, f in classify_dir(dfails):
        per_dkey[key] += 1
        if per_dkey[key] > 3:
            continue
        ctx.violation(
            key=key,
            clause="completed text is read back as exactly one argument that denotes the file (hostile parent directory)",
            case={"part": "roundtrip-dir", "route": f["route"], "dir": f["dir"], "file": f["file"], "line": f["line"], "cursor": f["cursor"], "minimal": list(best)},
            observed={"completion": f["completion"], "prefix_len": f["prefix_len"], "spliced_line": f["spliced"], "argv_calls": f["observed"]},
            expected="one call whose single argument is <CWD>/<dir>/<file> (absolute or relative)",
        )
    ctx.log(f"part 1d: {dict(totd)}; {len(per_dkey)} keys")
    if totd["completions"] * 2 < totd["admitted"]:
        raise common.ToolError(f"vacuous run: only {totd['completions']} completions for {totd['admitted']} admitted hostile-parent cases")

    # ---- part 1e: closed quoted prefix + unquoted tail
    titems = [(d, f) for d in TAIL_DIRS for f in TAIL_FILES]
    rest = common.pmap(check_tail, titems, ctx.jobs, chunk=1, init=_init_worker, seed=ctx.seed)
    tott = collections.Counter()
    tfails = []
    for r in rest:
        for k in ("admitted", "no_completion", "completions", "execs", "failing"):
            tott[k] += r[k]
        tfails.extend(r["fails"])
    per_tkey = collections.Counter()
    for key, best, f in classify_tail(tfails):
        per_tkey[key] += 1
        if per_tkey[key] > 3:
            continue
        ctx.violation(
            key=key,
            clause="completed text is read back as exactly one argument that denotes the file (closed quote + typed tail)",
            case={"part": "roundtrip-tail", "dir": f["dir"], "file": f["file"], "style": f["style"], "form": f["form"], "line": f["line"], "cursor": f["cursor"], "minimal": list(best)},
            observed={"completion": f["completion"], "prefix_len": f["prefix_len"], "spliced_line": f["spliced"], "argv_calls": f["observed"]},
            expected="one call whose single argument is <dir>/<file> (absolute or relative)",
        )
    ctx.log(f"part 1e: {len(titems)} layouts x {len(STYLES) - 1} quote styles x {len(TAIL_FORMS)} places of the closing quote: {dict(tott)}; {len(per_tkey)} keys")
    if tott["completions"] == 0:
        raise common.ToolError("vacuous run: no completion for any closed-quote + tail case")

    # ---- part 2
    p2len = ctx.pick(4, 5)
    items = _p2_items(p2len, "full")
    if ctx.thorough:
        items += _p2_items(6, "reduced", minlen=6)
    ctx.log(f"part 2: all strings of length <= {p2len} over {len(ALPHA2)} symbols" + (f" + length 6 over {len(ALPHA2_REDUCED)} symbols" if ctx.thorough else "") + " x every cursor")
    p3len = ctx.pick(3, 4)
    items3 = _p2_items(3, "strings") + (_p2_items(4, "strings-reduced", minlen=4) if ctx.thorough else [])
    ctx.log(f"part 3: all sequences of <= 3 symbols out of {len(ALPHA3)} (string prefixes x quote kinds + neighbours)"
            + (f" + 4 symbols out of {len(ALPHA3_REDUCED)}" if ctx.thorough else "") + " x every cursor")
    n2 = len(items)
    res2 = common.pmap(check_stem, items + items3, ctx.jobs, chunk=4, init=_init_p2, seed=ctx.seed)
    t3 = collections.Counter()
    for r in res2[n2:]:
        for k in ("strings", "parses", "skipped_after_hang"):
            t3[k] += r[k]
    t2 = collections.Counter()
    bad_counts = collections.Counter()
    records = []
    for i, r in enumerate(res2):
        if i < n2:
            for k in ("strings", "parses"):
                t2[k] += r[k]
        for k, n in r["bad"]:
            bad_counts[tuple(k)] += n
        records.extend(r["records"])
    _init_p2()
    records.sort(key=lambda r: (len(r["text"]), r["text"], r["cursor"]))
    seen_keys = collections.Counter()
    unknown_per_clause = collections.Counter()
    for r in records:  # smallest first
        if not r["class"]:
            # an unclassified (new) failure: report the few smallest minimised forms per clause; a
            # systematic defect would otherwise yield hundreds of keys
            if unknown_per_clause[r["clause"]] >= 6:
                continue
        key = p2_key(r)
        if not r["class"] and key not in seen_keys:
            unknown_per_clause[r["clause"]] += 1
        seen_keys[key] += 1
        if seen_keys[key] > 3:
            continue
        ctx.violation(
            key=key,
            clause={"raises": "analysing a command line for completion never fails", "hang": "analysing a command line for completion never fails"}.get(
                r["clause"], "the context's prefix and suffix reproduce the text around the cursor"),
            case={"part": "analyser", "text": r["text"], "cursor": r["cursor"]},
            observed=r["detail"],
            expected="a context (or None) whose prefix/suffix reproduce the text around the cursor; no exception",
        )
    ctx.log(f"part 2: {dict(t2)}; part 3: {dict(t3)}; bad (clause, where, class) counts: { {':'.join(str(x) for x in k): n for k, n in bad_counts.items()} }")

    # ---- evidence
    for n in common.pick_samples([r for r in res if "example" in r], ctx.seed, 4):
        ctx.sample(n["example"])
    for n in common.pick_samples([r for r in resd if "example" in r], ctx.seed, 2):
        ctx.sample(n["example"])
    for text, cursor in (("a 'b", 4), ("a $(b c", 7), ("a @(b", 5)):
        c2 = _P2.parse(text, cursor)
        ctx.sample({"part": "analyser", "text": text, "cursor": cursor, "context": repr(c2)[:300], "verdict": "ok" if analyse(text, cursor) is None else "violates"})
    ctx.coverage.update(
        evaluations=tot["completions"] + totm["completions"] + totd["completions"] + tott["completions"] + t2["parses"] + t3["parses"],
        distinct_nontrivial=tot["execs"] + totm["execs"] + t2["strings"] + t3["strings"],
        rule=(
            f"part 1: all {len(names)} names of length <= {maxlen} over {len(ALPHA1)} symbols (+{len(KEYWORD_NAMES)} keyword names) x {{file, dir}} x "
            f"{len(STYLES)} opening-quote styles x every proper typed prefix (literal and backslash-escaped spelling) x {{no closing quote, closing quote after the cursor, cursor right after the closed quote (names of length <= " + str(AFTER_MAXLEN) + ")}; "
            "a case is admitted when the real CompletionContextParser analyses the cursor as the end of the second word of the command and the completer's own partial-string unquoting reads the whole typed word as a prefix of the name; every completion returned by the real "
            "Completer.complete (path completer only) is spliced and executed; non-trivial = distinct (name, kind, spliced line) executions that reached the argv comparison. "
            f"part 1b: all {len(sets_)} directories holding 2 or 3 entries out of a pool of {len(pool)} names (one per quoting class: plain, $, backslash, each quote, control character, blank, ...) x "
            f"{len(STYLES)} opening-quote styles x {{no closing quote, closing quote after the cursor}} x typed prefixes {MULTI_TYPED} x EVERY visiting order of the candidates (the real _quote_paths is handed the candidates as an ordered list); "
            f"part 1d: {len(ditems)} layouts (directory named a<h>b / <h>ab / ab<h>" + (" / a<h1><h2>b" if ctx.thorough else "") + f" for every hostile symbol h, holding one file) x routes {DIR_ROUTES} "
            "(typed `$D/f`, the plain letters of the directory + `/f` for subsequence matching, `~/f` with $HOME = the directory), bare typed word; "
            f"part 1e: directories {TAIL_DIRS} x files {TAIL_FILES} x {len(STYLES) - 1} quote styles x closing quote {TAIL_FORMS} followed by an unquoted typed tail (<q>dir/<q>f, <q>dir<q>/f, <q>di<q>r/f), full pipeline; "
            f"part 2: all strings of length <= {p2len} over {len(ALPHA2)} symbols"
            + (f" and all strings of length 6 over {len(ALPHA2_REDUCED)} symbols" if ctx.thorough else "")
            + f" x every cursor position through CompletionContextParser.parse; part 3: all sequences of <= 3 symbols out of {len(ALPHA3)} ({len(_PREFIXES)} string prefixes x {len(_QUOTES)} quote kinds, the bare quotes doubling as closers, + 8 neighbours)"
            + (f" and of 4 symbols out of {len(ALPHA3_REDUCED)}" if ctx.thorough else "")
            + " x every cursor position, each parse under a CPU-time fuse; non-trivial = distinct strings / symbol sequences"
        ),
        exhaustive=True,
        names=len(names),
        names_with_completions=nontrivial_names,
        cases_generated=tot["generated"],
        cases_admitted=tot["admitted"],
        cases_without_completion=tot["no_completion"],
        completions_spliced=tot["completions"],
        lines_executed=tot["execs"],
        roundtrip_failures=tot["failing"],
        analyser_strings=t2["strings"],
        analyser_parses=t2["parses"],
        analyser_bad=sum(bad_counts.values()),
        tail_cases_admitted=tott["admitted"],
        tail_cases_without_completion=tott["no_completion"],
        tail_completions_spliced=tott["completions"],
        tail_failures=tott["failing"],
        parent_dir_layouts=len(ditems),
        parent_dir_cases_admitted=totd["admitted"],
        parent_dir_cases_without_completion=totd["no_completion"],
        parent_dir_completions_spliced=totd["completions"],
        parent_dir_failures=totd["failing"],
        multi_directories=len(sets_),
        multi_cases_admitted=totm["admitted"],
        multi_completions_spliced=totm["completions"],
        multi_lines_executed=totm["execs"],
        multi_failures_same_as_single_entry=totm["same_as_single"],
        multi_failures=totm["failing"],
        prefixed_string_sequences=t3["strings"],
        prefixed_string_parses=t3["parses"],
        prefixed_string_positions_skipped_after_hang=t3["skipped_after_hang"],
        bounds={"name_len": maxlen, "analyser_len": p2len, "analyser_len_reduced_alphabet": 6 if ctx.thorough else None},
    )
    ctx.assumptions += [
        "the completion is spliced as prompt_toolkit does (replace prefix_len characters before the cursor, keep the text after it); the readline shell renders the same replacement on the word",
        "only the path completer is registered (XSH.completers = {path}); bash/man/command completers are out of scope; the completed word is the second word of the command",
        "part 1: the candidate directory contains only the one entry under test; part 1b: 2-3 entries, the visiting order of the candidate set is imposed by wrapping path._quote_paths (same function, list instead of set); THREAD_SUBPROCS=False (argv is read before the alias runs, threading does not take part in it)",
        "a parse that uses more than 1 s of CPU time (0.03 s for texts shaped like the known tokenizer spin) is reported as a hang; after a hang the remaining cursor positions of that text are skipped",
        "names/strings longer than the bound and characters outside the alphabets are covered only by the small-scope hypothesis",
    ]


def replay(rec):
    case = rec["case"]
    tables.ensure_tables()
    if case.get("part") == "analyser":
        global _FUSE_SHORT
        _FUSE_SHORT = _FUSE_LONG  # confirm a hang with the long fuse
        _init_p2()
        bad = analyse(case["text"], case["cursor"])
        print("text    :", repr(case["text"]), "cursor:", case["cursor"])
        print("observed:", bad if bad else "statement holds")
        print("expected: a context (or None) whose prefix/suffix reproduce the text around the cursor; no exception")
        return 1 if bad else 0
    _init_worker()
    w = _W
    if case.get("part") == "roundtrip-multi":
        names = tuple(case["names"])
        line, cursor = case["line"], case["cursor"]
        for n in names:
            w.make(n, "file")
        rc = 0
        try:
            print("entries :", list(names), "visiting order:", case["order"])
            print("line    :", repr(line), "cursor:", cursor, "read as:", w.admit(line, cursor, line[cursor:]))
            w.order = {n: i for i, n in enumerate(case["order"])}
            comps = w.completions(line, cursor)
            w.order = None
            for text, plen in comps:
                new = w.splice(line, cursor, text, plen)
                obs = w.execute(new, names)
                ok = isinstance(obs, list) and len(obs) == 1 and obs[0] in [[n] for n in names]
                print("completion:", repr(text), "prefix_len:", plen, "-> line", repr(new))
                print("  observed argv calls:", obs)
                print("  expected           : one call whose single argument is one of", list(names))
                print("  verdict :", "ok" if ok else "VIOLATION (unless this is exactly the single-entry completion, see part 1)")
                if not ok:
                    rc = 1
        finally:
            w.order = None
            for n in names:
                os.unlink(os.path.join(w.cwd, n))
        return rc
    if case.get("part") == "roundtrip-tail":
        global STYLES, TAIL_FORMS
        STYLES = ["", case["style"]]
        TAIL_FORMS = (case["form"],)
        r = check_tail((case["dir"], case["file"]))
        print("layout  :", repr(case["dir"]) + "/" + repr(case["file"]), "line:", repr(case["line"]))
        for f in r["fails"]:
            print("completion:", repr(f["completion"]), "prefix_len:", f["prefix_len"], "-> line", repr(f["spliced"]))
            print("  observed argv calls:", f["observed"])
            print("  expected           : one call whose single argument denotes " + case["dir"] + "/" + case["file"])
        print("verdict :", "VIOLATION" if r["fails"] else f"ok ({r['completions']} completions read back correctly)")
        return 1 if r["fails"] else 0
    if case.get("part") == "roundtrip-dir":
        global DIR_ROUTES
        DIR_ROUTES = (case["route"],)
        r = check_dir((case["dir"], case["file"]))
        print("layout  :", repr(case["dir"]) + "/" + repr(case["file"]), "route:", case["route"], "line:", repr(case["line"]))
        for f in r["fails"]:
            print("completion:", repr(f["completion"]), "prefix_len:", f["prefix_len"], "-> line", repr(f["spliced"]))
            print("  observed argv calls:", f["observed"])
            print("  expected           : one call whose single argument denotes <CWD>/" + case["dir"] + "/" + case["file"])
        print("verdict :", "VIOLATION" if r["fails"] else f"ok ({r['completions']} completions read back correctly)")
        return 1 if r["fails"] else 0
    name, kind, line, cursor = case["name"], case["kind"], case["line"], case["cursor"]
    w.make(name, kind)
    rc = 0
    try:
        adm = w.admit_after(line, cursor, _closer(case["style"])) if case.get("closed") == AFTER else w.admit(line, cursor, line[cursor:])
        print("name    :", repr(name), f"({kind})")
        print("line    :", repr(line), "cursor:", cursor, "read by the analyser/completer as (opening quote, typed value):", adm,
              "admitted:", adm is not None and name.startswith(adm[1]))
        for text, plen in w.completions(line, cursor):
            new = w.splice(line, cursor, text, plen)
            obs = w.execute(new, name)
            sig = signature(obs, name, kind)
            print("completion:", repr(text), "prefix_len:", plen, "-> line", repr(new))
            print("  observed argv calls:", obs)
            print("  expected argv calls:", [[name]] if kind == "file" else f"[[{name!r}]] or [[{name + '/'!r}]]")
            print("  verdict :", "VIOLATION " + sig if sig else "ok")
            if sig:
                rc = 1
    finally:
        w.remove(name, kind)
    return rc
