"""C17 - `xonsh format` never changes what a program means, and is idempotent.

Bounded-exhaustive exploration of the real formatter (xonsh.formatter.core.format_source and the
CLI's per-file function) over  forms x layouts:  a small Python statement grammar UNION the xonsh
forms (subprocess lines, captures, macros, with!-blocks, env assignment, chains), each rendered
under every layout with at most k deviations from the canonical one (see xv/c17_space.py).

Oracle (from the statement):
  reject   input that xonsh's tokenizer (tolerant=False) cannot tokenise must not be accepted, and the
           CLI must leave the file's bytes alone;
  idem     fmt(fmt(s)) == fmt(s) (and fmt(s) must itself be accepted);
  comment  the comment token texts of s and fmt(s) are the same sequence;
  tree     when s parses with xonsh's own three-phase parser (Execer.parse(s, ctx=BOUND) - the
           grammar's variables are bound names, command words are not; XV_C17_CTX=empty gives the
           all-unbound reading ctx=set()), fmt(s) parses too and to the same tree under a
           location-free dump (ast.dump without attributes: string constants, macro raw texts and
           subprocess argument strings are repr()ed, i.e. compared byte for byte).  Not applied to
           the prefix family (those inputs exist for the reject / idem / comment clauses).
  file     (canonical, CRLF, file-ending, prefix, non-ASCII and indentation cases) the same through
           the real CLI entry point on a real file: --check / --diff leave the bytes alone, in-place
           leaves exactly format_source(original) encoded, a second run agrees with format_source
           again, exit status 0 / 1 (change needed, --check/--diff) / 123 (rejected);
  indent   for the indentation family the reference for "cannot be tokenised" is CPython's own
           tokenizer (unindent does not match any outer indentation level), independent of
           xonsh's tokenizer: the formatter must refuse those files and leave them alone.
  A formatter call that does not return within 15 s on un-tokenisable input is a violation of
  "rejected with an error"; after 3 hangs per worker the rest is skipped and exhaustive=false.

Does NOT require (never flagged):
  * any particular style of the output (spacing, indent width, blank-line caps, quote style);
  * that un-parsable-but-tokenisable input stays un-parsable, or anything about its tree;
  * that the formatter accepts every tokenisable input (it may reject with FormatError; an internal
    exception / hang on tokenisable input is counted in the evidence but is not a violation of this
    statement);
  * anything about a tree when xonsh's parser rejects the INPUT (only idem / comment / reject apply);
  * blanks *after* a comment's text or before its '#' to be kept (comment texts are compared after
    strip());
  * CR LF line ends to survive: files are read in text mode by both `xonsh format` and xonsh's
    script loader, so CRLF layouts go through the CLI file path and are compared after universal
    newline translation;
  * the wording of messages / diffs (only: --check and --diff never modify the file, and the exit
    status says whether a change is / was needed: 0, 1 in --check/--diff when a change is needed,
    123 on a rejected file - the CLI's documented contract);
  * rejection of programs that are tokenisable but not parsable (unexpected indent, missing block):
    the statement's rejection clause is about tokenisation;
  * any verdict on tab/space ambiguity (CPython's TabError): xonsh's tokenizer counts a tab as "to
    the next multiple of 8" and accepts such files.
"""

import ast
import difflib
import io
import os
import signal

from . import common
from . import c17_space as space

LEVEL = "exploration"

_EX = None
# Names that stand for *bound Python identifiers* in the forms (see c17_space.BOUND).  xonsh decides
# "Python or subprocess?" per line from the set of bound names: command words (ls, echo, cmd ...)
# are unbound, the grammar's variables are bound - as in any real program.  XV_C17_CTX=empty
# switches to the all-unbound reading (every line that can be a command is one).
_CTX = frozenset() if os.environ.get("XV_C17_CTX") == "empty" else space.BOUND
_FMT = None
_FORMS = None
_K = 1
_KCORE = 1
_SCRATCH = None
_NPARTS = 1


class _Timeout(Exception):
    pass


def _alarm(signum, frame):
    raise _Timeout()


def _init_worker():
    global _EX, _FMT, _SCRATCH
    from .session import load_session
    from .tables import ensure_tables

    ensure_tables(completion=False)
    _SCRATCH = common.scratch_dir("c17")
    xsh = load_session(data_dir=_SCRATCH, path=[_SCRATCH])
    _EX = xsh.execer
    import xonsh.formatter.core as core

    _FMT = core
    signal.signal(signal.SIGALRM, _alarm)


# ---------------------------------------------------------------- observation primitives

_parse_cache = {}


def _parse(text):
    """('ok', dump|None) | ('err', kind).  The real three-phase parse with an empty context."""
    hit = _parse_cache.get(text)
    if hit is not None:
        return hit
    signal.setitimer(signal.ITIMER_REAL, 30.0)
    try:
        tree = _EX.parse(text, ctx=set(_CTX))
        res = ("ok", None if tree is None else ast.dump(tree))
    except _Timeout:
        res = ("err", "hang>30s")
    except SyntaxError:
        res = ("err", "SyntaxError")
    except RecursionError:
        res = ("err", "RecursionError")
    except Exception as e:  # noqa: BLE001 - the parser's recovery loop has its own crashes; out of scope here
        res = ("err", type(e).__name__)
    finally:
        signal.setitimer(signal.ITIMER_REAL, 0)
    if len(_parse_cache) > 20000:
        _parse_cache.clear()
    _parse_cache[text] = res
    return res


def _tokens(text):
    """(tokens | None, error name).  None = cannot be tokenised (the statement's 'rejected' class)."""
    from xonsh.parsers.tokenize import tokenize

    src = text if (not text or text.endswith("\n")) else text + "\n"
    try:
        return list(tokenize(io.BytesIO(src.encode("utf-8")).readline, tolerant=False)), ""
    except Exception as e:  # noqa: BLE001
        return None, type(e).__name__


_fmt_cache = {}
# a formatter that does not come back is recorded, but may not eat the budget: after this many
# hangs in one worker the remaining cases of that worker are skipped and the run is marked
# non-exhaustive
_HANGS = 0
_HANG_BUDGET = 3
_FMT_TIMEOUT = 15.0


def _fmt(text):
    """('ok', out) | ('reject', msg) | ('crash', exc name)"""
    global _HANGS
    hit = _fmt_cache.get(text)
    if hit is not None:
        return hit
    if _HANGS >= _HANG_BUDGET:
        return ("crash", "skipped-after-hangs")
    signal.setitimer(signal.ITIMER_REAL, _FMT_TIMEOUT)
    try:
        res = ("ok", _FMT.format_source(text))
    except _FMT.FormatError as e:
        res = ("reject", str(e)[:80])
    except _Timeout:
        _HANGS += 1
        res = ("crash", "hang")
    except Exception as e:  # noqa: BLE001
        res = ("crash", type(e).__name__)
    finally:
        signal.setitimer(signal.ITIMER_REAL, 0)
    if len(_fmt_cache) > 20000:
        _fmt_cache.clear()
    _fmt_cache[text] = res
    return res


def _comments(toks):
    from xonsh.parsers.tokenize import COMMENT

    return [t.string.strip() for t in toks if t.type == COMMENT]


def _cli_run(argv):
    """The real CLI entry point (`xonsh format ...` dispatches to xonsh.formatter.cli.main) in
    process.  -> exit status (int) or the name of what came out instead."""
    import contextlib

    import xonsh.formatter.cli as cli

    signal.setitimer(signal.ITIMER_REAL, _FMT_TIMEOUT)
    try:
        with contextlib.redirect_stderr(io.StringIO()), contextlib.redirect_stdout(io.StringIO()):
            rc = cli.main(list(argv))
        return rc if isinstance(rc, int) else repr(rc)
    except SystemExit as e:
        return f"SystemExit({e.code})"
    except _Timeout:
        return "hang"
    except Exception as e:  # noqa: BLE001
        return type(e).__name__
    finally:
        signal.setitimer(signal.ITIMER_REAL, 0)


def _cli_protocol(data: bytes, full=True):
    """Write `data` to a real file and run the CLI on it in every mode: --check, --diff, in place,
    in place again.  -> {mode: (exit status, file bytes afterwards)}"""
    path = os.path.join(_SCRATCH, "case.xsh")
    obs = {}
    for mode, flags in (("check", ["--check"]), ("diff", ["--diff"]), ("inplace", []), ("inplace2", [])):
        if not full and mode in ("check", "diff"):
            continue  # layout variants of a form: the two read-only modes are run on its canonical text
        if mode != "inplace2":
            with open(path, "wb") as f:
                f.write(data)
        rc = _cli_run(["-q", *flags, path])
        with open(path, "rb") as f:
            obs[mode] = (rc, f.read())
    return obs


def _show(b: bytes):
    return b.decode("utf-8", "backslashreplace")


def _cli_clauses(data, text, out, viols, rejected=None, full=True):
    """The file-path clauses.  `out` = format_source(text) (None when the input must be rejected,
    `rejected` then names why): --check / --diff never modify the file, in-place leaves exactly
    format_source's result (or the untouched bytes), a second run agrees with format_source again,
    and the exit status tells what happened (0 / 1 = would change in --check/--diff / 123 = error)."""
    obs = _cli_protocol(data, full)
    if out is None:
        for mode in ("check", "diff", "inplace"):
            if mode not in obs:
                continue
            rc, after = obs[mode]
            if after != data:
                viols.append(dict(key=f"reject:file-rewritten:{rejected}" + ("" if mode == "inplace" else f":--{mode}"), clause="rejected input is never rewritten", observed={"cli_mode": mode, "exit": rc, "bytes_after": _show(after)}, expected="file bytes unchanged"))
            elif isinstance(rc, int) and rc != 123:  # 123, or an exception out of main(), is an error report
                viols.append(dict(key=f"reject:exit-status:{rejected}:{mode}:{rc}", clause="rejected input is reported as an error", observed={"cli_mode": mode, "exit": rc}, expected="exit status 123 (error)"))
        return
    changed = out != text
    want = out.encode("utf-8") if changed else data
    for mode in ("check", "diff"):
        if mode not in obs:
            continue
        rc, after = obs[mode]
        if after != data:
            viols.append(dict(key=f"cli:--{mode}-modified-the-file", clause=f"--{mode} does not write the file back", observed={"exit": rc, "bytes_after": _show(after)}, expected="file bytes unchanged"))
        elif rc != (1 if changed else 0):
            viols.append(dict(key=f"cli:exit-status:--{mode}:{rc}-want-{1 if changed else 0}", clause="the exit status tells whether a change is needed", observed={"exit": rc, "change_needed": changed}, expected=1 if changed else 0))
    rc, after = obs["inplace"]
    if after != want:
        try:
            after.decode("utf-8")
            kind = "tail-lost" if want.startswith(after) else "untouched" if after == data else "tail-garbage" if after.startswith(want) else "differs"
        except UnicodeDecodeError:
            kind = "invalid-utf8"
        viols.append(dict(key=f"cli:in-place-result:{kind}", clause="the file afterwards holds exactly format_source(original)", observed={"exit": rc, "file": _show(after)}, expected=_show(want)))
        return
    if rc != 0:
        viols.append(dict(key=f"cli:exit-status:in-place:{rc}-want-0", clause="the exit status tells what happened", observed={"exit": rc}, expected=0))
    rc2, after2 = obs["inplace2"]
    r2 = _fmt(out) if changed else ("ok", out)
    want2 = r2[1].encode("utf-8") if (r2[0] == "ok" and r2[1] != out) else after
    if after2 != want2:
        viols.append(dict(key="cli:second-run-disagrees-with-format_source", clause="a second run leaves format_source(file) (normally: changes nothing)", observed={"exit": rc2, "file": _show(after2)}, expected=_show(want2)))


# ---------------------------------------------------------------- failure signatures (root-cause keys)
#
# A key names a ROOT CAUSE, not an input:  <clause>:<feature>  or  <clause>:<mode>:<edit>:<site>.
#   feature  the failing input contains a narrowly defined lexical feature (FEATURES below) and the
#            same input with exactly that feature repaired passes the clause ("repair transform");
#   else     the formatter's output is compared with its input gap by gap (the formatter re-emits
#            token text verbatim, so input and output normally differ only in white space), the
#            first single gap edit that alone makes the clause fail is located and described by
#              mode  which kind of xonsh text holds the first tree difference: with_macro /
#                    call_macro (inside the raw arguments), subproc (the statement contains
#                    subprocess-mode text), py, or output-unparsable,
#              edit  class of the gap before > after (0 = no gap, sp = blanks, nl = line break,
#                    indent),
#              site  lexical class of the neighbouring tokens (operator class, line start / end,
#                    inside STRING / COMMENT / FSTRING, before a comment, at a continuation ...).
# A different defect edits a different kind of gap, or changes a different kind of node, and so
# gets a different key.

import re

_WS = " \t\r\n\f"


def _cls(s):
    """class of a gap text"""
    if s == "":
        return "0"
    if s.strip(" \t\f") == "":
        return "sp"
    if s.strip(_WS) == "":
        return "nl"
    return "txt"


def _gap_hunks(a, b):
    """Differing white-space gaps of a and b as (i1,i2,j1,j2,part) or None when the non-blank
    characters differ.  A gap that holds a line break on both sides is split into its three
    layers: blanks at the end of the line, the line breaks (blank lines), the next line's indent."""
    i = j = 0
    hs = []
    na, nb = len(a), len(b)
    while True:
        i0, j0 = i, j
        while i < na and a[i] in _WS:
            i += 1
        while j < nb and b[j] in _WS:
            j += 1
        ga, gb = a[i0:i], b[j0:j]
        if ga != gb:
            if "\n" in ga and "\n" in gb:
                fa, la = ga.index("\n"), ga.rindex("\n") + 1
                fb, lb = gb.index("\n"), gb.rindex("\n") + 1
                if ga[:fa] != gb[:fb]:
                    hs.append((i0, i0 + fa, j0, j0 + fb, "trail"))
                if ga[fa:la] != gb[fb:lb]:
                    hs.append((i0 + fa, i0 + la, j0 + fb, j0 + lb, "lines"))
                if ga[la:] != gb[lb:]:
                    hs.append((i0 + la, i, j0 + lb, j, "indent"))
            else:
                hs.append((i0, i, j0, j, "gap"))
        if i >= na or j >= nb:
            return hs if (i >= na and j >= nb) else None
        if a[i] != b[j]:
            return None
        i += 1
        j += 1


def _hunks(a, b):
    hs = _gap_hunks(a, b)
    if hs is not None:
        return hs
    sm = difflib.SequenceMatcher(None, a, b, autojunk=False)
    return [(i1, i2, j1, j2, "text") for tag, i1, i2, j1, j2 in sm.get_opcodes() if tag != "equal"]


def _apply(a, b, hunks):
    out = []
    pos = 0
    for i1, i2, j1, j2, _part in hunks:
        out.append(a[pos:i1])
        out.append(b[j1:j2])
        pos = i2
    out.append(a[pos:])
    return "".join(out)


_CMPAUG = frozenset("== != <= >= -> := += -= *= /= //= %= **= @= |= &= ^= <<= >>=".split())
_OPENERS = frozenset(("(", "[", "{", "$(", "$[", "${", "!(", "![", "@(", "@!(", "@$("))
_CLOSERS = frozenset((")", "]", "}"))
_WORDS = frozenset(("NAME", "NUMBER", "STRING", "DOLLARNAME", "SEARCHPATH", "FSTRING_START", "FSTRING_MIDDLE", "FSTRING_END", "ATDOLLAR"))


def _tokclass(tok):
    from xonsh.parsers import tokenize as T
    import keyword

    if tok is None:
        return "^"
    t, s = tok.type, tok.string
    if t == T.NAME and keyword.iskeyword(s):
        return "kw"
    if t == T.COMMENT:
        return "CMT"
    if t == T.ENDMARKER:
        return "EOF"
    name = T.tok_name.get(t, str(t))
    if name in _WORDS:
        return "w"
    if name.startswith("IOREDIRECT"):
        return "ioredir"
    if name in ("OP", "ERRORTOKEN"):
        if s in ("\\\n", "\\\r\n"):
            return "CONT"
        if s == "\\":
            return "BSLASH"
        if s in _CMPAUG:
            return "cmpaug"
        if s in _OPENERS:
            return "open"
        if s in _CLOSERS:
            return "close"
        return s
    return name


def _line_offsets(src):
    starts = [0]
    for ln in src.split("\n")[:-1]:
        starts.append(starts[-1] + len(ln) + 1)
    return starts


def _string_regions(text):
    """[(start, end, kind)] character spans of STRING tokens and of whole f-strings."""
    from xonsh.parsers import tokenize as T

    toks, _ = _tokens(text)
    if toks is None:
        return []
    src = text if text.endswith("\n") else text + "\n"
    starts = _line_offsets(src)

    def off(pos):
        ln, col = pos
        return starts[ln - 1] + col if 0 < ln <= len(starts) else len(src)

    out = []
    fstack = []
    for t in toks:
        if t.type == T.STRING:
            out.append((off(t.start), off(t.end), "STRING"))
        elif t.type == T.FSTRING_START:
            fstack.append(off(t.start))
        elif t.type == T.FSTRING_END and fstack:
            s = fstack.pop()
            if not fstack:
                out.append((s, off(t.end), "FSTRING"))
    return out


def _fstring_literal_at(text, s, pos):
    """Is `pos` in a literal (not {expression}) part of the f-string starting at s?"""
    depth = 0
    i = s
    while i < pos:
        c = text[i]
        if c == "{":
            if depth == 0 and text[i : i + 2] == "{{":
                i += 2
                continue
            depth += 1
        elif c == "}":
            if depth == 0 and text[i : i + 2] == "}}":
                i += 2
                continue
            depth = max(0, depth - 1)
        i += 1
    return depth == 0


def _site(text, h):
    """Lexical class of the gap that the edit h of `text` touches."""
    from xonsh.parsers import tokenize as T

    i1, i2, _j1, _j2, part = h
    toks, _ = _tokens(text)
    if toks is None:
        return "untokenisable"
    for s, e, kind in _string_regions(text):
        if s < i1 and i2 < e or (s < i1 < e) or (s < i2 < e):
            if kind == "STRING" or _fstring_literal_at(text, s, max(i1, s + 1)):
                return "in-" + kind
    src = text if text.endswith("\n") else text + "\n"
    starts = _line_offsets(src)

    def off(pos):
        ln, col = pos
        return starts[ln - 1] + col if 0 < ln <= len(starts) else len(src)

    left = left2 = right = None
    stack = []
    npos = lpos = rpos = 0  # ordinal of a token in its logical line (1 = the leading word)
    for t in toks:
        if t.type == T.NEWLINE:
            npos = 0
        if t.type in (T.ENCODING, T.INDENT, T.DEDENT, T.FSTRING_MIDDLE, T.NEWLINE, T.NL):
            continue
        s, e = off(t.start), off(t.end)
        if t.type == T.OP and e <= i1:
            if t.string in _OPENERS:
                stack.append(t.string)
            elif t.string in _CLOSERS and stack:
                stack.pop()
        if t.type == T.ERRORTOKEN and t.string.strip(" \t\f") == "":
            if s <= i2 and i1 <= e:
                return "at-whitespace-errortoken"
            continue
        if t.type in (T.OP, T.ERRORTOKEN) and t.string in ("\\\n", "\\\r\n"):
            e = s + 1
        if e < s:
            continue
        if t.type == T.COMMENT:
            # inside subprocess brackets the tokenizer glues the blanks before '#' to the comment
            s += len(t.string) - len(t.string.lstrip())
            if s < i1 < e or (s < i2 <= e and i1 < i2):
                return "in-COMMENT"
        if t.type == T.ENDMARKER:
            if right is None:
                right = t
            continue
        if t.type != T.COMMENT:
            npos += 1
        if e <= i1:
            left2, left, lpos = left, t, npos
        elif right is None and s >= i2:
            right, rpos = t, npos
    L, R = _tokclass(left), _tokclass(right)
    if L == "=" and _tokclass(left2) == "ioredir":
        L = "ioredir="  # `a>=b` is lexed as the redirect token `a>` followed by `=`
    if part == "trail":
        return "after-backslash" if L in ("BSLASH", "CONT") else "line-end"
    if part == "lines":
        return "blank-lines"
    if part == "indent":
        return "continuation-line-start" if L == "CONT" else "line-start"
    if "\n" in text[i1:i2]:
        return "line-break"
    if L == "BSLASH" and R == "EOF":
        return "after-backslash"
    if R == "EOF":
        return "line-end"
    if R == "CONT":
        return "before-continuation"
    if R == "CMT":
        return "before-comment"
    if L == "^":
        return "line-start"
    # operator sites carry the innermost enclosing bracket: `a:b` in a slice, a dict, a call, a
    # subprocess capture or at statement level are governed by different formatter rules
    brk = "/" + stack[-1] if stack else ""
    if "ioredir=" in (L, R) or ("ioredir" in (L, R) and "w" not in (L, R)):
        return "ioredir|="
    for x in (R, L):
        if x in (",", ";", ":"):
            return "@" + x + brk
    if "=" in (L, R):
        # `NAME=...` at the head of a statement (assignment look-alike) is governed by another
        # rule than a `k=v` word further along a command line
        eqpos = lpos if L == "=" else rpos
        return "@=" + (brk or ("/arg" if eqpos > 2 else ""))
    if "cmpaug" in (L, R):
        return "@cmpaug" + brk
    if L == "open":
        return "@open"
    if R == "close":
        return "@close"
    if L == "kw" or R == "kw":
        return "@kw"
    return f"{L}|{R}"


def _is_xcall(node):
    if isinstance(node, ast.Call) and isinstance(node.func, ast.Attribute) and isinstance(node.func.value, ast.Name) and node.func.value.id == "__xonsh__":
        return node.func.attr
    return None


def _mode(src_a, src_b):
    """Kind of xonsh text that holds the first difference of the two trees."""
    try:
        ta = _EX.parse(src_a, ctx=set(_CTX))
        tb = _EX.parse(src_b, ctx=set(_CTX))
    except Exception:  # noqa: BLE001
        return "unparsable"
    if ta is None or tb is None:
        return "empty"
    found = {}

    def walk(a, b, macro, stmts):
        """-> True when the first difference was found below (a, b)"""
        if type(a) is not type(b):
            found.update(macro=macro, stmts=stmts)
            return True
        if isinstance(a, ast.AST):
            h = _is_xcall(a)
            if h in ("enter_macro", "call_macro") and h == _is_xcall(b):
                macro = "with_macro" if h == "enter_macro" else "call_macro"
            if isinstance(a, ast.stmt):
                stmts = (a, b)
            for f in a._fields:
                if walk(getattr(a, f, None), getattr(b, f, None), macro, stmts):
                    return True
            return False
        if isinstance(a, list):
            for x, y in zip(a, b):
                if walk(x, y, macro, stmts):
                    return True
            if len(a) != len(b):
                found.update(macro=macro, stmts=stmts)
                return True
            return False
        if a != b:
            found.update(macro=macro, stmts=stmts)
            return True
        return False

    if not walk(ta, tb, None, (ta, tb)):
        return "same"
    if found["macro"]:
        return found["macro"]
    for node in found["stmts"]:
        for sub in ast.walk(node):
            h = _is_xcall(sub)
            if h and h.startswith("subproc_") and h != "subproc_check_boolop":
                return "subproc"
    return "py"


def _culprit(src, out, bad):
    """Smallest edit of diff(src, out) that makes `bad` true: the first single gap edit that does so
    alone; otherwise edits are reverted one by one (all indentation edits as one group) while the
    result stays bad.  -> (hunk, edited text)"""
    hs = _hunks(src, out)
    if not hs:
        return (0, 0, 0, 0, "gap"), out
    for h in hs:
        t = _apply(src, out, [h])
        if bad(t):
            return h, t
    ind = [h for h in hs if h[4] == "indent"]
    keep = list(hs)
    groups = [[h] for h in hs if h not in ind] + ([ind] if ind else [])
    for g in reversed(groups):
        trial = [h for h in keep if h not in g]
        if trial and bad(_apply(src, out, trial)):
            keep = trial
    first = [h for h in keep if h not in ind] or keep
    return first[0], _apply(src, out, keep)


_SITE_FEATURE = {"after-backslash": "blanks-after-backslash", "in-STRING": "blanks-at-eol-inside-multiline-string", "in-FSTRING": "blanks-at-eol-inside-multiline-string"}


def _edit_sig(src, out, h):
    i1, i2, j1, j2, part = h
    site = _site(src, h)
    edit = "indent" if part == "indent" else f"{_cls(src[i1:i2])}>{_cls(out[j1:j2])}"
    return edit, site


# --- input features with a repair transform (known multi-symptom root causes)

_BS_WS = re.compile(r"\\[ \t\f]+(?=\r?\n|$)")
_MACRO_GAP = re.compile(r"(?<=\w)(?:\s|\\\r?\n|#[^\n]*\n)+(?=!\()")
_FDEBUG = re.compile(r"(?:\s|\\\r?\n|#[^\n]*\n)*=(?:\s|\\\r?\n|#[^\n]*\n)*(?=[}!])")


_BANG_GAP = re.compile(r"(?m)^([ \t]*\w+)(?:[ \t]|\\\r?\n)+!(?=[ \t])")
_BANG_LATE = re.compile(r"(?m)^([ \t]*\w+[ \t]+[^\n!#]*\w)!(?=[ \t])")


def _repair_bang_gap(text):
    """`cmd  ! raw text`: blanks between the first word and the macro bang removed"""
    return _BANG_GAP.sub(r"\1!", text)


def _repair_bang_late(text):
    """`cmd -c! raw text`: the macro bang behind a later word removed (plain command line)"""
    return _BANG_LATE.sub(r"\1", text)


_INFIX2 = re.compile(r"(?m)^([ \t]*[A-Za-z_]\w*[ \t]+)(?:and|or|is|in|not)(?=[ \t])")


def _repair_infix2(text):
    """a command line whose SECOND word is and/or/is/in/not: that word replaced by a plain one"""
    return _INFIX2.sub(r"\1zz", text)


_CONT1 = re.compile(r"(?m)^([ \t]*[A-Za-z_]\w*(?:[ \t]+-)?)([ \t]*)\\\r?\n([ \t]*)")
_ASYNC_CONT = re.compile(r"\b(async|await)[ \t]*\\\r?\n[ \t]*")


def _repair_cont1(text):
    """a backslash-newline directly behind the leading word of a line (or behind the first dash of
    its first flag) joined: into one blank, or into nothing when it was glued on both sides"""
    return _CONT1.sub(lambda m: m.group(1) + (" " if m.group(2) or m.group(3) else ""), text)


def _repair_async_cont(text):
    """a backslash-newline directly behind `async` / `await` joined into one blank"""
    return _ASYNC_CONT.sub(r"\1 ", text)


_LINESEP = re.compile("[\x0b\x0c\x1c\x1d\x1e\x85\u2028\u2029]")


def _repair_linesep(text):
    """characters that str.splitlines() (but not the tokenizer) takes for line ends removed"""
    return _LINESEP.sub("", text)


def _formatter_ignores(text, fixed, repair):
    """guard: the FORMATTER treats the two texts alike (its output for the repaired text is the
    repaired output), i.e. whatever differs is due to how xonsh's parser reads the input"""
    a, b = _fmt(text), _fmt(fixed)
    return a[0] == "ok" and b[0] == "ok" and repair(a[1]) == b[1]


_LEAD_FF = re.compile(r"(?m)^([ \t]*)\x0c+")


def _repair_lead_ff(text):
    """form feeds in the leading white space of a line removed"""
    return _LEAD_FF.sub(r"\1", text)


def _repair_bs_ws(text):
    """blanks between a backslash and the end of its line removed"""
    return _BS_WS.sub(r"\\", text)


def _repair_mlstring_ws(text):
    """blanks at the end of the inner lines of multi-line string literals removed"""
    out = text
    for s, e, _kind in sorted(_string_regions(text), reverse=True):
        body = out[s:e]
        if "\n" in body:
            out = out[:s] + re.sub(r"[ \t]+(?=\r?\n)", "", body) + out[e:]
    return out


def _repair_macro_gap(text):
    """blanks between a name and the `!(` of a function-macro call removed"""
    return _MACRO_GAP.sub("", text)


def _repair_fdebug(text):
    """the `=` of self-documenting f-string fields ({expr = }) removed, with the blanks around it"""
    out = text
    for s, e, kind in sorted(_string_regions(text), reverse=True):
        if kind == "FSTRING":
            out = out[:s] + _FDEBUG.sub("", out[s:e]) + out[e:]
    return out


FEATURES = [
    ("blanks-after-backslash", _repair_bs_ws),
    ("blanks-at-eol-inside-multiline-string", _repair_mlstring_ws),
    ("blanks-between-name-and-macro-paren", _repair_macro_gap),
    ("blanks-in-fstring-debug-field", _repair_fdebug),
    ("blanks-before-subproc-macro-bang", _repair_bang_gap),
    ("subproc-macro-bang-behind-later-word", _repair_bang_late),
    ("form-feed-in-leading-whitespace", _repair_lead_ff),
    ("subproc-second-word-is-infix-keyword", _repair_infix2),
    ("continuation-directly-after-command-word", _repair_cont1),
    ("continuation-directly-after-async", _repair_async_cont),
    ("linesep-char-in-source-confuses-parser", _repair_linesep),
]
_FEATURE_GUARD = {"linesep-char-in-source-confuses-parser": _formatter_ignores}
# features that only explain a tree difference (never a non-idempotence / comment loss)
_TREE_ONLY = ("linesep-char-in-source-confuses-parser", "continuation-directly-after-command-word", "continuation-directly-after-async", "subproc-second-word-is-infix-keyword", "form-feed-in-leading-whitespace", "blanks-between-name-and-macro-paren", "blanks-in-fstring-debug-field", "blanks-before-subproc-macro-bang", "subproc-macro-bang-behind-later-word")


def _by_feature(text, passes, tree=False):
    """Name of the first feature whose repair alone makes the clause pass; when no single repair
    does but all of them together do, the first feature that is present.  Else None."""
    present = []
    cur = text
    for name, repair in FEATURES:
        if name in _TREE_ONLY and not tree:
            continue
        try:
            fixed = repair(text)
            guard = _FEATURE_GUARD.get(name)
            if fixed != text and guard is not None and not guard(text, fixed, repair):
                continue
            cur = repair(cur)
        except Exception:  # noqa: BLE001
            continue
        if fixed != text:
            present.append(name)
            if passes(fixed):
                return name
    if len(present) > 1 and cur != text and passes(cur):
        return present[0]
    return None


def _tree_passes(text):
    tin = _parse(text)
    if tin[0] != "ok":
        return True  # out of scope
    r = _fmt(text)
    return r[0] != "ok" or _parse(r[1]) == tin


def _idem_passes(text):
    r = _fmt(text)
    if r[0] != "ok":
        return True
    return _fmt(r[1]) == r


def _comment_passes(text):
    toks, _ = _tokens(text)
    r = _fmt(text)
    if toks is None or r[0] != "ok":
        return True
    otoks, _ = _tokens(r[1])
    return otoks is not None and _comments(toks) == _comments(otoks)


def _tree_key(src, out, tin, tout):
    feat = _by_feature(src, _tree_passes, tree=True)
    if feat:
        return f"tree:{feat}", dict(FEATURES)[feat](src)
    if tout[0] != "ok":
        h, t = _culprit(src, out, lambda t: _parse(t)[0] != "ok")
        edit, site = _edit_sig(src, out, h)
        if site == "at-whitespace-errortoken":
            return "tree:whitespace-errortoken", t
        return f"tree:output-unparsable:{edit}:{site}", t

    def bad(t):
        r = _parse(t)
        return r[0] == "ok" and r != tin

    h, t = _culprit(src, out, bad)
    edit, site = _edit_sig(src, out, h)
    if site in _SITE_FEATURE and edit == "sp>0":
        return f"tree:{_SITE_FEATURE[site]}", t
    if site == "line-start" and "\x0c" in src[h[0] : h[1]] and "\x0c" not in out[h[2] : h[3]]:
        return "tree:form-feed-in-leading-whitespace", t
    if site == "at-whitespace-errortoken":
        return "tree:whitespace-errortoken", t
    mode = _mode(src, t)
    if mode == "with_macro":
        return "tree:with_macro:body-reformatted", t
    return f"tree:{mode}:{edit}:{site}", t


# ---------------------------------------------------------------- one case


def _ref_bad_dedent(text):
    """Independent reference for the indentation family (plain Python skeletons, where the two
    languages coincide): CPython's own tokenizer refuses the text with 'unindent does not match
    any outer indentation level'.  TabError (tab/space ambiguity) is no verdict: xonsh's tokenizer
    deliberately counts a tab as 'to the next multiple of 8'."""
    import tokenize as pytok

    try:
        for _t in pytok.generate_tokens(io.StringIO(text).readline):
            pass
    except TabError:
        return False
    except IndentationError:
        return True
    except Exception:  # noqa: BLE001
        return False
    return False


def evaluate(src, file_path=False, tree_clause=True, indent_ref=False, cli_full=True):
    """Apply every clause of the statement to one program text.
    -> (flags dict, [violation dicts without 'case'])"""
    flags = {}
    viols = []
    toks, tokerr = _tokens(src)
    data = src.encode("utf-8")
    text = src
    if file_path or toks is None:
        # the CLI reads the file in text mode: the program the formatter (and xonsh) sees is the
        # universal-newline translation of the bytes
        text = src.replace("\r\n", "\n").replace("\r", "\n")
        if text != src:
            toks, tokerr = _tokens(text)
    if indent_ref and _ref_bad_dedent(text):
        flags["rejected_by_indent_reference"] = 1
        if toks is not None:
            # xonsh's own tokenizer lets through what the reference refuses
            flags["tokenizer_disagrees_with_indent_reference"] = 1
            toks, tokerr = None, "bad-dedent(CPython-reference)"
    if toks is None:
        flags["untokenisable"] = 1
        res = _fmt(text)
        if res[0] == "ok":
            viols.append(dict(key=f"reject:accepted:{tokerr}", clause="input that cannot be tokenised is rejected", observed={"format_source": res[1]}, expected=f"FormatError (tokenize raises {tokerr})"))
        if res == ("crash", "skipped-after-hangs"):
            flags["skipped_after_hangs"] = 1
            return flags, viols
        if res == ("crash", "hang"):
            viols.append(dict(key=f"reject:hang:{tokerr}", clause="input that cannot be tokenised is rejected with an error", observed=f"format_source did not return within {_FMT_TIMEOUT} s", expected=f"FormatError (tokenize raises {tokerr})"))
            return flags, viols
        _cli_clauses(data, text, None, viols, rejected=tokerr, full=cli_full)
        return flags, viols
    res = _fmt(text)
    if res[0] != "ok":
        flags["rejected" if res[0] == "reject" else "crashed"] = 1
        if res[0] == "crash":
            flags["crash:" + res[1]] = 1
            if res[1] == "skipped-after-hangs":
                flags["skipped_after_hangs"] = 1
        return flags, viols
    out = res[1]
    flags["accepted"] = 1
    if file_path:
        flags["cli"] = 1
        _cli_clauses(data, text, out, viols, full=cli_full)
    # idempotence
    res2 = _fmt(out)
    if res2 != res:
        feat = _by_feature(text, _idem_passes)
        if feat:
            key = f"idem:{feat}"
        elif res2[0] != "ok":
            key = f"idem:output-{res2[0]}:{res2[1] if res2[0] == 'crash' else ''}"
        else:
            edit, site = _edit_sig(out, res2[1], _hunks(out, res2[1])[0])
            if site == "at-whitespace-errortoken":
                key = "idem:whitespace-errortoken"
            elif site in ("continuation-line-start", "before-continuation", "line-break") and _repair_bs_ws(text) != text:
                # the first pass turned `\<blanks><newline>` into a real continuation, which the
                # second pass then lays out as one
                key = "idem:blanks-after-backslash"
            else:
                key = f"idem:{edit}:{site}"
        viols.append(dict(key=key, clause="formatting the output again changes nothing", observed={"fmt": out, "fmt_fmt": res2[1] if res2[0] == "ok" else list(res2)}, expected="fmt(fmt(s)) == fmt(s)"))
    # comments
    otoks, oerr = _tokens(out)
    ci = _comments(toks)
    if ci:
        flags["has_comment"] = 1
    co = None if otoks is None else _comments(otoks)
    if ci != co:
        feat = _by_feature(text, _comment_passes)
        if feat:
            key = f"comment:{feat}"
        elif co is None:
            key = f"comment:output-untokenisable:{oerr}"
        else:
            kind = "dropped" if len(co) < len(ci) else "added" if len(co) > len(ci) else "changed"
            hs = _hunks(text, out) or [(0, 0, 0, 0, "gap")]
            h = next((hh for hh in hs if "#" in text[hh[0] : hh[1]] or "#" in out[hh[2] : hh[3]]), hs[0])
            key = "comment:%s:%s:%s" % ((kind,) + _edit_sig(text, out, h))
        viols.append(dict(key=key, clause="comment text preserved (same sequence)", observed={"fmt": out, "comments": co}, expected={"comments": ci}))
    # tree
    if not tree_clause:
        return flags, viols
    tin = _parse(text)
    if tin[0] != "ok":
        flags["input_unparsable"] = 1
        return flags, viols
    flags["parsed"] = 1
    if tin[1] is not None and "__xonsh__" in tin[1]:
        flags["xonsh_nodes"] = 1
    if out != text:
        flags["changed"] = 1
    tout = _parse(out)
    if tout != tin:
        key, minimal = _tree_key(text, out, tin, tout)
        viols.append(
            dict(
                key=key,
                clause="output parses to the same tree as the input",
                observed={"fmt": out, "tree_fmt": tout[1] if tout[0] == "ok" else list(tout), "smallest_edit_that_changes_the_tree": minimal},
                expected={"tree_input": tin[1]},
            )
        )
    return flags, viols


# ---------------------------------------------------------------- exploration


def _case_rank(case):
    return (len(case.get("devs", [])) + (1 if "cut" in case else 0), len(case["src"]), case["src"])


def _do_form(item):
    """All layouts (<= k deviations) of one form, plus every prefix of its canonical rendering."""
    fi, part, nparts = item
    fam, core, text = _FORMS[fi]
    lines = space.parse_form(text)
    k = _KCORE if core else _K
    stats = {}
    best = {}  # key -> (rank, violation dict)
    counts = {}
    seen_src = set()
    memo = {}
    canon_text = space.render(lines, {})

    def ev(src, file_path, tree_clause=True):
        mk = (src, file_path, tree_clause)
        if mk not in memo:
            memo[mk] = evaluate(src, file_path=file_path, tree_clause=tree_clause, cli_full=src == canon_text)
        return memo[mk]

    def ev_devs(devs):
        d = dict(devs)
        src = space.render(lines, d)
        return src, ev(src, ("eol",) in d or ("final",) in d or not devs)

    def record(v, case, src):
        counts[v["key"]] = counts.get(v["key"], 0) + 1
        v = dict(v, case=dict(case, src=src))
        r = _case_rank(v["case"])
        if v["key"] not in best or r < best[v["key"]][0]:
            best[v["key"]] = (r, v)

    def tally(src, flags):
        stats["evaluations"] = stats.get("evaluations", 0) + 1
        if src not in seen_src:
            seen_src.add(src)
            stats["distinct"] = stats.get("distinct", 0) + 1
            for f in flags:
                stats[f] = stats.get(f, 0) + 1

    for idx, devs in enumerate(space.layouts(lines, k, prelude=core)):
        if idx % nparts != part:
            continue
        src, (flags, viols) = ev_devs(devs)
        tally(src, flags)
        if any(sid == ("prelude",) for sid, _a in devs):
            stats["prelude_cases"] = stats.get("prelude_cases", 0) + 1
            if "parsed" in flags:
                stats["prelude_cases_reaching_tree_comparison"] = stats.get("prelude_cases_reaching_tree_comparison", 0) + 1
        for v in viols:
            # minimise the layout first: drop every deviation the failure of this clause does not
            # need; the key is the one of the minimal failing layout (which is itself enumerated)
            clause = v["key"].split(":", 1)[0]
            cur, adopted = tuple(devs), None
            progress = True
            while progress:  # to a 1-minimal layout
                progress = False
                for d in cur:
                    trial = tuple(x for x in cur if x != d)
                    _s2, (_f2, v2s) = ev_devs(trial)
                    same = [w for w in v2s if w["key"].split(":", 1)[0] == clause]
                    if same:
                        cur, adopted, progress = trial, same[0], True
                        break
            if adopted is not None:
                stats["cases_reduced_to_smaller_layout"] = stats.get("cases_reduced_to_smaller_layout", 0) + 1
                record(adopted, {"form": text, "family": fam, "devs": space.devs_to_json(cur), "reduced_from": space.devs_to_json(devs)}, space.render(lines, dict(cur)))
            else:
                record(v, {"form": text, "family": fam, "devs": space.devs_to_json(devs)}, src)
    if part == 0 and core:
        canon = space.render(lines, {})
        for cut in range(1, len(canon) - 1):
            # prefixes are for the tokenisation clause (and idempotence / comments); their trees
            # are mostly accidents of where the cut fell, so the tree clause is not applied
            src = canon[:cut]
            flags, viols = ev(src, True, False)
            tally(src, flags)
            stats["prefix_cases"] = stats.get("prefix_cases", 0) + 1
            for v in viols:
                record(v, {"form": text, "family": fam, "devs": [], "cut": cut}, src)
    _parse_cache.clear()
    _fmt_cache.clear()
    return {"stats": stats, "viols": [b[1] for b in best.values()], "counts": counts}


_EXTRA = {}
_EXTRA_SHARDS = 16


def _eval_bytes(data: bytes):
    """A file that is not valid UTF-8 cannot be decoded, let alone tokenised: the rejection clause
    through the real CLI (bytes untouched in every mode, an error reported)."""
    flags, viols = {"undecodable": 1}, []
    try:
        data.decode("utf-8")
        return {"decodable": 1}, viols  # not a member of this family
    except UnicodeDecodeError:
        pass
    _cli_clauses(data, None, None, viols, rejected="undecodable-utf8", full=True)
    return flags, viols


def _do_extra(item):
    """One shard of the file-path (non-ASCII) family or of the indentation family."""
    fam, shard, nshards = item
    stats, best, counts = {}, {}, {}
    for idx, src in enumerate(_EXTRA[fam]):
        if idx % nshards != shard:
            continue
        if fam == "badbytes":
            flags, viols = _eval_bytes(src)
            raw, src = src, src.decode("utf-8", "backslashreplace")
        else:
            raw = None
            flags, viols = evaluate(src, file_path=True, indent_ref=(fam == "indent"))
        stats["evaluations"] = stats.get("evaluations", 0) + 1
        stats["distinct"] = stats.get("distinct", 0) + 1
        stats[fam + "_cases"] = stats.get(fam + "_cases", 0) + 1
        for f in flags:
            stats[f] = stats.get(f, 0) + 1
        for v in viols:
            counts[v["key"]] = counts.get(v["key"], 0) + 1
            v = dict(v, case={"family": fam, "devs": [], "src": src, **({"bytes_hex": raw.hex()} if raw is not None else {})})
            r = _case_rank(v["case"])
            if v["key"] not in best or r < best[v["key"]][0]:
                best[v["key"]] = (r, v)
    _parse_cache.clear()
    _fmt_cache.clear()
    return {"stats": stats, "viols": [b[1] for b in best.values()], "counts": counts}


def _do_item(item):
    return _do_extra(item) if isinstance(item[0], str) else _do_form(item)


def _configure(ctx):
    global _FORMS, _K, _KCORE, _NPARTS
    _FORMS = [(fam, core, text) for fam, core, quick, text in space.forms() if ctx.thorough or quick]
    _K = 1
    _KCORE = 2 if ctx.thorough else 1
    _NPARTS = 8 if ctx.thorough else 1
    _EXTRA["uni"] = space.uni_sources()
    _EXTRA["indent"] = space.indent_sources(ctx.thorough)
    _EXTRA["badbytes"] = space.badbyte_sources()


def run(ctx):
    from .tables import ensure_tables

    ensure_tables(completion=False)
    _configure(ctx)
    items = []
    for fi in range(len(_FORMS)):
        nparts = _NPARTS if _FORMS[fi][1] else 1
        items += [(fi, p, nparts) for p in range(nparts)]
    ctx.log(f"{len(_FORMS)} forms ({sum(1 for f in _FORMS if f[1])} core at k={_KCORE}, rest at k={_K}); {len(items)} work items")
    items += [(fam, sh, _EXTRA_SHARDS) for fam in ("uni", "indent", "badbytes") for sh in range(_EXTRA_SHARDS)]
    res = common.pmap(_do_item, items, ctx.jobs, chunk=1, init=_init_worker, seed=ctx.seed)
    stats = {}
    counts = {}
    best = {}
    for r in res:
        for k_, v in r["stats"].items():
            stats[k_] = stats.get(k_, 0) + v
        for k_, v in r["counts"].items():
            counts[k_] = counts.get(k_, 0) + v
        for v in r["viols"]:
            rk = _case_rank(v["case"])
            if v["key"] not in best or rk < best[v["key"]][0]:
                best[v["key"]] = (rk, v)
    for key in sorted(best):
        v = best[key][1]
        v["note"] = f"{counts[key]} explored case(s) share this key"
        ctx.add_violations([v])
    fams = {}
    for fam, _core, _t in _FORMS:
        fams[fam] = fams.get(fam, 0) + 1
    for fi in common.pick_samples(range(len(_FORMS)), ctx.seed, 6):
        lines = space.parse_form(_FORMS[fi][2])
        lay = list(space.layouts(lines, 1))
        devs = lay[(ctx.seed * 7 + fi * 13) % len(lay)]
        ctx.sample({"form": _FORMS[fi][2], "devs": space.devs_to_json(devs), "src": space.render(lines, dict(devs))})
    crash_kinds = sorted(k_ for k_ in stats if k_.startswith("crash:"))
    ctx.coverage.update(
        evaluations=stats.get("evaluations", 0),
        distinct_nontrivial=stats.get("parsed", 0),
        rule=(
            f"{len(_FORMS)} forms {fams} (expressions x contexts, simple/compound/xonsh statements x block contexts up to depth 2); "
            f"every layout with <= k deviations over the alphabet of xv/c17_space.py (gaps: {len(space.GAP_OUT)} outside + {len(space.GAP_IN)} inside brackets, "
            f"{len(space.PRE)} pre-line, {len(space.POST)} post-line, {len(space.INDENTS)} indent units, CRLF, {len(space.FINALS)} file endings; for core forms also "
            f"{len(space.PRELUDES)} preludes = one of {len(space.LINESEP_CHARS)} characters that str.splitlines() but not the tokenizer treats as a line boundary (FF VT FS NEL U+2028) "
            f"x {len(space.PRELUDE_PLACES)} places (one-line string, triple-quoted string, comment, leading white space), followed by the form and a tail of line-look-up dependent constructs); k={_K} for all forms, "
            f"k={_KCORE} for the core forms (pairs over the reduced alphabet); plus every proper prefix of each core form's canonical text (tokenisation clause); "
            f"plus {len(_EXTRA['uni'])} non-ASCII sources ({len(space.UNI_LINES)+1} pre x {len(space.UNI_BODIES)} bodies x {len(space.UNI_LINES)+1} post lines with 2/3/4-byte characters) and every "
            f"canonical / CRLF / file-ending / prefix case through the real CLI on a real file in --check, --diff, in-place and in-place-again mode; "
            f"plus {len(_EXTRA['indent'])} indentation sequences (3..5 lines over columns 0 2 4 8 and tab) judged against CPython's tokenizer; "
            f"plus {len(_EXTRA['badbytes'])} undecodable files ({len(space.BAD_BYTES)} invalid UTF-8 sequences x {len(space.BAD_PLACES)} places x {len(space.BAD_BODIES)} bodies, before / after) through the CLI's rejection clause. "
            "non-trivial = distinct program texts that xonsh's parser accepted, i.e. that reached the tree comparison"
        ),
        exhaustive=not stats.get("skipped_after_hangs", 0),
        caps_hit=(["formatter hang budget: %d cases skipped" % stats["skipped_after_hangs"]] if stats.get("skipped_after_hangs") else []),
        forms=len(_FORMS),
        distinct_programs=stats.get("distinct", 0),
        accepted_by_formatter=stats.get("accepted", 0),
        rejected_FormatError=stats.get("rejected", 0),
        untokenisable_inputs=stats.get("untokenisable", 0),
        formatter_internal_errors=stats.get("crashed", 0),
        formatter_internal_error_kinds=crash_kinds,
        input_unparsable_out_of_scope=stats.get("input_unparsable", 0),
        reached_tree_comparison=stats.get("parsed", 0),
        with_xonsh_nodes=stats.get("xonsh_nodes", 0),
        changed_by_formatter=stats.get("changed", 0),
        with_comments=stats.get("has_comment", 0),
        through_cli_file=stats.get("cli", 0),
        nonascii_file_path_cases=stats.get("uni_cases", 0),
        undecodable_file_cases=stats.get("badbytes_cases", 0),
        indentation_sequence_cases=stats.get("indent_cases", 0),
        indentation_cases_refused_by_cpython_reference=stats.get("rejected_by_indent_reference", 0),
        indentation_cases_where_xonsh_tokenizer_disagrees_with_reference=stats.get("tokenizer_disagrees_with_indent_reference", 0),
        linesep_prelude_cases=stats.get("prelude_cases", 0),
        linesep_prelude_cases_reaching_tree_comparison=stats.get("prelude_cases_reaching_tree_comparison", 0),
        prefix_cases=stats.get("prefix_cases", 0),
        failing_cases_reduced_to_smaller_layout=stats.get("cases_reduced_to_smaller_layout", 0),
        violating_cases_by_key=counts,
        bounds={"k_all": _K, "k_core": _KCORE},
    )
    ctx.assumptions += [
        ("all names are unbound (XV_C17_CTX=empty)" if not _CTX else "the grammar's variables (a b c x y f ...) are bound names and command words (ls echo cmd ...) are not, as in a real program; Execer.parse gets ctx=that set")
        + ": xonsh's parser decides Python-or-subprocess per line from the bound names",
        "'cannot be tokenised' is defined by xonsh.parsers.tokenize.tokenize(tolerant=False) raising",
        "small-scope hypothesis: defects need at most k simultaneous layout deviations in one of the enumerated forms",
    ]


def replay(rec):
    from .tables import ensure_tables

    ensure_tables(completion=False)
    _init_worker()
    case = rec["case"]
    src = case["src"]
    if "bytes_hex" in case:
        data = bytes.fromhex(case["bytes_hex"])
        flags, viols = _eval_bytes(data)
        print("file bytes:", data)
        for v in viols:
            print("violation key:", v["key"], "| observed:", common.jdump(v["observed"]), "| expected:", v["expected"])
        if not viols:
            print("no clause violated")
        return 1 if any(v["key"] == rec["key"] for v in viols) else 0
    if "form" in case and "cut" not in case:
        lines = space.parse_form(case["form"])
        again = space.render(lines, dict(space.devs_from_json(case["devs"])))
        if again != src:
            print("note: the recorded layout no longer renders to the recorded text; replaying the recorded text")
    d = dict(space.devs_from_json(case.get("devs", [])))
    file_path = ("eol",) in d or ("final",) in d or not d or "cut" in case
    flags, viols = evaluate(src, file_path=file_path, tree_clause="cut" not in case, indent_ref=case.get("family") == "indent")
    print("input   :", repr(src))
    print("fmt     :", repr(_fmt(src.replace("\r\n", "\n") if file_path else src)))
    hit = [v for v in viols if v["key"] == rec["key"]]
    for v in viols:
        print("violation key:", v["key"])
        print("  clause  :", v["clause"])
        print("  observed:", common.jdump(v["observed"]))
        print("  expected:", common.jdump(v["expected"]))
    if not viols:
        print("no clause violated")
    return 1 if hit else 0
