"""C17 - `xonsh format` never changes what a program means, and is idempotent.

Bounded-exhaustive exploration of the real formatter (xonsh.formatter.core.format_source and the
CLI's per-file function) over  forms x layouts:  a small Python statement grammar UNION the xonsh
forms (subprocess lines, captures, macros, with!-blocks, env assignment, chains), each rendered
under every layout with at most k deviations from the canonical one (see xv/c17_space.py).

Oracle (from the statement):
  reject   input that xonsh's tokenizer (tolerant=False) cannot tokenise must not be accepted, and the
           CLI must leave the file's bytes alone;
  idem     fmt(fmt(s)) == fmt(s) (and fmt(s) must itself be accepted);
  comment  the comment token texts of s and fmt(s) are the same sequence;
  tree     when s parses with xonsh's own three-phase parser (Execer.parse(s, ctx=set())), fmt(s)
           parses too and to the same tree under a location-free dump (ast.dump without attributes:
           string constants, macro raw texts and subprocess argument strings are repr()ed, i.e.
           compared byte for byte).

Does NOT require (never flagged):
  * any particular style of the output (spacing, indent width, blank-line caps, quote style);
  * that un-parsable-but-tokenisable input stays un-parsable, or anything about its tree;
  * that the formatter accepts every tokenisable input (it may reject with FormatError; an internal
    exception is counted in the evidence but is not a violation of this statement);
  * blanks *after* a comment's text or before its '#' to be kept (comment texts are compared after
    strip());
  * CR LF line ends to survive: files are read in text mode by both `xonsh format` and xonsh's
    script loader, so CRLF layouts go through the CLI file path and are compared after universal
    newline translation;
  * --check/--diff behaviour, exit codes, messages.
"""

import ast
import difflib
import io
import os
import signal

from . import common
from . import c17_space as space

LEVEL = "exploration"

_EX = None
_FMT = None
_FORMS = None
_K = 1
_KCORE = 1
_SCRATCH = None
_NPARTS = 1


class _Timeout(Exception):
    pass


def _alarm(signum, frame):
    raise _Timeout()


def _init_worker():
    global _EX, _FMT, _SCRATCH
    from .session import load_session
    from .tables import ensure_tables

    ensure_tables(completion=False)
    _SCRATCH = common.scratch_dir("c17")
    xsh = load_session(data_dir=_SCRATCH, path=[_SCRATCH])
    _EX = xsh.execer
    import xonsh.formatter.core as core

    _FMT = core
    signal.signal(signal.SIGALRM, _alarm)


# ---------------------------------------------------------------- observation primitives

_parse_cache = {}


def _parse(text):
    """('ok', dump|None) | ('err', kind).  The real three-phase parse with an empty context."""
    hit = _parse_cache.get(text)
    if hit is not None:
        return hit
    signal.setitimer(signal.ITIMER_REAL, 10.0)
    try:
        tree = _EX.parse(text, ctx=set())
        res = ("ok", None if tree is None else ast.dump(tree))
    except _Timeout:
        res = ("err", "hang>10s")
    except SyntaxError:
        res = ("err", "SyntaxError")
    except RecursionError:
        res = ("err", "RecursionError")
    except Exception as e:  # noqa: BLE001 - the parser's recovery loop has its own crashes; out of scope here
        res = ("err", type(e).__name__)
    finally:
        signal.setitimer(signal.ITIMER_REAL, 0)
    if len(_parse_cache) > 20000:
        _parse_cache.clear()
    _parse_cache[text] = res
    return res


def _tokens(text):
    """(tokens | None, error name).  None = cannot be tokenised (the statement's 'rejected' class)."""
    from xonsh.parsers.tokenize import tokenize

    src = text if (not text or text.endswith("\n")) else text + "\n"
    try:
        return list(tokenize(io.BytesIO(src.encode("utf-8")).readline, tolerant=False)), ""
    except Exception as e:  # noqa: BLE001
        return None, type(e).__name__


_fmt_cache = {}


def _fmt(text):
    """('ok', out) | ('reject', msg) | ('crash', exc name)"""
    hit = _fmt_cache.get(text)
    if hit is not None:
        return hit
    signal.setitimer(signal.ITIMER_REAL, 10.0)
    try:
        res = ("ok", _FMT.format_source(text))
    except _FMT.FormatError as e:
        res = ("reject", str(e)[:80])
    except _Timeout:
        res = ("crash", "hang>10s")
    except Exception as e:  # noqa: BLE001
        res = ("crash", type(e).__name__)
    finally:
        signal.setitimer(signal.ITIMER_REAL, 0)
    if len(_fmt_cache) > 20000:
        _fmt_cache.clear()
    _fmt_cache[text] = res
    return res


def _comments(toks):
    from xonsh.parsers.tokenize import COMMENT

    return [t.string.strip() for t in toks if t.type == COMMENT]


def _cli_file(data: bytes):
    """Run the CLI's per-file function on a scratch file holding `data`.
    -> (outcome, bytes after).  outcome: 'changed'|'unchanged'|'FormatError'|other exception name."""
    import argparse
    import contextlib

    import xonsh.formatter.cli as cli

    path = os.path.join(_SCRATCH, "case.xsh")
    with open(path, "wb") as f:
        f.write(data)
    args = argparse.Namespace(check=False, diff=False, quiet=True, files=[path])
    fn = getattr(cli, "_process_one", None)
    try:
        with contextlib.redirect_stderr(io.StringIO()), contextlib.redirect_stdout(io.StringIO()):
            if fn is not None:
                rc = fn(path, args)
                outcome = "changed" if rc else "unchanged"
            else:  # fall back to the whole CLI
                rc = cli.main(["-q", path])
                outcome = "FormatError" if rc == cli.EXIT_ERROR else "ran"
    except cli.FormatError:
        outcome = "FormatError"
    except UnicodeDecodeError:
        outcome = "UnicodeDecodeError"
    except Exception as e:  # noqa: BLE001
        outcome = type(e).__name__
    with open(path, "rb") as f:
        after = f.read()
    return outcome, after


# ---------------------------------------------------------------- failure signatures (root-cause keys)


def _cls(s):
    """class of an inserted / deleted piece of text"""
    if s == "":
        return "0"
    if s.strip(" \t") == "":
        return "sp"
    if s.strip(" \t\r\n") == "":
        return "nl"
    if s.strip(" \t\r\n\\") == "":
        return "bsnl"
    if s.lstrip(" \t").startswith("#"):
        return "cmt"
    return "txt"


def _hunks(a, b):
    sm = difflib.SequenceMatcher(None, a, b, autojunk=False)
    return [(i1, i2, j1, j2) for tag, i1, i2, j1, j2 in sm.get_opcodes() if tag != "equal"]


def _apply(a, b, hunks):
    out = []
    pos = 0
    for i1, i2, j1, j2 in hunks:
        out.append(a[pos:i1])
        out.append(b[j1:j2])
        pos = i2
    out.append(a[pos:])
    return "".join(out)


_KW = None


def _abstract(tok):
    from xonsh.parsers import tokenize as T
    import keyword

    if tok is None:
        return "^"
    t, s = tok.type, tok.string
    if t == T.NAME:
        return s if keyword.iskeyword(s) else "NAME"
    if t == T.NUMBER:
        return "NUM"
    if t == T.STRING:
        return "STR"
    if t in (T.NEWLINE, T.NL):
        return "EOL"
    if t == T.COMMENT:
        return "CMT"
    if t in (T.INDENT, T.DEDENT):
        return "IND"
    if t == T.ENDMARKER:
        return "EOF"
    name = T.tok_name.get(t, str(t))
    if name in ("OP", "ERRORTOKEN"):
        return s.replace("\r", "").replace("\n", "N").replace(" ", "_") or name
    return name


def _locate(text, i1, i2):
    """Describe position [i1,i2) of `text` lexically: (left, right, bracket, inside)."""
    from xonsh.parsers import tokenize as T

    toks, _ = _tokens(text)
    if toks is None:
        return ("?", "?", "?", "")
    src = text if text.endswith("\n") else text + "\n"
    starts = [0]
    for ln in src.split("\n")[:-1]:
        starts.append(starts[-1] + len(ln) + 1)

    def off(pos):
        ln, col = pos
        return starts[ln - 1] + col if 0 < ln <= len(starts) else len(src)

    openers = {"(", "[", "{", "$(", "$[", "${", "!(", "![", "@(", "@!(", "@$("}
    left = right = None
    inside = ""
    stack = []
    for t in toks:
        if t.type in (T.ENCODING, T.INDENT, T.DEDENT):
            continue
        if t.string == "" and t.type != T.ENDMARKER:
            continue
        s, e = off(t.start), off(t.end)
        if e < s:
            continue
        if t.type in (T.STRING, T.COMMENT, T.FSTRING_MIDDLE):
            if (i1 < i2 and max(i1, s) < min(i2, e)) or (i1 == i2 and s < i1 < e):
                inside = T.tok_name.get(t.type, "?")
        if e <= i1:
            left = t
            if t.type == T.OP:
                if t.string in openers:
                    stack.append(t.string)
                elif t.string in (")", "]", "}") and stack:
                    stack.pop()
        elif right is None and s >= i2:
            right = t
    brk = stack[-1] if stack else "-"
    if inside:
        return ("", "", brk, inside)
    return (_abstract(left), _abstract(right), brk, "")


_HELPERS = (
    "enter_macro",
    "call_macro",
    "subproc_captured_stdout",
    "subproc_captured_inject",
    "subproc_captured_object",
    "subproc_captured_hiddenobject",
    "subproc_uncaptured",
    "path_literal",
    "env",
    "pathsearch",
    "regexsearch",
    "glob",
    "eval_fstring_field",
    "help",
    "superhelp",
)


def _ast_ctx(src_a, src_b):
    """Innermost xonsh helper call that encloses the first difference of the two trees."""
    try:
        ta = _EX.parse(src_a, ctx=set())
        tb = _EX.parse(src_b, ctx=set())
    except Exception:  # noqa: BLE001
        return "noparse"
    if ta is None or tb is None:
        return "empty"

    def helper(node):
        if isinstance(node, ast.Call) and isinstance(node.func, ast.Attribute) and isinstance(node.func.value, ast.Name) and node.func.value.id == "__xonsh__":
            return node.func.attr
        return None

    def walk(a, b, ctx):
        if type(a) is not type(b):
            return ctx + ":" + type(a).__name__ + "/" + type(b).__name__
        if isinstance(a, ast.AST):
            h = helper(a)
            if h is not None and h == helper(b) and h in _HELPERS:
                ctx = h
            for f in a._fields:
                r = walk(getattr(a, f, None), getattr(b, f, None), ctx)
                if r:
                    return r
            return None
        if isinstance(a, list):
            if len(a) != len(b):
                return ctx + ":len"
            for x, y in zip(a, b):
                r = walk(x, y, ctx)
                if r:
                    return r
            return None
        if a != b:
            return ctx + ":" + type(a).__name__
        return None

    return walk(ta, tb, "py") or "same"


def _culprit(src, out, bad):
    """First single hunk of diff(src, out) whose application alone makes `bad` true; falls back
    to the shortest bad prefix of hunks.  -> (hunk, applied text, 'single'|'prefix'|'all')"""
    hs = _hunks(src, out)
    for h in hs:
        t = _apply(src, out, [h])
        if bad(t):
            return h, t, "single"
    for j in range(2, len(hs) + 1):
        t = _apply(src, out, hs[:j])
        if bad(t):
            return hs[j - 1], t, "prefix"
    return (hs[-1] if hs else (0, 0, 0, 0)), out, "all"


def _hunk_sig(src, out, h):
    i1, i2, j1, j2 = h
    left, right, brk, inside = _locate(src, i1, i2)
    op = f"{_cls(src[i1:i2])}>{_cls(out[j1:j2])}"
    where = f"in-{inside}" if inside else f"{left}|{right}"
    return f"{op}:{where}:{brk}"


def _tree_key(src, out, tin, tout):
    if tout[0] != "ok":
        def bad(t):
            return _parse(t)[0] != "ok"
        h, t, how = _culprit(src, out, bad)
        return f"tree:output-unparsable:{_hunk_sig(src, out, h)}", t
    def bad(t):  # noqa: E306
        return _parse(t) != tin
    h, t, how = _culprit(src, out, bad)
    return f"tree:{_ast_ctx(src, t)}:{_hunk_sig(src, out, h)}", t


# ---------------------------------------------------------------- one case


def evaluate(src, file_path=False):
    """Apply every clause of the statement to one program text.
    -> (flags dict, [violation dicts without 'case'])"""
    flags = {}
    viols = []
    toks, tokerr = _tokens(src)
    data = src.encode("utf-8")
    text = src
    if file_path or toks is None:
        # the CLI reads the file in text mode: the program the formatter (and xonsh) sees is the
        # universal-newline translation of the bytes
        text = src.replace("\r\n", "\n").replace("\r", "\n")
        if text != src:
            toks, tokerr = _tokens(text)
    if toks is None:
        flags["untokenisable"] = 1
        res = _fmt(text)
        if res[0] == "ok":
            viols.append(dict(key=f"reject:accepted:{tokerr}", clause="input that cannot be tokenised is rejected", observed={"format_source": res[1]}, expected=f"FormatError (tokenize raises {tokerr})"))
        outcome, after = _cli_file(data)
        if after != data:
            viols.append(dict(key=f"reject:file-rewritten:{tokerr}", clause="rejected input is never rewritten", observed={"cli": outcome, "bytes_after": after.decode("utf-8", "replace")}, expected="file bytes unchanged"))
        return flags, viols
    res = _fmt(text)
    if res[0] != "ok":
        flags["rejected" if res[0] == "reject" else "crashed"] = 1
        if res[0] == "crash":
            flags["crash:" + res[1]] = 1
        return flags, viols
    out = res[1]
    flags["accepted"] = 1
    if file_path:
        outcome, after = _cli_file(data)
        flags["cli"] = 1
        got = after.decode("utf-8", "replace")
        want = out if outcome == "changed" else text
        if outcome not in ("changed", "unchanged") or (outcome == "changed" and got != out) or (outcome == "unchanged" and (after != data or out != text)):
            viols.append(dict(key=f"cli:file-differs-from-format_source:{outcome}", clause="the CLI writes exactly format_source's result (or nothing)", observed={"cli": outcome, "file": got}, expected=want))
    # idempotence
    res2 = _fmt(out)
    if res2[0] != "ok":
        viols.append(dict(key=f"idem:output-{res2[0]}:{res2[1] if res2[0] == 'crash' else ''}", clause="formatting the output again changes nothing", observed={"fmt": out, "fmt_fmt": list(res2)}, expected="fmt(fmt(s)) == fmt(s)"))
    elif res2[1] != out:
        hs = _hunks(out, res2[1])
        viols.append(dict(key=f"idem:{_hunk_sig(out, res2[1], hs[0])}", clause="formatting the output again changes nothing", observed={"fmt": out, "fmt_fmt": res2[1]}, expected="fmt(fmt(s)) == fmt(s)"))
    # comments
    otoks, oerr = _tokens(out)
    if otoks is None:
        viols.append(dict(key=f"comment:output-untokenisable:{oerr}", clause="comment text preserved", observed={"fmt": out}, expected="tokenisable output"))
    else:
        ci, co = _comments(toks), _comments(otoks)
        if ci:
            flags["has_comment"] = 1
        if ci != co:
            kind = "dropped" if len(co) < len(ci) else "added" if len(co) > len(ci) else "changed"
            h = (_hunks(text, out) or [(0, 0, 0, 0)])[0]
            for hh in _hunks(text, out):
                if "#" in text[hh[0] : hh[1]] or "#" in out[hh[2] : hh[3]]:
                    h = hh
                    break
            viols.append(dict(key=f"comment:{kind}:{_hunk_sig(text, out, h)}", clause="comment text preserved (same sequence)", observed={"fmt": out, "comments": co}, expected={"comments": ci}))
    # tree
    tin = _parse(text)
    if tin[0] != "ok":
        flags["input_unparsable"] = 1
        return flags, viols
    flags["parsed"] = 1
    if tin[1] is not None and "__xonsh__" in tin[1]:
        flags["xonsh_nodes"] = 1
    if out != text:
        flags["changed"] = 1
    tout = _parse(out)
    if tout != tin:
        key, minimal = _tree_key(text, out, tin, tout)
        viols.append(
            dict(
                key=key,
                clause="output parses to the same tree as the input",
                observed={"fmt": out, "tree_fmt": tout[1] if tout[0] == "ok" else list(tout), "single_edit_that_changes_the_tree": minimal},
                expected={"tree_input": tin[1]},
            )
        )
    return flags, viols


# ---------------------------------------------------------------- exploration


def _case_rank(case):
    return (len(case.get("devs", [])) + (1 if "cut" in case else 0), len(case["src"]), case["src"])


def _do_form(item):
    """All layouts (<= k deviations) of one form, plus every prefix of its canonical rendering."""
    fi, part = item
    fam, core, text = _FORMS[fi]
    lines = space.parse_form(text)
    k = _KCORE if core else _K
    stats = {}
    best = {}  # key -> (rank, violation dict)
    counts = {}
    seen_src = set()
    n = 0

    def run_one(src, case, file_path):
        flags, viols = evaluate(src, file_path=file_path)
        stats["evaluations"] = stats.get("evaluations", 0) + 1
        if src not in seen_src:
            seen_src.add(src)
            stats["distinct"] = stats.get("distinct", 0) + 1
            for f in flags:
                stats[f] = stats.get(f, 0) + 1
        for v in viols:
            counts[v["key"]] = counts.get(v["key"], 0) + 1
            v["case"] = dict(case, src=src)
            r = _case_rank(v["case"])
            if v["key"] not in best or r < best[v["key"]][0]:
                best[v["key"]] = (r, v)

    for idx, devs in enumerate(space.layouts(lines, k)):
        if idx % _NPARTS != part:
            continue
        d = dict(devs)
        src = space.render(lines, d)
        file_path = ("eol",) in d or ("final",) in d or not devs
        run_one(src, {"form": text, "family": fam, "devs": space.devs_to_json(devs)}, file_path)
        n += 1
    if part == 0 and core:
        canon = space.render(lines, {})
        for cut in range(1, len(canon) - 1):
            run_one(canon[:cut], {"form": text, "family": fam, "devs": [], "cut": cut}, True)
    _parse_cache.clear()
    _fmt_cache.clear()
    return {"stats": stats, "viols": [b[1] for b in best.values()], "counts": counts}


def _configure(ctx):
    global _FORMS, _K, _KCORE, _NPARTS
    _FORMS = space.forms(ctx.thorough)
    _K = 1
    _KCORE = 2 if ctx.thorough else 1
    _NPARTS = 8 if ctx.thorough else 1


def run(ctx):
    from .tables import ensure_tables

    ensure_tables(completion=False)
    _configure(ctx)
    items = [(fi, p) for fi in range(len(_FORMS)) for p in range(_NPARTS if _FORMS[fi][1] else 1)]
    ctx.log(f"{len(_FORMS)} forms ({sum(1 for f in _FORMS if f[1])} core at k={_KCORE}, rest at k={_K}); {len(items)} work items")
    res = common.pmap(_do_form, items, ctx.jobs, chunk=1, init=_init_worker, seed=ctx.seed)
    stats = {}
    counts = {}
    best = {}
    for r in res:
        for k_, v in r["stats"].items():
            stats[k_] = stats.get(k_, 0) + v
        for k_, v in r["counts"].items():
            counts[k_] = counts.get(k_, 0) + v
        for v in r["viols"]:
            rk = _case_rank(v["case"])
            if v["key"] not in best or rk < best[v["key"]][0]:
                best[v["key"]] = (rk, v)
    for key in sorted(best):
        v = best[key][1]
        v["note"] = f"{counts[key]} explored case(s) share this key"
        ctx.add_violations([v])
    fams = {}
    for fam, _core, _t in _FORMS:
        fams[fam] = fams.get(fam, 0) + 1
    for fi in common.pick_samples(range(len(_FORMS)), ctx.seed, 6):
        lines = space.parse_form(_FORMS[fi][2])
        lay = list(space.layouts(lines, 1))
        devs = lay[(ctx.seed * 7 + fi * 13) % len(lay)]
        ctx.sample({"form": _FORMS[fi][2], "devs": space.devs_to_json(devs), "src": space.render(lines, dict(devs))})
    crash_kinds = sorted(k_ for k_ in stats if k_.startswith("crash:"))
    ctx.coverage.update(
        evaluations=stats.get("evaluations", 0),
        distinct_nontrivial=stats.get("parsed", 0),
        rule=(
            f"{len(_FORMS)} forms {fams} (expressions x contexts, simple/compound/xonsh statements x block contexts up to depth 2); "
            f"every layout with <= k deviations over the alphabet of xv/c17_space.py (gaps: {len(space.GAP_OUT)} outside + {len(space.GAP_IN)} inside brackets, "
            f"{len(space.PRE)} pre-line, {len(space.POST)} post-line, {len(space.INDENTS)} indent units, CRLF, {len(space.FINALS)} file endings); k={_K} for all forms, "
            f"k={_KCORE} for the core forms (pairs over the reduced alphabet); plus every proper prefix of each core form's canonical text (tokenisation clause). "
            "non-trivial = distinct program texts that xonsh's parser accepted, i.e. that reached the tree comparison"
        ),
        exhaustive=True,
        forms=len(_FORMS),
        distinct_programs=stats.get("distinct", 0),
        accepted_by_formatter=stats.get("accepted", 0),
        rejected_FormatError=stats.get("rejected", 0),
        untokenisable_inputs=stats.get("untokenisable", 0),
        formatter_internal_errors=stats.get("crashed", 0),
        formatter_internal_error_kinds=crash_kinds,
        input_unparsable_out_of_scope=stats.get("input_unparsable", 0),
        reached_tree_comparison=stats.get("parsed", 0),
        with_xonsh_nodes=stats.get("xonsh_nodes", 0),
        changed_by_formatter=stats.get("changed", 0),
        with_comments=stats.get("has_comment", 0),
        through_cli_file=stats.get("cli", 0),
        violating_cases_by_key=counts,
        bounds={"k_all": _K, "k_core": _KCORE},
    )
    ctx.assumptions += [
        "names are unbound (ctx=set()): every line that can be a subprocess command is parsed as one - the most whitespace-sensitive reading",
        "'cannot be tokenised' is defined by xonsh.parsers.tokenize.tokenize(tolerant=False) raising",
        "small-scope hypothesis: defects need at most k simultaneous layout deviations in one of the enumerated forms",
    ]


def replay(rec):
    from .tables import ensure_tables

    ensure_tables(completion=False)
    _init_worker()
    case = rec["case"]
    src = case["src"]
    if "form" in case and "cut" not in case:
        lines = space.parse_form(case["form"])
        again = space.render(lines, dict(space.devs_from_json(case["devs"])))
        if again != src:
            print("note: the recorded layout no longer renders to the recorded text; replaying the recorded text")
    d = dict(space.devs_from_json(case.get("devs", [])))
    file_path = ("eol",) in d or ("final",) in d or not d or "cut" in case
    flags, viols = evaluate(src, file_path=file_path)
    print("input   :", repr(src))
    print("fmt     :", repr(_fmt(src.replace("\r\n", "\n") if file_path else src)))
    hit = [v for v in viols if v["key"] == rec["key"]]
    for v in viols:
        print("violation key:", v["key"])
        print("  clause  :", v["clause"])
        print("  observed:", common.jdump(v["observed"]))
        print("  expected:", common.jdump(v["expected"]))
    if not viols:
        print("no clause violated")
    return 1 if hit else 0
