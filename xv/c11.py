"""C11 - scoped environment changes are exactly undone and never leak across threads.

Part 1 (seqx): BFS over a scope language (swap / overlay / DELETE_VAR mask / exit by return or by
exception / non-scoped set and delete of *other* variables / live mutation of the top overlay) on a
real Env; on every state all six read paths are compared with a reference stack of dict layers and
with each other, and a fresh thread checks that nothing of the scopes is visible elsewhere.
Part 2 (schedules) lives in xv/c11_sched.py (pysched).

Does not require: any particular behaviour for a non-scoped assignment/delete of a variable that an
active scope currently overrides (the statement only speaks about *other* variables); which of
swap/overlay wins when both override one key is taken from the documented layering (an overlay
shadows swapped values - swap() docstring)."""

import threading

from . import common, seqx

LEVEL = "model_checking"

SYNC = "XONSH_SUBPROC_CMD_RAISE_ERROR"  # registered bool with default whose value is mirrored into ...
PARTNER = "RAISE_SUBPROC_ERROR"  # ... this deprecated alias by the `sync=` mechanism
KEYS = ["FOO", "BAR", "AUTO_CD", SYNC]
OBSERVED = KEYS + [PARTNER]
# FOO: plain, set globally; BAR: plain, unset; AUTO_CD: registered bool with default; SYNC: bool + synced alias
SCOPE_VALS = {"FOO": ["s", ""], "BAR": ["s"], "AUTO_CD": [True, False], SYNC: [True]}  # incl. falsy scoped values
OVERLAY_KEYS = ["FOO", "BAR"]  # alias overlays are plain dict layers: two plain keys suffice
SET_VALS = {"FOO": ["n"], "BAR": ["n"], "AUTO_CD": [True], SYNC: [True]}
DEL = "<DELETE_VAR>"
ABSENT = "<absent>"
MAXNEST = 3


def _events():
    evs = []
    for k in KEYS:
        for v in SCOPE_VALS[k] + [DEL]:
            evs.append(["swap", k, v])
            if k in OVERLAY_KEYS:
                evs.append(["overlay", k, v])
    # one key given twice (positional mapping and keyword), and a scope whose entry fails half-way
    # (the second variable's conversion raises): nothing of a scope that never existed may stay
    evs.append(["swapdup", "FOO", "s1", "s2"])
    evs.append(["swapfail", "FOO", "s"])
    evs.append(["exit", "return"])
    evs.append(["exit", "raise"])
    evs.append(["exit", "raise-base"])  # SystemExit / KeyboardInterrupt: `exit` inside an alias, ctrl-c
    for k in KEYS:
        for v in SET_VALS[k]:
            evs.append(["set", k, v])
        evs.append(["del", k])
        if k in OVERLAY_KEYS:
            evs.append(["ovset", k, SCOPE_VALS[k][0]])
    return evs


class _Boom(Exception):
    pass


class _BaseBoom(BaseException):
    pass


class Harness:
    def __init__(self):
        from xonsh.environ import DELETE_VAR, Env

        self.Env = Env
        self.DELETE_VAR = DELETE_VAR
        self.events = _events()

    def reset(self):
        self.env = self.Env({"FOO": "g", "UPDATE_OS_ENVIRON": False, "PATH": []})
        self.cms = []  # live context managers, innermost last
        self.ovs = []  # overlay dict per scope or None
        # reference: base mapping + stack of (kind, dict)
        self.base = {"FOO": "g"}
        self.scopes = []
        self.defaults = {"AUTO_CD": False, SYNC: False, PARTNER: False}
        self.counter = 0
        self._obs = None

    # ------------------------------------------------------------ reference
    def m_read(self, k):
        partner = k == PARTNER
        if partner:
            k = SYNC  # the alias mirrors the canonical variable wherever the `sync=` mechanism runs:
            # assignments and swaps - an alias overlay is a plain dict layer and mirrors nothing
        # documented layering: overlays (innermost first) shadow swaps (innermost first) shadow global
        for kind, d in reversed(self.scopes):
            if kind == "overlay" and k in d and not partner:
                return ABSENT if d[k] == DEL else d[k]
        for kind, d in reversed(self.scopes):
            if kind == "swap" and k in d:
                if partner and d[k] == DEL:
                    continue  # a DELETE_VAR mask is not mirrored into the sync partner
                return ABSENT if d[k] == DEL else d[k]
        if k in self.base:
            return self.base[k]
        if k in self.defaults:
            return self.defaults[k]
        return ABSENT

    def m_explicit(self, k):
        """Value children receive: only explicitly set variables (defaults are not exported)."""
        partner = k == PARTNER
        if partner:
            k = SYNC
        for kind, d in reversed(self.scopes):
            if kind == "overlay" and k in d and not partner:
                return ABSENT if d[k] == DEL else d[k]
        for kind, d in reversed(self.scopes):
            if kind == "swap" and k in d:
                if partner and d[k] == DEL:
                    continue
                return ABSENT if d[k] == DEL else d[k]
        return self.base.get(k, ABSENT)

    def scoped_keys(self):
        s = set()
        for _, d in self.scopes:
            s |= set(d)
        return s

    def canon(self):
        return [sorted(self.base.items(), key=str), [[k, sorted(d.items(), key=str)] for k, d in self.scopes], self.observe_raw(cached=True)]

    def menu(self):
        out = []
        sk = self.scoped_keys()
        for ev in self.events:
            if ev[0] in ("swap", "overlay", "swapdup") and len(self.scopes) >= MAXNEST:
                continue
            if ev[0] == "exit" and not self.scopes:
                continue
            if ev[0] in ("set", "del") and ev[1] in sk:
                continue  # unspecified by the statement
            if ev[0] == "del" and (ev[1] not in self.base or ev[1] == SYNC):
                continue  # (deleting a synced variable does not touch its alias: unspecified, not explored)
            if ev[0] == "ovset" and (not self.scopes or self.scopes[-1][0] != "overlay" or any(ev[1] in d for _, d in self.scopes[:-1])):
                continue
            out.append(ev)
        return out

    # ------------------------------------------------------------ observers
    def _val(self, v):
        return v

    def observe_raw(self, env=None, cached=False):
        env = env or self.env
        if cached and self._obs is not None:
            return self._obs
        out = {}
        det = env.detype()
        det_all = env.detype_all()
        it = set(env)
        for k in OBSERVED:
            try:
                v = env[k]
            except KeyError:
                v = ABSENT
            g = env.get(k, ABSENT)
            out[k] = {
                "getitem": v,
                "contains": k in env,
                "get": g,
                "iter": k in it,
                "detype": det.get(k, ABSENT),
                "detype_all": det_all.get(k, ABSENT),
            }
        self._obs = out
        return out

    def expected_obs(self):
        out = {}
        for k in OBSERVED:
            v = self.m_read(k)
            e = self.m_explicit(k)
            out[k] = {
                "getitem": v,
                "contains": v != ABSENT,
                "get": v,
                "iter": v != ABSENT,
                "detype": ABSENT if e == ABSENT else self._detype(k, e),
                "detype_all": ABSENT if v == ABSENT else self._detype(k, v),
            }
        return out

    def _detype(self, k, v):
        if k in ("AUTO_CD", SYNC, PARTNER):
            return "1" if v else ""
        return str(v)

    def check_obs(self, where):
        viols = []
        got, want = self.observe_raw(), self.expected_obs()
        for k in OBSERVED:
            for path in got[k]:
                if got[k][path] != want[k][path]:
                    kk = SYNC if k == PARTNER else k
                    kind = "masked" if any(d.get(kk) == DEL for _, d in self.scopes) else ("scoped" if kk in self.scoped_keys() else "unscoped")
                    if k == PARTNER:
                        kind = "synced-alias-" + kind
                    viols.append(
                        {
                            "key": f"read-path-agrees-with-reference:{path}:{kind}:{where}",
                            "clause": "every read path shows exactly the scoped view",
                            "case": {"var": k, "path": path, "scopes": [[a, {x: str(y) for x, y in d.items()}] for a, d in self.scopes], "base": {x: str(y) for x, y in self.base.items()}},
                            "observed": repr(got[k][path]),
                            "expected": repr(want[k][path]),
                        }
                    )
        return viols

    def other_thread_view(self):
        """What a fresh thread (no inheritance) sees: only the global layer."""
        res = {}
        keep = self._obs

        def body():
            res["obs"] = self.observe_raw()
            self._obs = keep

        t = threading.Thread(target=body)
        t.start()
        t.join()
        return res["obs"]

    def observe(self):
        viols = []
        # nothing of this thread's scopes may be visible in another thread
        other = self.other_thread_view()
        saved = self.scopes
        self.scopes = []
        want = self.expected_obs()
        self.scopes = saved
        for k in OBSERVED:
            for path in other[k]:
                if other[k][path] != want[k][path]:
                    viols.append(
                        {
                            "key": f"scope-invisible-to-other-threads:{path}:{'in-scope' if saved else 'after-exit'}",
                            "clause": "scoped changes are visible only in their own thread",
                            "case": {"var": k, "path": path, "scopes": [[a, {x: str(y) for x, y in d.items()}] for a, d in saved]},
                            "observed": repr(other[k][path]),
                            "expected": repr(want[k][path]),
                        }
                    )
        # exactly undone: outside every scope a plain assignment from this thread is a global one
        if not saved:
            for k in ("FOO", "BAR"):
                old = self.base.get(k, ABSENT)
                self.env[k] = "probe"
                seen = {}

                def body():
                    seen["v"] = self.env.get(k, ABSENT)
                    seen["d"] = self.env.detype().get(k, ABSENT)

                t = threading.Thread(target=body)
                t.start()
                t.join()
                if old == ABSENT:
                    del self.env[k]
                else:
                    self.env[k] = old
                if seen != {"v": "probe", "d": "probe"}:
                    viols.append(
                        {
                            "key": "exactly-undone:assignment-after-scope-exit-stays-thread-local",
                            "clause": "after every scope has exited, the environment behaves as before (no thread-local residue)",
                            "case": {"var": k},
                            "observed": seen,
                            "expected": {"v": "probe", "d": "probe"},
                        }
                    )
        return viols

    # ------------------------------------------------------------ transitions
    def step(self, ev, check):
        env = self.env
        kind = ev[0]
        viols = []
        self._obs = None
        if kind in ("swap", "overlay"):
            k, v = ev[1], ev[2]
            iv = self.DELETE_VAR if v == DEL else v
            if kind == "swap":
                cm = env.swap({k: iv})
                ov = None
            else:
                ov = {k: iv}
                cm = env.swap(overlay=ov)
            cm.__enter__()
            self.cms.append(cm)
            self.ovs.append(ov)
            self.scopes.append((kind, {k: v}))
        elif kind == "swapdup":
            k, v1, v2 = ev[1], ev[2], ev[3]
            cm = env.swap({k: v1}, **{k: v2})
            cm.__enter__()
            self.cms.append(cm)
            self.ovs.append(None)
            self.scopes.append(("swap", {k: v2}))
        elif kind == "swapfail":
            k, v = ev[1], ev[2]
            cm = env.swap({k: v, "XONSH_HISTORY_SIZE": "not-a-size"})
            try:
                cm.__enter__()
                entered = True
            except ValueError:
                entered = False
            if entered:
                raise common.ToolError("harness: swap(XONSH_HISTORY_SIZE='not-a-size') was expected to fail on entry")
            # the scope never existed: the reference is unchanged
        elif kind == "exit":
            cm = self.cms.pop()
            self.ovs.pop()
            if ev[1] == "return":
                cm.__exit__(None, None, None)
            else:
                cls = _Boom if ev[1] == "raise" else _BaseBoom
                exc = cls("x")
                try:
                    swallowed = cm.__exit__(cls, exc, None)
                except cls:
                    swallowed = False
                if swallowed and check:
                    viols.append({"key": "exit-by-exception-propagates", "clause": "exception leaves the scope", "case": {}, "observed": "swallowed", "expected": "propagates"})
            self.scopes.pop()
        elif kind == "set":
            env[ev[1]] = ev[2]
            self.base[ev[1]] = ev[2]
        elif kind == "del":
            del env[ev[1]]
            self.base.pop(ev[1], None)
        elif kind == "ovset":
            self.ovs[-1][ev[1]] = ev[2]
            self.scopes[-1][1][ev[1]] = ev[2]
        if check:
            viols += self.check_obs("after-" + (kind if kind != "exit" else "exit-" + ev[1]))
        return viols


def _factory():
    return Harness()


def run(ctx):
    depth = ctx.pick(4, 6)
    r = seqx.bfs(_factory, depth, ctx, budget_s=ctx.pick(40, 700), chunk=16)
    ctx.add_violations(r["violations"])
    for s in r["sample_histories"]:
        ctx.sample({"history": s})
    sched = None
    try:
        from . import c11_sched
    except ImportError:
        c11_sched = None
    if c11_sched is not None:
        sched = c11_sched.run_part(ctx)
    ctx.coverage.update(
        states=r["states"] + (sched["states"] if sched else 0),
        transitions=r["transitions"] + (sched["transitions"] if sched else 0),
        traces_validated_against_impl=r["transitions"] + (sched["executions"] if sched else 0),
        depth_completed=r["depth_completed"],
        depth_requested=depth,
        exhaustive=r["exhaustive"] and (sched["exhaustive"] if sched else True),
        caps_hit=r["capped"],
        level_sizes=r["level_sizes"],
        alphabet=len(seqx._H.events),
        read_paths=6,
        schedule_part=sched["summary"] if sched else "not run",
        explanation="sequential part: every transition executes the real Env.swap/overlay/set/del; six read paths x 4 variables compared with a reference layer stack on every state, plus a fresh-thread view; schedule part: see schedule_part",
    )
    ctx.assumptions += ["non-scoped set/del of a variable that an active scope overrides is outside the statement and not explored"]


def replay(rec):
    h = Harness()
    h.reset()
    hist = rec["case"].get("history", [])
    vs = []
    for ev in hist:
        vs = h.step(ev, True)
        print(ev, "->", {k: v["getitem"] for k, v in h.observe_raw().items()})
    vs += h.observe()
    for v in vs:
        print("VIOLATION", v["key"], "observed=", v["observed"], "expected=", v["expected"])
    return 1 if vs else 0
