"""C12 - history records every command once, in order, and reads it back verbatim.

Part 1 (seqx-style exhaustive enumeration): every history of append / flush / clear operations up
to depth d over a text alphabet chosen for the index arithmetic (trailing blank, multi-line,
non-ASCII, quotes/backslashes, control characters, a repeated command, a failing command, a
space-prefixed command), for JSON (buffer sizes 1..3) and SQLite back ends under every subset of
{ignoredups, ignoreerr, ignorespace}; flusher threads are joined after each operation.  After every
operation all read paths are compared with a reference list (sandwich: kept <= read_back <=
appended, order preserving, identified by timestamp).
Part 2 (schedules): xv/c12_sched.py explores the real flusher threads under pysched.

Does not require: that a rule of $HISTCONTROL actually drops anything (only that nothing else is
dropped); equality of trailing whitespace for SQLite and for the items() view; anything about
`out`/`cwd` fields."""

import itertools
import os
import shutil

from . import common
from .session import load_session

LEVEL = "model_checking"

# (text, rtn, spc)
TEXTS = [
    ("a", 0, False),
    ("a", 1, False),  # failing duplicate
    ("a ", 0, False),  # trailing blank
    (" sp", 0, True),  # typed with leading space
    ("x\ny", 0, False),
    ("é\U0001f642", 0, False),
    ('"q\\', 0, False),
    ("c\x00\x1b[0m", 0, False),
]
RULES = ["ignoredups", "ignoreerr", "ignorespace"]


def _configs(thorough):
    cfgs = []
    subsets = [tuple(s) for n in range(len(RULES) + 1) for s in itertools.combinations(RULES, n)]
    for hc in subsets:
        cfgs.append(("json", 2, hc))
    for b in (1, 3):
        for hc in ((), tuple(RULES)) if not thorough else subsets:
            cfgs.append(("json", b, hc))
    for hc in subsets:
        cfgs.append(("sqlite", 0, hc))
    # the database file exists already but holds no table yet (created by `touch`, a crashed first run,
    # a second history object of the same thread)
    cfgs.append(("sqlite-pre", 0, ()))
    return cfgs


QUICK_TEXTS = [0, 1, 2, 3, 5]


def _events(thorough, backend):
    evs = [["append", i] for i in (range(len(TEXTS)) if thorough else QUICK_TEXTS)]
    evs.append(["flush"])
    evs.append(["clear"])
    return evs


class Harness:
    def __init__(self, cfg):
        self.backend, self.bufsize, self.hc = cfg
        self.root = common.scratch_dir("c12")
        self.xsh = load_session(data_dir=self.root, env={"HISTCONTROL": set(self.hc), "XONSH_STORE_STDOUT": False, "XONSH_HISTORY_SAVE_CWD": False})
        self.n = 0

    def reset(self):
        self.n += 1
        d = os.path.join(self.root, "h")
        shutil.rmtree(d, ignore_errors=True)
        os.makedirs(d)
        if self.backend == "json":
            from xonsh.history.json import JsonHistory

            self.h = JsonHistory(filename=os.path.join(d, "xonsh-sess.json"), sessionid="sess", buffersize=self.bufsize, gc=False, save_cwd=False)
        else:
            from xonsh.history.sqlite import SqliteHistory

            if self.backend == "sqlite-pre":
                open(os.path.join(d, "hist.sqlite"), "w").close()
            self.h = SqliteHistory(gc=False, filename=os.path.join(d, "hist.sqlite"), sessionid="sess", save_cwd=False)
        self.appended = []  # since last clear: dict(text, rtn, ts, spc)
        self.everything = []  # all appends of this history, across clears
        self.clock = 100.0
        self.flushers = []

    def quiesce(self):
        for t in self.flushers:
            if t is not None and hasattr(t, "join") and t.ident is not None:
                t.join()
        self.flushers = []

    def apply(self, ev):
        if ev[0] == "append":
            text, rtn, spc = TEXTS[ev[1]]
            self.clock += 1.0
            ts = [self.clock, self.clock + 0.5]
            cmd = {"inp": text, "rtn": rtn, "ts": list(ts), "out": None}
            if spc:
                cmd["spc"] = True
            e = {"text": text, "rtn": rtn, "ts": ts, "spc": spc, "seq": len(self.everything)}
            self.appended.append(e)
            self.everything.append(e)
            hf = self.h.append(cmd)
            self.flushers.append(hf)
        elif ev[0] == "flush":
            self.flushers.append(self.h.flush())
        elif ev[0] == "clear":
            self.quiesce()
            self.h.clear()
            self.appended = []
        self.quiesce()

    # ------------------------------------------------------------ oracle
    def norm(self, s):
        return s.rstrip() if self.backend.startswith("sqlite") else s

    def excludable(self, i):
        e = self.appended[i]
        if "ignorespace" in self.hc and e["spc"]:
            return True
        if "ignoreerr" in self.hc and e["rtn"] != 0:
            return True
        if "ignoredups" in self.hc:
            # "matches the previous command" = the previous RECORDED command (what both back ends - and
            # bash - compare with), also across a clear: commands another rule has dropped are skipped
            k = e["seq"] - 1
            while k >= 0:
                p = self.everything[k]
                if ("ignorespace" in self.hc and p["spc"]) or ("ignoreerr" in self.hc and p["rtn"] != 0):
                    k -= 1
                    continue
                return p["text"].rstrip() == e["text"].rstrip()
        return False

    def check(self, hist):
        h = self.h
        viols = []
        cfg = f"{self.backend}:b{self.bufsize}:{'+'.join(self.hc) or 'none'}"

        def V(clause, detail, observed, expected):
            viols.append({"key": f"{clause}:{self.backend}:{detail}", "clause": clause, "case": {"config": [self.backend, self.bufsize, list(self.hc)], "history": hist}, "observed": observed, "expected": expected, "note": cfg})

        try:
            n = len(h)
        except Exception as e:  # noqa: BLE001
            V("len-works", type(e).__name__, str(e), "an int")
            return viols
        # read back by index
        R = []
        for i in range(n):
            try:
                R.append({"text": h.inps[i], "rtn": h.rtns[i], "ts": list(h.tss[i])})
            except Exception as e:  # noqa: BLE001
                V("len-and-index-consistent", f"index-{'last' if i == n - 1 else 'inner'}-raises-{type(e).__name__}", f"len={n} but [{i}] raised {e}", "every 0 <= i < len succeeds")
                return viols
        for bad in (n, -n - 1):
            try:
                h.inps[bad]
                V("len-and-index-consistent", "index-beyond-len-succeeds", f"len={n}, [{bad}] succeeded", "IndexError")
            except Exception:  # noqa: BLE001 - any failure is fine: the statement only says it must not succeed
                pass
        # sandwich against the reference, identity by begin timestamp
        by_ts = {e["ts"][0]: e for e in self.appended}
        seen_ts = []
        for r in R:
            ts0 = r["ts"][0] if r["ts"] else None
            e = by_ts.get(ts0)
            if e is None:
                V("no-inventions", "unknown-entry", r, "an appended command")
                continue
            if self.norm(e["text"]) != r["text"]:
                V("text-verbatim", _text_class(e["text"]), r["text"], e["text"])
            if e["rtn"] != r["rtn"] or list(e["ts"]) != list(r["ts"]):
                V("rtn-and-ts-preserved", "index", [r["rtn"], r["ts"]], [e["rtn"], e["ts"]])
            seen_ts.append(ts0)
        if seen_ts != sorted(seen_ts) or len(set(seen_ts)) != len(seen_ts):
            V("append-order-no-duplicates", "index", seen_ts, "strictly increasing")
        for i, e in enumerate(self.appended):
            if not self.excludable(i) and e["ts"][0] not in seen_ts:
                V("every-kept-command-readable", _text_class(e["text"]), f"missing {e['text']!r}", "present")
        # negative index, slices
        if n:
            try:
                if h.inps[-1] != R[-1]["text"] or h.inps[-n] != R[0]["text"]:
                    V("len-and-index-consistent", "negative-index", [h.inps[-1], h.inps[-n]], [R[-1]["text"], R[0]["text"]])
                for sl in (slice(None), slice(1, None), slice(None, None, 2), slice(None, -1), slice(None, None, -1)):
                    got = h.inps[sl]
                    want = [r["text"] for r in R][sl]
                    if list(got) != want:
                        V("slice-consistent", str(sl), got, want)
                ent = h[n - 1]
                if ent.cmd != R[-1]["text"] or ent.rtn != R[-1]["rtn"]:
                    V("len-and-index-consistent", "history-getitem", [ent.cmd, ent.rtn], R[-1])
                ents = h[0:n]
                if [x.cmd for x in ents] != [r["text"] for r in R]:
                    V("slice-consistent", "history-slice", [x.cmd for x in ents], [r["text"] for r in R])
            except Exception as e:  # noqa: BLE001
                V("len-and-index-consistent", f"slice-or-negative-raises-{type(e).__name__}", str(e), "values")
        # iteration view
        try:
            items = list(h.items())
            if [x["inp"].rstrip() for x in items] != [r["text"].rstrip() for r in R]:
                V("iteration-consistent", "items", [x["inp"] for x in items], [r["text"] for r in R])
        except Exception as e:  # noqa: BLE001
            V("iteration-consistent", f"items-raises-{type(e).__name__}", str(e), "list")
        # on-disk store
        if self.backend == "json":
            nbuf = len(h.buffer)
            disk_expected = R[: n - nbuf]
            try:
                from xonsh.lib.lazyjson import LazyJSON

                with LazyJSON(h.filename) as lj:
                    dn = len(lj["cmds"])
                    disk = []
                    for i in range(dn):
                        node = lj["cmds"][i]
                        disk.append({"text": node["inp"], "rtn": node["rtn"], "ts": list(node["ts"].load())})
                    whole = lj.load()["cmds"]
                if disk != disk_expected:
                    V("disk-equals-flushed-prefix", "lazy-index-read", disk, disk_expected)
                if [c["inp"] for c in whole] != [d["text"] for d in disk]:
                    V("embedded-index-addresses-values", "index-vs-full-load", [d["text"] for d in disk], [c["inp"] for c in whole])
            except Exception as e:  # noqa: BLE001
                V("embedded-index-addresses-values", f"raises-{type(e).__name__}", str(e), "decodable file")
        else:
            import sqlite3

            conn = sqlite3.connect(h.filename)
            try:
                rows = conn.execute("SELECT inp, rtn, tsb, tse FROM xonsh_history WHERE sessionid = ? ORDER BY tsb", ("sess",)).fetchall()
            except sqlite3.OperationalError:
                rows = []
            finally:
                conn.close()
            got = [{"text": r[0], "rtn": r[1], "ts": [r[2], r[3]]} for r in rows]
            if got != R:
                V("disk-equals-read-back", "rows", got, R)
        return viols


def _text_class(t):
    if t != t.rstrip():
        return "trailing-blank"
    if "\n" in t:
        return "multi-line"
    if any(ord(c) > 127 for c in t):
        return "non-ascii"
    if any(ord(c) < 32 for c in t):
        return "control-char"
    if '"' in t or "\\" in t:
        return "quote-backslash"
    return "plain"


_CFG = None
_THOROUGH = False
_DEPTH = 0
_H = None


def _init():
    global _H
    _H = None


def _explore(prefix):
    """Enumerate every history extending `prefix` up to _DEPTH, checking after every operation."""
    global _H
    cfg, first = prefix
    if _H is None or _H_cfg() != cfg:
        _H = Harness(cfg)
    h = _H
    evs = _events(_THOROUGH, cfg[0])
    viols = []
    n_trans = 0
    n_hist = 0
    maxlen = 0
    stack = [[first]]
    while stack:
        hist = stack.pop()
        h.reset()
        try:
            for ev in hist[:-1]:
                h.apply(ev)
            h.apply(hist[-1])
        except Exception as e:  # noqa: BLE001 - a history operation itself raised
            n_trans += 1
            viols.append({"key": f"operation-raises:{h.backend}:{hist[-1][0]}:{type(e).__name__}", "clause": "every command appended can be read back (the operations of the store do not fail)", "case": {"config": [h.backend, h.bufsize, list(h.hc)], "history": hist}, "observed": f"{type(e).__name__}: {e}"[:200], "expected": "the operation succeeds"})
            n_hist += 1
            continue
        n_trans += 1
        vs = h.check(hist)
        viols.extend(vs)
        maxlen = max(maxlen, len(h.appended))
        if len(hist) < _depth_for(cfg) and not vs:
            for ev in reversed(evs):
                stack.append(hist + [ev])
        else:
            n_hist += 1
    return {"viols": viols, "transitions": n_trans, "histories": n_hist}


DEEP = {("json", 2, ()), ("json", 2, tuple(RULES)), ("json", 1, ()), ("sqlite", 0, ())}


def _depth_for(cfg):
    """Thorough: the four main configurations go one operation deeper than the rest."""
    if _THOROUGH and tuple(cfg) not in DEEP:
        return _DEPTH - 1
    return _DEPTH


def _H_cfg():
    return (_H.backend, _H.bufsize, _H.hc)


def run(ctx):
    global _DEPTH, _THOROUGH
    _THOROUGH = ctx.thorough
    _DEPTH = ctx.pick(4, 5)
    cfgs = _configs(ctx.thorough)
    items = []
    for cfg in cfgs:
        for ev in _events(ctx.thorough, cfg[0]):
            items.append((cfg, ev))
    res = common.pmap(_explore, items, ctx.jobs, chunk=1, init=_init, seed=ctx.seed)
    trans = sum(r["transitions"] for r in res)
    hists = sum(r["histories"] for r in res)
    for r in res:
        ctx.add_violations(r["viols"])
    ctx.log(f"sequential part: {len(cfgs)} configurations, {trans} transitions, {hists} maximal histories, depth {_DEPTH} (thorough: {_DEPTH} for the 4 main configurations, {_DEPTH - 1} for the others)")
    sched = None
    try:
        from . import c12_sched
    except ImportError:
        c12_sched = None
    if c12_sched is not None:
        sched = c12_sched.run_part(ctx)
    ctx.sample({"config": list(map(str, cfgs[3])), "history": [["append", 0], ["append", 0], ["flush"], ["append", 5]], "texts": [t[0] for t in TEXTS]})
    ctx.coverage.update(
        states=trans + 1 + (sched["states"] if sched else 0),
        transitions=trans + (sched["transitions"] if sched else 0),
        traces_validated_against_impl=hists + (sched["executions"] if sched else 0),
        depth_completed=_DEPTH,
        exhaustive=(sched["exhaustive"] if sched else True),
        configurations=len(cfgs),
        alphabet=len(TEXTS) + 2,
        schedule_part=sched["summary"] if sched else "not run",
        explanation="sequential part: all operation histories up to the depth for each configuration (states = history prefixes; no merging because the history list itself is the state); every operation executed on the real JsonHistory/SqliteHistory with flushers joined; read paths: len, [i] for all i and two invalid i, negative, 5 slices, History[i], History[a:b], items(), on-disk decode through the LazyJSON index / SQL rows",
    )
    ctx.assumptions += ["timestamps are unique per append (identity of an entry)", "deprecated 'erasedups' HISTCONTROL option not explored"]


def replay(rec):
    cfg = rec["case"]["config"]
    h = Harness((cfg[0], cfg[1], tuple(cfg[2])))
    h.reset()
    hist = rec["case"]["history"]
    for ev in hist:
        h.apply(ev)
    vs = h.check(hist)
    print("config", cfg, "history", hist)
    print("appended", [(e["text"], e["rtn"]) for e in h.appended], "len", len(h.h))
    for v in vs:
        print("VIOLATION", v["key"], "observed=", v["observed"], "expected=", v["expected"])
    return 1 if vs else 0
