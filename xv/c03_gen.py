"""Generator for C03: command chains, statement positions, bare/explicit rendering, reductions.

Everything is plain JSON-able data:
  chain = {"segs": [{"args": [word, ...], "pipe": bool, "bg": bool, "env": bool}, ...], "ops": [op, ...]}
  pos   = {"pre": None|"py"|"cmd", "post": None|"py"|"cmd", "semi": "tight"|"spaced",
           "wrap": None | ["block", kind, depth, unit, sibling] | ["oneline", kind], "cont": None | [boundary, ws],
           "prelude": None | [kind, "top" | "inner"], "tail": None | "comment" (`  # c` after the line),
           "blank": None | "before" (an empty line in front of the line), "eol": "lf" | "crlf" (line ends of the WHOLE
           program, bare and explicit alike; lone CR is renderable but not enumerated, see c03.py)}
A prelude is a statement placed BEFORE the bare line that binds every identifier spelled on the line (command words
included) in a scope that has ENDED when the line is reached (parameters of another function / lambda, names local to
a function or class body, comprehension variables, an `except ... as` name after its handler, a deleted name): the
names are NOT bound at the line, so the line must still mean its explicit twin.
The explicit twin is rendered from the same token list: `![` is glued to the first token of every segment and `]`
to its last one - the generator knows the segment boundaries, it never asks xonsh where they are."""

import itertools
import re

BASE = "a"
# the word alphabet of the statement (alternative 0 = BASE); two-token words are redirects with a target
ARGS = ["-l", "--k=v", "./p", "a.b", "1", "x=y", "a:b", ",a", "'q r'", '"d"', "$V", "${'V'}", "@(ev)", "$(ia i)", "@$(ia i)", "> f", "2>&1", "e>o", "< g"]
# quoted strings that span two physical lines (the logical line then has several physical lines)
TQ_WORDS = ['"""a\nb"""', "'''a\nb'''"]
SEGFEATS = ("pipe", "bg", "env")
OPS = ("&&", "||", "and", "or", ";")
SIMPLER_OP = {"||": "&&", "or": "&&", "and": "&&"}
KINDS = ("if", "for", "while", "with", "try", "def")
ONELINE_QUICK = ("if",)
ONELINE_RICH = ("if", "for", "with", "def", "else", "try")
POS0 = {"pre": None, "post": None, "semi": "tight", "wrap": None, "cont": None, "prelude": None, "tail": None, "blank": None, "eol": "lf", "history": None}


def seg0(nwords):
    return {"args": [BASE] * (nwords - 1), "pipe": False, "bg": False, "env": False}


# ------------------------------------------------------------------------------------------- chains


def blocks(thorough):
    """The enumerated space as blocks; inside a block the product (skeleton x word deviations x positions) is
    complete.  segs=(min,max) segments, words = max words per segment (command word included), wsel = which
    per-segment word-count tuples ('all' | 'eq2' = two words everywhere | 'uniform3' = three words everywhere), kf = max word/segment-feature deviations from the
    all-`a` chain (kfmin..kf), tq = how many of the two multi-line triple-quoted words are in the alphabet, argset = 'nest' / 'nest-rich': the deviating
    words are the nested-bracket words instead of the plain alphabet, kp = max position deviations (kpmin..kp), rich = the larger position catalogue,
    exec = which agreeing pairs are also executed ('slice' | 'none' | 'all'); pairs with differing trees always are;
    prelude = the positions are those of the prelude family (prelude_positions) instead of the plain ones."""
    d = dict(kfmin=0, kpmin=0, wsel="all", rich=False, exec="slice", prelude=False, tq=2)
    if not thorough:
        spec = [
            dict(id="s2w3-kf1-kp1", segs=(1, 2), words=3, kf=1, kp=1),
            dict(id="s2w2-kf2-kp0", tq=1, segs=(1, 2), words=2, kf=2, kfmin=2, kp=0, exec="none"),
            dict(id="s2w2-kf0-kp2", segs=(1, 2), words=2, kf=0, kp=2, kpmin=2, exec="none"),
            # prelude family (names of the line bound in a scope that has ended): prelude x word deviation at top
            # level, prelude x one other position deviation for plain words
            dict(id="prelude-s2w2-kf1-kp0", tq=1, segs=(1, 2), words=2, kf=1, kp=0, prelude=True),
            dict(id="prelude-s2w2-kf0-kp1", segs=(1, 2), words=2, kf=0, kp=1, kpmin=1, prelude=True, exec="none"),
            # line-ending family (the whole program with CRLF line ends, bare and explicit alike), with the layout
            # positions (trailing comment, empty line in front) next to continuations
            dict(id="eol-s2w2-kf1-kp1-layout", tq=1, segs=(1, 2), words=2, kf=1, kp=1, family="eol", fields=("cont", "tail", "blank")),
            dict(id="eol-s2w2-kf0-kp1", segs=(1, 2), words=2, kf=0, kp=1, kpmin=1, family="eol", exec="none"),
            # nested plain brackets inside xonsh openers, in every argument slot of 1-3 segment chains
            dict(id="nest-s2w2-kf1-kp1", segs=(1, 2), words=2, kf=1, kfmin=1, kp=1, argset="nest"),
            dict(id="nest-s3w2-kf1-kp0", segs=(3, 3), words=2, wsel="eq2", kf=1, kfmin=1, kp=0, argset="nest", exec="none"),
            # multi-line string + nested brackets in ONE segment next to a one-word segment
            dict(id="combo-tq-nest", segs=(2, 2), words=3, kf=2, kp=1, chainset="combo", fields=("wrap",), exec="none"),
            # history: an earlier compile on the SAME execer whose namespace bound every identifier of the line
            dict(id="history-s2w2-kf1", segs=(1, 2), words=2, kf=1, kp=0, tq=1, family="history"),
            dict(id="eol-s2w2-kf0-kp2-layout", segs=(1, 2), words=2, kf=0, kp=2, kpmin=2, family="eol", fields=("cont", "tail", "blank", "pre", "post"), exec="none"),
        ]
    else:
        spec = [
            dict(id="s2w4-kf1-kp1-rich", segs=(1, 2), words=4, kf=1, kp=1, rich=True),
            dict(id="s3w2-kf1-kp1", tq=1, segs=(3, 3), words=2, kf=1, kp=1),
            dict(id="s3w3u-kf1-kp1", tq=1, segs=(3, 3), words=3, wsel="uniform3", kf=1, kp=1, exec="none"),
            dict(id="s3w4-kf0-kp1", segs=(3, 3), words=4, kf=0, kp=1, exec="none"),
            dict(id="s2w3-kf2-kp0", tq=1, segs=(1, 2), words=3, kf=2, kfmin=2, kp=0, exec="none"),
            dict(id="s2w3-kf0-kp2-rich", segs=(1, 2), words=3, kf=0, kp=2, kpmin=2, rich=True, exec="none"),
            dict(id="s2w2-kf1-kp2", tq=1, segs=(1, 2), words=2, wsel="eq2", kf=1, kfmin=1, kp=2, kpmin=2, exec="none"),
            dict(id="s3w2-kf2-kp0", tq=1, segs=(3, 3), words=2, wsel="eq2", kf=2, kfmin=2, kp=0, exec="none"),
            dict(id="prelude-s2w3-kf1-kp0-rich", tq=1, segs=(1, 2), words=3, kf=1, kp=0, rich=True, prelude=True),
            dict(id="prelude-s3w2-kf0-kp0-rich", segs=(3, 3), words=2, kf=0, kp=0, rich=True, prelude=True, exec="none"),
            dict(id="prelude-s2w2-kf0-kp1-rich", segs=(1, 2), words=2, kf=0, kp=1, kpmin=1, rich=True, prelude=True, exec="none"),
            dict(id="prelude-s2w2-kf1-kp1", tq=1, segs=(1, 2), words=2, wsel="eq2", kf=1, kfmin=1, kp=1, kpmin=1, prelude=True, exec="none"),
            dict(id="nest-s2w3-kf1-kp1", segs=(1, 2), words=3, kf=1, kfmin=1, kp=1, argset="nest-rich"),
            dict(id="nest-s3w2-kf1-kp1", segs=(3, 3), words=2, wsel="eq2", kf=1, kfmin=1, kp=1, argset="nest-rich", exec="none"),
            dict(id="nest-s2w2-kf2-kp0", segs=(1, 2), words=2, kf=2, kfmin=2, kp=0, argset="nest-rich", exec="none"),
            dict(id="combo-tq-nest", segs=(2, 2), words=3, kf=2, kp=1, chainset="combo", exec="none"),
            dict(id="history-s2w3-kf1", segs=(1, 2), words=3, kf=1, kp=0, tq=1, family="history"),
            dict(id="history-s2w2-kf0-kp1", segs=(1, 2), words=2, kf=0, kp=1, kpmin=1, family="history"),
            dict(id="eol-s2w3-kf1-kp1-layout", segs=(1, 2), words=3, kf=1, kp=1, family="eol", fields=("cont", "tail", "blank", "pre", "post")),
            dict(id="eol-s2w2-kf1-kp1", tq=1, segs=(1, 2), words=2, kf=1, kp=1, kpmin=1, family="eol", exec="none"),
            dict(id="eol-s3w2-kf0-kp1", segs=(3, 3), words=2, kf=0, kp=1, family="eol", exec="none"),
            dict(id="eol-s2w2-kf0-kp2", segs=(1, 2), words=2, kf=0, kp=2, kpmin=2, family="eol", exec="none"),
        ]
    return [dict(d, **b) for b in spec]


def _wcounts(nseg, words, wsel):
    for wc in itertools.product(range(1, words + 1), repeat=nseg):
        if wsel == "uniform3" and set(wc) != {3}:
            continue
        if wsel == "eq2" and set(wc) != {2}:
            continue
        yield wc


# words with plain ( ) [ ] { } NESTED inside a xonsh opener, one level and two levels deep.  Only words xonsh accepts
# inside ![...] (probed: `!(..)`, `$[..]`, `![..]` are not argument words, a bare `(1)` is not a subprocess word)
NEST_QUICK = [
    "@(str(1))", "@((1, 2))", "@(xs[(0)])", "@([str(1)])", "$(ia @(str(1)))", "@$(ia @(str(1)))", "${str('V')}",
    "@(str(int((1))))",
]  # fmt: skip
NEST_RICH = NEST_QUICK + [
    "@({(1)})", "@({'k': (1)}['k'])", "@(ev.strip((' ')))", "${['V'][(0)]}", "${('V')}",
    "@([(1, (2))][0])", "$(ia @(str((1))))", "@$(ia @(str((1))))", "${str(('V'))}", "@(str((1, (2))[0]))",
]  # fmt: skip


def _places(wc, tq=2, argset=None):
    words = {"nest": NEST_QUICK, "nest-rich": NEST_RICH}[argset] if argset else ARGS + TQ_WORDS[:tq]
    out = []
    for i, w in enumerate(wc):
        for j in range(w - 1):
            out += [("arg", i, j, a) for a in words]
        if not argset:
            out += [("feat", i, f, True) for f in SEGFEATS]
    return out


def combo_chains():
    """A one-word segment chained (either side, every operator) with a segment that holds BOTH a multi-line
    triple-quoted word and a nested-bracket word (both orders)."""
    for op in OPS:
        for nest in NEST_QUICK:
            for args in ([TQ_WORDS[0], nest], [nest, TQ_WORDS[0]]):
                big = dict(seg0(1), args=list(args))
                yield {"segs": [seg0(1), big], "ops": [op]}
                yield {"segs": [dict(big, args=list(args)), seg0(1)], "ops": [op]}


def chains(b):
    """Every chain of block b, simplest first."""
    if b.get("chainset") == "combo":
        yield from combo_chains()
        return
    for nseg in range(b["segs"][0], b["segs"][1] + 1):
        for wc in _wcounts(nseg, b["words"], b["wsel"]):
            places = _places(wc, b.get("tq", 2), b.get("argset"))
            for ops in itertools.product(OPS, repeat=nseg - 1):
                for r in range(b["kfmin"], b["kf"] + 1):
                    for combo in itertools.combinations(places, r):
                        if len({p[:3] for p in combo}) < r:
                            continue
                        segs = [seg0(w) for w in wc]
                        for kind, i, j, v in combo:
                            if kind == "arg":
                                segs[i]["args"][j] = v
                            else:
                                segs[i][j] = True
                        yield {"segs": segs, "ops": list(ops)}


def n_word_devs(chain):
    return sum(sum(1 for a in s["args"] if a != BASE) + s["pipe"] + s["bg"] + s["env"] for s in chain["segs"])


def has_bg(chain):
    return any(s["bg"] for s in chain["segs"])


def _threaded(seg):
    return seg["pipe"] or any(a.startswith("<") for a in seg["args"])


def cmd_name(i, seg):
    return ("t" if _threaded(seg) else "c") + "abc"[i]


def chain_commands(chain):
    out = []
    for i, s in enumerate(chain["segs"]):
        out.append(cmd_name(i, s))
        if s["pipe"]:
            out.append("p" + "abc"[i])
    return out


# ------------------------------------------------------------------------------------------- rendering


def tokens(chain):
    """[(text, segment index | -1 for an operator)]"""
    toks = []
    for i, s in enumerate(chain["segs"]):
        if i:
            toks.append((chain["ops"][i - 1], -1))
        if s["env"]:
            toks.append(("$V=1", i))
        toks.append((cmd_name(i, s), i))
        for a in s["args"]:
            if a[:2] in ("> ", "< "):
                toks += [(a[0], i), (a[2:], i)]
            else:
                toks.append((a, i))
        if s["pipe"]:
            toks += [("|", i), ("p" + "abc"[i], i), (BASE, i)]
        if s["bg"]:
            toks.append(("&", i))
    return toks


def boundaries(chain, semi):
    """Token boundaries where a backslash-newline may replace the blank (j = after token j)."""
    toks = tokens(chain)
    return [j for j in range(len(toks) - 1) if not (semi == "tight" and toks[j + 1][0] == ";")]


def render_line(chain, explicit, semi="tight", cont=None):
    toks = tokens(chain)
    texts = [t for t, _ in toks]
    if explicit:
        for k, (t, s) in enumerate(toks):
            if s < 0:
                continue
            if k == 0 or toks[k - 1][1] != s:
                texts[k] = "![" + texts[k]
            if k == len(toks) - 1 or toks[k + 1][1] != s:
                texts[k] = texts[k] + "]"
    out = texts[0]
    for k in range(1, len(texts)):
        if cont is not None and cont[0] == k - 1:
            sep = " \\\n" + cont[1]
        elif toks[k][0] == ";" and semi == "tight":
            sep = ""
        else:
            sep = " "
        out += sep + texts[k]
    return out


HEAD = {"if": "if ok:", "for": "for i in xs:", "while": "while ok:", "with": "with ctxm:", "try": "try:", "def": "def fn():"}


PRELUDES_QUICK = ("def-pos", "def-kwonly", "def-star", "async-def", "lambda", "local", "comp", "class", "except", "del")
PRELUDES_RICH = PRELUDES_QUICK + (
    "def-posonly", "def-default", "nested-def", "method", "genexp", "dictcomp", "local-for", "local-with", "local-import",
    "local-def", "class-def", "lambda-star",
)  # fmt: skip
_KEEP_BOUND = frozenset(("ok", "ctxm", "ev", "xs", "and", "or", "not", "in", "is", "if", "else", "for", "while", "with", "try", "def", "pass", "del", "as", "None", "True", "False"))
_IDENT = re.compile(r"[A-Za-z_][A-Za-z_0-9]*")


def line_names(chain, pos):
    """Every identifier spelled on the bare logical line (command words first), except the names the scaffolding
    needs bound and keywords."""
    L = render_line(chain, False)
    if pos.get("pre") == "cmd" or pos.get("post") == "cmd":
        L += " cz z"
    out = []
    for n in _IDENT.findall(L):
        if n not in _KEEP_BOUND and n not in out:
            out.append(n)
    return out


def prelude_lines(kind, names):
    """Statements that bind `names` only in a scope that is closed afterwards."""
    ns = ", ".join(names)
    chain_assign = " = ".join(names) + " = 1"
    if kind == "def-pos":
        return [f"def zz({ns}): pass"]
    if kind == "def-kwonly":
        return [f"def zz(*, {ns}): pass"]
    if kind == "def-posonly":
        return [f"def zz({ns}, /): pass"]
    if kind == "def-default":
        return ["def zz(" + ", ".join(n + "=1" for n in names) + "): pass"]
    if kind in ("def-star", "lambda-star"):
        if len(names) == 1:
            sig = "**" + names[0]
        else:
            sig = ", ".join(list(names[2:]) + ["*" + names[1], "**" + names[0]])
        return [f"def zz({sig}): pass"] if kind == "def-star" else [f"zz = lambda {sig}: 1"]
    if kind == "async-def":
        return [f"async def zz({ns}): pass"]
    if kind == "lambda":
        return [f"zz = lambda {ns}: 1"]
    if kind == "local":
        return ["def zz():", "    " + chain_assign]
    if kind == "local-for":
        return ["def zz():"] + [f"    for {n} in xs: pass" for n in names]
    if kind == "local-with":
        return ["def zz():"] + [f"    with ctxm as {n}: pass" for n in names]
    if kind == "local-import":
        return ["def zz():"] + [f"    import os as {n}" for n in names]
    if kind == "local-def":
        return ["def zz():"] + [f"    def {n}(): pass" for n in names]
    if kind == "nested-def":
        return ["def zz():", f"    def yy({ns}): pass"]
    if kind == "method":
        return ["class Zz:", f"    def mm(self, {ns}): pass"]
    if kind == "class":
        return ["class Zz:", "    " + chain_assign]
    if kind == "class-def":
        return ["class Zz:"] + [f"    def {n}(self): pass" for n in names]
    if kind == "comp":
        return ["zz = [0 " + " ".join(f"for {n} in xs" for n in names) + "]"]
    if kind == "genexp":
        return ["zz = list(0 " + " ".join(f"for {n} in xs" for n in names) + ")"]
    if kind == "dictcomp":
        return ["zz = {0: 0 " + " ".join(f"for {n} in xs" for n in names) + "}"]
    if kind == "except":
        out = []
        for n in names:
            out += ["try:", "    raise ValueError", f"except ValueError as {n}:", "    pass"]
        return out
    if kind == "del":
        return [chain_assign, "del " + ns]
    raise ValueError(kind)


EOLS = {"lf": "\n", "crlf": "\r\n", "cr": "\r"}


def render(chain, pos, explicit):
    """The whole program; every line end (also inside a multi-line string or after a backslash) in the convention
    of pos["eol"] - what a file saved with those line ends contains."""
    text = _render_lf(chain, pos, explicit)
    eol = pos.get("eol", "lf")
    return text if eol == "lf" else text.replace("\n", EOLS[eol])


def _render_lf(chain, pos, explicit):
    L = render_line(chain, explicit, pos["semi"], pos["cont"])
    cz = "![cz z]" if explicit else "cz z"
    if pos["pre"]:
        L = ("n = 1" if pos["pre"] == "py" else cz) + "; " + L
    if pos["post"]:
        L = L + "; " + ("n = 2" if pos["post"] == "py" else cz)
    if pos.get("tail") == "comment":
        L += "  # c"
    gap = "\n" if pos.get("blank") == "before" else ""  # an empty physical line directly in front of the line
    w = pos["wrap"]
    pl = pos.get("prelude")
    top, inner = [], []
    if pl:
        lines = prelude_lines(pl[0], line_names(chain, pos))
        if pl[1] == "inner" and w and w[0] == "block":
            inner = lines
        else:
            top = lines
    head = "".join(x + "\n" for x in top)
    if w is None:
        return head + gap + L + "\n"
    if w[0] == "oneline":
        k = w[1]
        if k == "else":
            return head + "if not ok: pass\n" + gap + "else: " + L + "\n"
        if k == "try":
            return head + gap + "try: " + L + "\nfinally: pass\n"
        if k == "def":
            return head + gap + "def fn(): " + L + "\nfn()\n"
        return head + gap + HEAD[k] + " " + L + "\n"
    _, kind, depth, unit, sib = w
    lines = [unit * d + "if ok:" for d in range(depth - 1)]
    ind, body = unit * (depth - 1), unit * depth
    lines.append(ind + HEAD[kind])
    lines += [body + x.replace("    ", unit) for x in inner]
    if sib in ("before", "both"):
        lines.append(body + "n = 1")
    if gap:
        lines.append("")
    lines.append(body + L)
    if sib in ("after", "both"):
        lines.append(body + "n = 2")
    if kind == "while":
        lines.append(body + "break")
    if kind == "try":
        lines += [ind + "finally:", body + "pass"]
    if kind == "def":
        lines.append(ind + "fn()")
    return head + "\n".join(lines) + "\n"


# ------------------------------------------------------------------------------------------- positions


def _wraps(rich):
    out = []
    if not rich:
        for kind in KINDS:
            out.append(["block", kind, 1, "    ", None])
        for kind in ("if", "def"):
            out.append(["block", kind, 1, "\t", None])
        for depth in (2, 3):
            out.append(["block", "if", depth, "    ", None])
            out.append(["block", "if", depth, "\t", None])
            out.append(["block", "def", depth, "    ", None])
        out += [["oneline", k] for k in ONELINE_QUICK]
    else:
        for depth in (1, 2, 3):
            for kind in KINDS if depth == 1 else ("if", "for", "def"):
                for unit in ("    ", "\t", "  "):
                    out.append(["block", kind, depth, unit, None])
        for kind in ("if", "while", "try", "def"):
            for sib in ("before", "after", "both"):
                out.append(["block", kind, 1, "    ", sib])
        out += [["oneline", k] for k in ONELINE_RICH]
    return out


def _field_values(chain, rich, semi):
    f = {"pre": ["py", "cmd"], "post": ["py", "cmd"], "wrap": _wraps(rich), "tail": ["comment"], "blank": ["before"]}
    wss = ("", "  ") if rich else ("",)
    f["cont"] = [[j, ws] for j in boundaries(chain, semi) for ws in wss]
    return f


def positions(chain, kp, rich, kpmin=0, layout=None, fields=None):
    """Every position with kpmin..kp deviations from 'alone at top level', simplest first.  The layout fields
    (trailing comment, empty line in front) belong to the rich catalogue (layout=None) or are switched explicitly;
    `fields` restricts which fields may deviate."""
    has_semi = ";" in chain["ops"]
    names = ["pre", "post", "wrap", "cont"] + (["semi"] if has_semi else [])
    if layout or (layout is None and rich):
        names += ["tail", "blank"]
    if fields is not None:
        names = [f for f in names if f in fields]
    for r in range(kpmin, kp + 1):
        for combo in itertools.combinations(names, r):
            semi = "spaced" if "semi" in combo else "tight"
            fv = _field_values(chain, rich, semi)
            fv["semi"] = ["spaced"]
            for vals in itertools.product(*[fv[f] for f in combo]):
                pos = dict(POS0)
                for f, v in zip(combo, vals):
                    pos[f] = v
                yield pos


def eol_positions(chain, kp, rich, kpmin=0, fields=None, eols=("crlf",)):
    """The line-ending family: the whole program with CRLF (/ lone CR) line ends x every position with kpmin..kp
    other deviations, layout fields included."""
    for pos in positions(chain, kp, rich, kpmin, layout=True, fields=fields):
        for eol in eols:
            yield dict(pos, eol=eol)


def block_positions(b, chain):
    """The positions of block b for one chain."""
    if b.get("family") == "history":
        return (dict(p, history="prior-compile") for p in positions(chain, b["kp"], b["rich"], b["kpmin"], fields=b.get("fields")))
    if b.get("family") == "eol":
        return eol_positions(chain, b["kp"], b["rich"], b["kpmin"], b.get("fields"), b.get("eols", ("crlf",)))
    if b.get("prelude"):
        return prelude_positions(chain, b["kp"], b["rich"], b["kpmin"])
    return positions(chain, b["kp"], b["rich"], b["kpmin"], fields=b.get("fields"))


def prelude_positions(chain, kp, rich, kpmin=0):
    """The prelude family: every prelude kind (placed at module level; in the rich catalogue also inside the enclosing
    block) x every position with kpmin..kp OTHER deviations."""
    kinds = PRELUDES_RICH if rich else PRELUDES_QUICK
    for pos in positions(chain, kp, rich, kpmin, layout=False):
        places = ["top"] + (["inner"] if rich and pos["wrap"] and pos["wrap"][0] == "block" else [])
        for place in places:
            for kind in kinds:
                yield dict(pos, prelude=[kind, place])


def n_pos_devs(pos):
    return sum(1 for k, v in POS0.items() if pos.get(k, v) != v)


def pos_label(pos):
    parts = []
    if pos.get("history"):
        parts.append("history=" + pos["history"])
    if pos.get("eol", "lf") != "lf":
        parts.append("eol=" + pos["eol"])
    if pos.get("prelude"):
        parts.append("prelude=" + pos["prelude"][0] + ("/inner" if pos["prelude"][1] == "inner" else ""))
    if pos["pre"]:
        parts.append("pre=" + pos["pre"])
    if pos["post"]:
        parts.append("post=" + pos["post"])
    if pos["semi"] != "tight":
        parts.append("semi=spaced")
    w = pos["wrap"]
    if w:
        if w[0] == "oneline":
            parts.append("oneline-" + w[1])
        else:
            unit = {"    ": "sp4", "\t": "tab", "  ": "sp2"}.get(w[3], repr(w[3]))
            parts.append(f"block-{w[1]}/d{w[2]}/{unit}" + (f"/sib-{w[4]}" if w[4] else ""))
    if pos.get("blank"):
        parts.append("blank-before")
    if pos.get("tail"):
        parts.append("tail-comment")
    if pos["cont"]:
        parts.append(f"cont@{pos['cont'][0]}" + ("+ws" if pos["cont"][1] else ""))
    return ",".join(parts) or "top"


def pos_class(chain, pos):
    """pos_label with the continuation boundary named by its role instead of its index."""
    lab = pos_label(dict(pos, cont=None))
    parts = [] if lab == "top" else [lab]
    if pos["cont"]:
        toks = tokens(chain)
        j = pos["cont"][0]
        role = "before-op" if toks[j + 1][1] < 0 else "after-op" if toks[j][1] < 0 else "in-seg"
        parts.append("cont-" + role + ("+ws" if pos["cont"][1] else ""))
    return ",".join(parts) or "top"


def ops_class(chain):
    return "+".join(sorted(set(chain["ops"]))) or "1seg"


def feature_class(chain):
    fs = set()
    for s in chain["segs"]:
        fs.update(a for a in s["args"] if a != BASE)
        fs.update(f for f in SEGFEATS if s[f])
    return "+".join(sorted(fs)).replace(" ", "").replace("\n", "\\n") or "-"


def in_exec_slice(chain, pos):
    """Agreeing pairs that are executed as well: two-word segments, one deviation in words or position at most."""
    if any(len(s["args"]) != 1 for s in chain["segs"]):
        return False
    return n_word_devs(chain) + n_pos_devs(pos) <= 1


# ------------------------------------------------------------------------------------------- reductions


def _copy(chain):
    return {"segs": [dict(s, args=list(s["args"])) for s in chain["segs"]], "ops": list(chain["ops"])}


def _with_cont(chain, pos):
    """The chain changed: a continuation is re-tried at every boundary of the new chain (first that still fails wins)."""
    if pos["cont"] is None:
        yield chain, pos
        return
    for j in boundaries(chain, pos["semi"]):
        yield chain, dict(pos, cont=[j, pos["cont"][1]])


def reductions(chain, pos):
    """Candidate simplifications, in a fixed order (positions first, then segments, features, words, operators)."""
    # positions
    for f in ("history", "eol", "prelude", "wrap", "cont", "pre", "post", "semi", "tail", "blank"):
        if pos.get(f, POS0[f]) != POS0[f]:
            yield chain, dict(pos, **{f: POS0[f]})
    if pos.get("eol", "lf") == "cr":
        yield chain, dict(pos, eol="crlf")
    pl = pos.get("prelude")
    if pl:
        if pl[1] != "top":
            yield chain, dict(pos, prelude=[pl[0], "top"])
        if pl[0] != "def-pos":
            yield chain, dict(pos, prelude=["def-pos", pl[1]])
    w = pos["wrap"]
    if w and w[0] == "block":
        if w[2] > 1:
            yield chain, dict(pos, wrap=["block", w[1], 1, w[3], w[4]])
        if w[4]:
            yield chain, dict(pos, wrap=["block", w[1], w[2], w[3], None])
        if w[3] != "    ":
            yield chain, dict(pos, wrap=["block", w[1], w[2], "    ", w[4]])
        if w[1] != "if":
            yield chain, dict(pos, wrap=["block", "if", w[2], w[3], w[4]])
    if w and w[0] == "oneline" and w[1] != "if":
        yield chain, dict(pos, wrap=["oneline", "if"])
    if pos["cont"] and pos["cont"][1]:
        yield chain, dict(pos, cont=[pos["cont"][0], ""])
    for f in ("pre", "post"):
        if pos[f] == "cmd":
            yield chain, dict(pos, **{f: "py"})
    if pos["semi"] == "spaced" and ";" not in chain["ops"]:
        yield chain, dict(pos, semi="tight")
    n = len(chain["segs"])
    # drop a segment (with the operator on its left, or on its right for the first one)
    if n > 1:
        for i in range(n):
            c = _copy(chain)
            del c["segs"][i]
            del c["ops"][max(i - 1, 0)]
            p = pos if ";" in c["ops"] else dict(pos, semi="tight")
            yield from _with_cont(c, p)
    # drop segment features, plain words for special words, fewer words
    for i in range(n):
        for f in SEGFEATS:
            if chain["segs"][i][f]:
                c = _copy(chain)
                c["segs"][i][f] = False
                yield from _with_cont(c, pos)
    for i in range(n):
        for j, a in enumerate(chain["segs"][i]["args"]):
            if a != BASE:
                c = _copy(chain)
                c["segs"][i]["args"][j] = BASE
                yield from _with_cont(c, pos)
    for i in range(n):
        for j, a in enumerate(chain["segs"][i]["args"]):
            if a in TQ_WORDS[1:]:  # the other quote kind is the same word for most failures
                c = _copy(chain)
                c["segs"][i]["args"][j] = TQ_WORDS[0]
                yield c, pos
            if a in NEST_RICH:  # simplest nested word of the same opener, then the simplest nested word
                for w in (next(x for x in NEST_RICH if x[:2] == a[:2]), NEST_RICH[0]):
                    if w != a:
                        c = _copy(chain)
                        c["segs"][i]["args"][j] = w
                        yield c, pos
    for i in range(n):
        for j in reversed(range(len(chain["segs"][i]["args"]))):
            c = _copy(chain)
            del c["segs"][i]["args"][j]
            yield from _with_cont(c, pos)
    for i, o in enumerate(chain["ops"]):
        if o in SIMPLER_OP:
            c = _copy(chain)
            c["ops"][i] = SIMPLER_OP[o]
            yield c, pos
