"""C08, schedule part: one thread makes the commands cache refresh (a file appears in a $PATH
directory, or $PATH is edited, followed by a lookup) while another thread queries the cache for a
command `y` that is on disk, unchanged, the whole time - all interleavings of the two real threads
with <= P preemptions (pysched; scheduling points = the lines of the CommandsCache methods that touch
the shared tables; P = 1 quick, 2 thorough).

Oracle (from the statement: every view agrees with the file system): the reader never misses `y`
(`'y' in cache`, lazyin, locate_binary, the listing) and nothing raises in either thread; once both
threads are done a plain lookup sees both the old and the new command.

Does not require: that the reader already sees the command that is appearing concurrently, or
that the writer's own lookup wins a race with another thread's refresh (a reader that overlaps a
refresh may be served the previous COMPLETE table)."""

import os
import threading

from . import common, pysched
from .session import load_session

BASE_T = 1_500_000_000

# name -> (writer trigger, reader operations)
PROGRAMS = {
    "create-vs-contains-locate-list": ("create", ["in", "locate", "list"]),
    "create-vs-lazyin-iter": ("create", ["lazyin", "iter", "in"]),
    "path-edit-vs-contains-locate-list": ("path", ["in", "locate", "list"]),
}
QUICK = ["create-vs-contains-locate-list", "path-edit-vs-contains-locate-list"]

_PROG = None
_XSH = None
_R = None
_CC = None


def _setup():
    global _XSH, _R, _CC
    _R = os.path.realpath(common.scratch_dir("c08s"))
    for d in ("d1", "d2", "home"):
        os.makedirs(os.path.join(_R, d), exist_ok=True)
    for d, n in (("d1", "y"), ("d1", "z"), ("d2", "v")):
        p = os.path.join(_R, d, n)
        with open(p, "w") as f:
            f.write("#!/bin/sh\n")
        os.chmod(p, 0o755)
    os.chdir(_R)
    _XSH = load_session(data_dir=os.path.join(_R, "home"), path=[os.path.join(_R, "d1")], env={"THREAD_SUBPROCS": False})
    for k in list(_XSH.aliases):
        del _XSH.aliases[k]
    from xonsh.commands_cache import CommandsCache

    _CC = CommandsCache
    import gc

    gc.collect()
    gc.freeze()  # pysched collects before every execution: keep the loaded session out of that walk


def _traced():
    C = _CC
    fs = [
        C.update_cache,
        C._update_and_check_changes,
        C._update_paths_cache,
        C._update_aliases_cache,
        C._iter_binaries,
        C.__contains__,
        C.__iter__,
        C.__getitem__,
        C.iter_commands,
        C.all_commands.fget,
        C.cached_name,
        C.lazyin,
        C.lazyiter,
        C.lazyget,
        C.locate_binary,
        C.lazy_locate_binary,
    ]
    # scheduling points: only the lines that read or write the state the threads share (the per-directory
    # listings, the merged table - `all_cmds` is that table while it is being built -, the remembered
    # $PATH key and alias checksum); every other line of these methods works on locals
    return pysched.shared_lines(pysched.codes_of(*fs), [r"_cmds_cache", r"_paths_cache", r"_paths_key", r"all_cmds", r"_alias_checksum", r"all_commands"])


def _fresh():
    """Initial state of one execution: d1 = {y, z}, d2 = {v}, $PATH = [d1], cache primed."""
    x = os.path.join(_R, "d1", "x")
    if os.path.lexists(x):
        os.unlink(x)
    for d in ("d1", "d2"):
        os.utime(os.path.join(_R, d), (BASE_T, BASE_T))
    _XSH.env["PATH"] = [os.path.join(_R, "d1")]
    cc = _CC(_XSH.env, _XSH.aliases)
    _XSH.commands_cache = cc
    assert "y" in cc and "z" in cc  # complete refresh before any thread starts
    return cc


def _writer(cc, trigger, out):
    try:
        if trigger == "create":
            x = os.path.join(_R, "d1", "x")
            with open(x, "w") as f:
                f.write("#!/bin/sh\n")
            os.chmod(x, 0o755)
            os.utime(os.path.join(_R, "d1"), (BASE_T + 1, BASE_T + 1))
            out["writer"] = "x" in cc
        else:
            _XSH.env["PATH"].append(os.path.join(_R, "d2"))
            out["writer"] = "v" in cc
    except Exception as e:  # noqa: BLE001
        out["errs"].append(f"writer: {type(e).__name__}: {e}")


def _reader(cc, ops, out):
    want = os.path.join(_R, "d1", "y")
    for op in ops:
        try:
            if op == "in":
                ok = "y" in cc
            elif op == "lazyin":
                ok = cc.lazyin("y")
            elif op == "locate":
                got = cc.locate_binary("y")
                ok = got is not None and os.path.samefile(got, want)
            elif op == "list":
                ok = "y" in [c for c, _ in cc.iter_commands()]
            elif op == "iter":
                ok = "y" in list(cc)
            else:
                raise AssertionError(op)
            if not ok:
                out["missed"].append(op)
        except Exception as e:  # noqa: BLE001
            out["errs"].append(f"reader {op}: {type(e).__name__}: {e}")


def _body(s):
    trigger, ops = PROGRAMS[_PROG]
    cc = _fresh()
    out = {"errs": [], "missed": [], "writer": None}
    # both are threads and the writer is started first: by default it runs first, so that one
    # preemption is enough to park it in the middle of its refresh while the reader runs
    tw = threading.Thread(target=_writer, args=(cc, trigger, out), name="writer")
    tr = threading.Thread(target=_reader, args=(cc, ops, out), name="reader")
    tw.start()
    tr.start()
    tw.join()
    tr.join()
    try:
        new = "x" if trigger == "create" else "v"
        out["final"] = {"y": "y" in cc, new: new in cc, "listing": sorted(cc)}
    except Exception as e:  # noqa: BLE001
        out["errs"].append(f"final: {type(e).__name__}: {e}")
        out["final"] = None
    return out


def _check(r, prefix):
    viols = []

    def V(key, clause, observed, expected):
        viols.append({"key": f"sched:{key}", "clause": clause, "case": {"program": _PROG, "writer": PROGRAMS[_PROG][0], "reader": PROGRAMS[_PROG][1]}, "observed": observed, "expected": expected})

    if r.outcome or r.error or r.errors:
        V(f"abnormal:{r.outcome or 'exception'}", "no deadlock / exception under any schedule", [r.outcome, r.error, r.errors], "normal completion")
        return viols
    v = r.value
    for e in v["errs"]:
        who, exc = e.split(":")[0], e.split(":")[1].strip()
        V(f"raised-{exc}:{who.replace(' ', '-')}", "a cache query never fails because another thread refreshes the cache", e, "no exception")
    for op in v["missed"]:
        V(f"reader-missed-existing-command:{op}", "a command that is on disk the whole time is never reported missing while another thread refreshes the cache", {"op": op, "answer": "y not found"}, "y found")
    if v["final"] is not None and not all(x is True for k, x in v["final"].items() if k != "listing"):
        V("final-state-wrong", "after both threads are done a lookup agrees with the file system", v["final"], "old and new command both found")
    return viols


def run_part(ctx):
    global _PROG
    bound = ctx.pick(1, 2)
    names = list(PROGRAMS) if ctx.thorough else QUICK
    _setup()
    traced = _traced()
    total = {"executions": 0, "steps": 0, "sigs": set(), "capped": None}
    per = {}
    for name in names:
        _PROG = name
        viols, st = pysched.explore(_body, _check, traced, bound, ctx, setup=_setup, max_execs_per_shard=ctx.pick(20000, 400000), budget_s=ctx.pick(25, 120))
        ctx.add_violations(viols)
        total["executions"] += st.executions
        total["steps"] += st.steps
        total["sigs"] |= st.sigs
        total["capped"] = total["capped"] or st.capped
        per[name] = st.executions
        ctx.log(f"pysched {name}: {st.executions} schedules, {st.steps} steps, {len(viols)} raw violations")
    ctx.sample({"sched_program": names[0], "writer": PROGRAMS[names[0]][0], "reader": PROGRAMS[names[0]][1], "preemption_bound": bound})
    return {"executions": total["executions"], "steps": total["steps"], "states": len(total["sigs"]), "exhaustive": total["capped"] is None, "preemption_bound": bound, "schedules_per_program": per, "capped": total["capped"]}


def replay_part(rec):
    """Re-run the recorded schedule of one program."""
    global _PROG
    _PROG = rec["case"]["program"]
    _setup()
    r = pysched.run_once(_body, rec["case"].get("schedule") or [], _traced())
    vs = _check(r, [])
    print("program", _PROG, "schedule", rec["case"].get("schedule"))
    print("observed:", r.value, r.outcome, r.error)
    for v in vs:
        print("VIOLATION" if v["key"] == rec["key"] else "also", v["key"], "| observed=", v["observed"], "expected=", v["expected"])
    return 1 if any(v["key"] == rec["key"] for v in vs) else 0
