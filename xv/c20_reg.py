"""C20, registration part: which pipelines enter the job table at all.

The BFS (xv/c20.py) and the schedule part call add_job directly; whether a started pipeline is registered
is decided before that, in xonsh.procs.specs._run_command_pipeline.  Here every pipeline shape of up to
3 stages over {real process, callable alias} is started in the background through the real Execer -
singly and as ordered pairs - in a forked child with a fresh session, and the job table is read back:
every background pipeline that contains a real process appears exactly once, under the lowest free
number, with the pids of its real processes; after the processes are gone and `jobs` has run, the table
is empty.  Foreground pipelines leave nothing behind.

Does not require: a job for a pipeline that consists of callable aliases only (there is no process to
control; xonsh registers none)."""

import itertools
import json
import os
import signal
import sys
import time

from . import common
from .session import load_session

KINDS = ["E", "A"]  # E: real process (sleep), A: callable alias


def _shapes(maxlen):
    out = []
    for n in range(1, maxlen + 1):
        out += ["".join(p) for p in itertools.product(KINDS, repeat=n)]
    return out


def _line(shape, bg, secs):
    parts = []
    for i, k in enumerate(shape):
        if k == "E":
            parts.append(f"sleep {secs}" if i == 0 else f"sh -c 'cat >/dev/null; sleep {secs}'")
        else:
            parts.append("src" if i == 0 else "sink")
    return "![" + " | ".join(parts) + (" &" if bg else "") + "]"  # explicit form: what counts as a command is C02/C03's business


def _child(case, wfd):
    shapes, bg = case
    d = common.scratch_dir("c20reg")
    xsh = load_session(data_dir=d, env={"XONSH_INTERACTIVE": False, "THREAD_SUBPROCS": True, "XONSH_SUBPROC_RAISE_ERROR": False, "XONSH_SUBPROC_CMD_RAISE_ERROR": False})
    import xonsh.procs.jobs as J

    def src(args, stdin=None, stdout=None):
        time.sleep(0.6)
        return 0

    def sink(args, stdin=None, stdout=None):
        if stdin is not None:
            stdin.read()
        return 0

    xsh.aliases["src"] = src
    xsh.aliases["sink"] = sink
    # the table of THIS session (earlier parts of the check have pointed the thread-local slots elsewhere)
    xsh.all_jobs.clear()
    J._tasks_main.clear()
    J._jobs_thread_local.jobs = xsh.all_jobs
    J._jobs_thread_local.tasks = J._tasks_main
    devnull = os.open(os.devnull, os.O_WRONLY)
    os.dup2(devnull, 1)
    os.dup2(devnull, 2)
    res = {"tables": [], "errors": []}
    my_children = set()

    def table():
        out = {}
        for n, j in xsh.all_jobs.items():
            out[str(n)] = {"pids": [p for p in j["pids"]], "bg": j["bg"], "status": j["status"]}
        return out

    def live_children():
        kids = set()
        try:
            for t in os.listdir(f"/proc/{os.getpid()}/task"):
                with open(f"/proc/{os.getpid()}/task/{t}/children") as f:
                    kids |= {int(x) for x in f.read().split()}
        except OSError:
            pass
        return kids

    try:
        for shape in shapes:
            before = live_children()
            try:
                xsh.execer.exec(_line(shape, bg, 1 if bg else 0.05) + "\n", glbs=xsh.ctx)
            except Exception as e:  # noqa: BLE001
                res["errors"].append(f"{shape}: {type(e).__name__}: {e}"[:200])
            new = sorted(live_children() - before)
            my_children |= set(new)
            if not bg:
                # a finished foreground job leaves the table at the next job-control command at the latest
                import io as _io

                try:
                    J.jobs([], stdout=_io.StringIO())
                except Exception as e:  # noqa: BLE001
                    res["errors"].append(f"jobs: {type(e).__name__}: {e}"[:200])
            res["tables"].append({"shape": shape, "new_children": new, "table": table(), "mru": list(J._tasks_main)})
        # the processes end by themselves (they are killed only if that takes too long); a job-control
        # command then cleans the table
        deadline = time.time() + 6
        while time.time() < deadline and any(j["obj"].poll() is None for j in xsh.all_jobs.values()):
            time.sleep(0.02)
        res["ended_by_themselves"] = all(j["obj"].poll() is not None for j in xsh.all_jobs.values())
        for p in sorted(my_children):
            try:
                os.kill(p, signal.SIGKILL)
            except OSError:
                pass
        deadline = time.time() + 5
        while time.time() < deadline:
            for j in list(xsh.all_jobs.values()):
                try:
                    j["obj"].poll()
                except Exception:  # noqa: BLE001
                    pass
            if all(j["obj"].poll() is not None for j in xsh.all_jobs.values()):
                break
            time.sleep(0.02)
        import io

        try:
            J.jobs([], stdout=io.StringIO())
        except Exception as e:  # noqa: BLE001
            res["errors"].append(f"jobs: {type(e).__name__}: {e}"[:200])
        res["final"] = {"table": table(), "mru": list(J._tasks_main)}
    finally:
        os.write(wfd, json.dumps(res).encode())
        os._exit(0)


def _case(case):
    shapes, bg = case
    r, w = os.pipe()
    pid = os.fork()
    if pid == 0:
        os.close(r)
        try:
            _child(case, w)
        finally:
            os._exit(3)
    os.close(w)
    data = b""
    deadline = time.time() + 60
    while True:
        import select

        if not select.select([r], [], [], max(0, deadline - time.time()))[0]:
            os.kill(pid, signal.SIGKILL)
            break
        b = os.read(r, 65536)
        if not b:
            break
        data += b
    os.close(r)
    os.waitpid(pid, 0)
    viols = []

    def V(key, clause, observed, expected):
        viols.append({"key": f"registration:{key}", "clause": clause, "case": {"part": "registration", "shapes": list(shapes), "background": bg, "lines": [_line(s, bg, 1 if bg else 0.05) for s in shapes]}, "observed": observed, "expected": expected})

    if not data:
        V(f"hang-or-crash:{'bg' if bg else 'fg'}:{'+'.join(shapes)}", "starting a pipeline returns", "no result within 60 s", "a job table")
        return {"viols": viols}
    res = json.loads(data)
    if res["errors"]:
        V(f"exception:{'bg' if bg else 'fg'}", "no exception", res["errors"], [])
    expected_jobs = 0
    for i, t in enumerate(res["tables"]):
        shape = t["shape"]
        has_proc = "E" in shape
        if bg and has_proc:
            expected_jobs += 1
        tab = t["table"]
        nums = sorted(int(n) for n in tab)
        kindsig = "mixed-ending-in-alias" if (has_proc and shape.endswith("A")) else ("mixed" if has_proc and "A" in shape else ("processes" if has_proc else "aliases-only"))
        if bg:
            if nums != list(range(1, expected_jobs + 1)):
                V(f"background-pipeline-registered-once-lowest-number:{kindsig}", "every background pipeline appears exactly once in `jobs` under the lowest free number", {"numbers": nums, "after": shape}, list(range(1, expected_jobs + 1)))
                break
            if has_proc:
                job = tab[str(expected_jobs)]
                if not set(job["pids"]) & set(t["new_children"]) or not job["bg"]:
                    V(f"job-names-its-processes:{kindsig}", "the job lists the pipeline's processes and is marked background", job, {"pids_from": t["new_children"], "bg": True})
            if sorted(t["mru"]) != nums:
                V("mru-is-permutation-of-jobs", "the most-recently-used order is a permutation of exactly the live jobs", t["mru"], nums)
        else:
            if tab:
                V(f"foreground-pipeline-leaves-no-job:{kindsig}", "finished jobs disappear", tab, {})
    if bg and res.get("ended_by_themselves") is False:
        V("background-job-finishes-when-its-processes-do", "finished jobs disappear", "the job's last stage was still running 5 s after its processes had exited", "the pipeline ends by itself")
    fin = res.get("final")
    if fin is not None and (fin["table"] or fin["mru"]):
        V("finished-jobs-disappear", "finished jobs disappear", fin, {"table": {}, "mru": []})
    return {"viols": viols}


def run_part(ctx):
    shapes = _shapes(ctx.pick(2, 3))
    items = [((s,), False) for s in shapes] + [((s,), True) for s in shapes]
    pair_shapes = _shapes(ctx.pick(2, 3)) if ctx.thorough else _shapes(2)
    items += [((a, b), True) for a in pair_shapes for b in pair_shapes]
    res = common.pmap(_case, items, ctx.jobs, chunk=1, seed=ctx.seed)
    for r in res:
        ctx.add_violations(r["viols"])
    ctx.sample({"part": "registration", "lines": [_line("EA", True, 3), _line("AE", True, 3)]})
    return {"cases": len(items), "shapes": shapes, "pairs": len(pair_shapes) ** 2}


def replay(rec):
    c = rec["case"]
    r = _case((tuple(c["shapes"]), c["background"]))
    for v in r["viols"]:
        print("VIOLATION", v["key"], v["observed"], v["expected"])
    return 1 if r["viols"] else 0
