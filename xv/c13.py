"""C13 - a crash or I/O failure while saving history never damages what was already saved.

crashx: for each history-rewriting operation of the JSON back end (background flush, flush at exit,
delete(pattern), erasedups(), the stale-lock unlock rewrite inside JsonHistoryGC.files()) and each
pre-state, the file-system operation log is recorded once; then EVERY crash point (before each
operation and after the last), EVERY torn length of every write (quick: 1, n/2, n-1) and EVERY single
failing call (per-call errno table) and EVERY short write (the call accepts 1 or n/2 bytes and returns
that count) is executed in a forked child on a copy of the pre-state.
Afterwards every xonsh-*.json history file must load with the real LazyJSON and equal either its
complete previous or its complete new version.  The SQLite back end is explored at syscall level
(strace fault injection) in xv/c13_sqlite.py, and so is - independently of which Python API the module
uses - the JSON back end in xv/c13_sys.py.

Does not require: anything about stray *.json.tmp files (they are not history files; counted only);
power-loss semantics (process-kill model: what was written stays written)."""

import json
import os
import pickle
import shutil

from . import common, crashx
from .session import load_session

LEVEL = "fault_enumeration"

NOW = 5000.0


def _hist(cmds, locked, ts0, sessionid):
    return {
        "cmds": [{"inp": c, "rtn": 0, "ts": [ts0 + i, ts0 + i + 0.5]} for i, c in enumerate(cmds)],
        "locked": locked,
        "sessionid": sessionid,
        "ts": [ts0, None if locked else ts0 + 50],
    }


STATES = {
    # name -> {file: (cmds, locked, ts0)}
    "one": {"xonsh-sess.json": (["old0", "old1 é\U0001f642"], True, 4000.0)},
    "two": {"xonsh-sess.json": (["old0", "dup"], True, 4000.0), "xonsh-other.json": (["dup", "x é", "dup", "old0"], False, 3000.0)},
    "stale": {"xonsh-stale.json": (["s0", "s1 é"], True, 1.0), "xonsh-sess.json": (["old0"], True, 4000.0)},
    "empty-session": {"xonsh-sess.json": ([], True, 4000.0)},
}

# operation -> list of pre-states it is run from
OPS = {
    "flush-bg": ["one", "empty-session", "two"],
    "flush-exit": ["one", "empty-session"],
    "delete": ["two", "one"],
    "erasedups": ["two"],
    "unlock": ["stale"],
    # a read by index from disk (readers queue up with the flushers), then an append and a flush
    "read-flush": ["one"],
}
QUICK_OPS = {"flush-bg": ["one", "empty-session"], "flush-exit": ["one"], "delete": ["two"], "erasedups": ["two"], "unlock": ["stale"], "read-flush": ["one"]}

_ROOT = None
_XSH = None


def _setup():
    global _ROOT, _XSH
    if _ROOT is not None:
        return
    _ROOT = common.scratch_dir("c13")
    _XSH = load_session(data_dir=_ROOT, env={"XONSH_STORE_STDOUT": False, "XONSH_HISTORY_SAVE_CWD": False, "HISTCONTROL": set()})
    import xonsh.lib.lazyjson as xlj

    for state, files in STATES.items():
        d = os.path.join(_ROOT, "tpl", state, "history_json")
        os.makedirs(d)
        for fname, (cmds, locked, ts0) in files.items():
            with open(os.path.join(d, fname), "w", newline="\n", encoding="utf-8") as f:
                xlj.ljdump(_hist(cmds, locked, ts0, fname[6:-5]), f, sort_keys=True)


def _load_dir(datadir):
    """{file: loaded dict | ('UNLOADABLE', reason)} for every history file, plus stray tmp count."""
    from xonsh.lib.lazyjson import LazyJSON

    d = os.path.join(datadir, "history_json")
    out = {}
    stray = 0
    for name in sorted(os.listdir(d)):
        if not (name.startswith("xonsh-") and name.endswith(".json")):
            stray += 1
            continue
        try:
            with LazyJSON(os.path.join(d, name)) as lj:
                v = lj.load()
            out[name] = {"cmds": [(c["inp"], c["rtn"], c["ts"]) for c in v["cmds"]], "locked": v.get("locked")}
        except Exception as e:  # noqa: BLE001
            out[name] = ("UNLOADABLE", f"{type(e).__name__}: {e}"[:120])
    return out, stray


def _run_op(op, datadir):
    """The operation itself, on the real code (runs inside the forked child, shims installed)."""
    import xonsh.history.json as J

    _XSH.env["XONSH_DATA_DIR"] = datadir
    d = os.path.join(datadir, "history_json")
    sess = os.path.join(d, "xonsh-sess.json")
    if op in ("flush-bg", "flush-exit"):
        h = J.JsonHistory(filename=sess, sessionid="sess", buffersize=10, gc=False, save_cwd=False)
        h.append({"inp": "new1", "rtn": 0, "ts": [4500.0, 4500.5]})
        h.append({"inp": "new2 é", "rtn": 1, "ts": [4501.0, 4501.5]})
        t = h.flush(at_exit=(op == "flush-exit"))
        if t is not None and t.ident is not None:
            t.join()
    elif op == "delete":
        h = J.JsonHistory(filename=sess, sessionid="sess", buffersize=10, gc=False, save_cwd=False)
        h.delete("^(dup|old0)")
    elif op == "erasedups":
        h = J.JsonHistory(filename=sess, sessionid="sess", buffersize=10, gc=False, save_cwd=False)
        h.erasedups()
    elif op == "unlock":
        gc = J.JsonHistoryGC.__new__(J.JsonHistoryGC)
        gc.files(only_unlocked=True)
    elif op == "read-flush":
        h = J.JsonHistory(filename=sess, sessionid="sess", buffersize=10, gc=False, save_cwd=False)
        h._len = 2  # the session file of this pre-state holds two saved commands
        try:
            h.inps[0]  # read from disk; a failing read may raise - it must not wedge what follows
        except Exception:  # noqa: BLE001
            pass
        h.append({"inp": "new1", "rtn": 0, "ts": [4500.0, 4500.5]})
        t = h.flush()
        if t is not None and t.ident is not None:
            t.join()
    else:
        raise AssertionError(op)


def _child(op, state, case, want_log=False):
    """Run one (operation, pre-state, fault) in a forked child; return (exit status, datadir, log)."""
    casedir = common.scratch_dir("case")
    shutil.rmtree(casedir)
    shutil.copytree(os.path.join(_ROOT, "tpl", state), casedir)
    logpath = os.path.join(casedir, ".oplog")
    pid = os.fork()
    if pid == 0:
        code = 0
        try:
            import xonsh.history.json as J
            import xonsh.lib.lazyjson as L

            inj = crashx.Injector(*case)
            o, osh, tsh = crashx.make_shims(inj, stat_seam=True)
            J.open = o
            J.os = osh
            J.tempfile = tsh
            J.time = crashx.ShimModule(J.time, time=lambda: NOW)
            L.open = o
            devnull = os.open(os.devnull, os.O_WRONLY)
            os.dup2(devnull, 1)
            os.dup2(devnull, 2)
            import signal

            signal.signal(signal.SIGALRM, signal.SIG_DFL)
            signal.alarm(40)  # an operation that never returns ends here (reported as a hang)
            try:
                _run_op(op, casedir)
            except BaseException as e:  # noqa: BLE001
                code = 3
                with open(logpath + ".exc", "w") as f:
                    f.write(f"{type(e).__name__}: {e}")
            if want_log:
                with open(logpath, "wb") as f:
                    pickle.dump(inj.log, f)
            with open(logpath + ".fired", "w") as f:
                f.write("1" if inj.fired else "0")
        finally:
            os._exit(code)
    _, status = os.waitpid(pid, 0)
    log = None
    if want_log and os.path.exists(logpath):
        with open(logpath, "rb") as f:
            log = pickle.load(f)
    exc = None
    if os.path.exists(logpath + ".exc"):
        exc = open(logpath + ".exc").read()
    for p in (logpath, logpath + ".exc", logpath + ".fired"):
        if os.path.exists(p):
            os.unlink(p)
    return os.waitstatus_to_exitcode(status), casedir, log, exc


_BASE = {}  # (op, state) -> (pre, post, log)


def _baseline(op, state):
    key = (op, state)
    if key not in _BASE:
        pre, _ = _load_dir(os.path.join(_ROOT, "tpl", state))
        rc, d, log, exc = _child(op, state, ("record", None, None), want_log=True)
        if rc != 0 or log is None:
            raise common.ToolError(f"fault-free run of {op}/{state} failed: rc={rc} {exc}")
        post, _ = _load_dir(d)
        shutil.rmtree(d, ignore_errors=True)
        _BASE[key] = (pre, post, log)
    return _BASE[key]


def _damage_kind(got, pre, post):
    if isinstance(got, tuple):
        return "unloadable"
    if got is None:
        return "file-missing"
    pc, qc = [c[0] for c in pre["cmds"]] if pre else [], [c[0] for c in post["cmds"]] if post else []
    gc = [c[0] for c in got["cmds"]]
    if pre and not all(c in gc for c in pc) and gc != qc:
        return "saved-commands-lost"
    return "neither-old-nor-new"


def _run_case(item):
    op, state, case = item
    pre, post, log = _baseline(op, state)
    rc, d, _, exc = _child(op, state, case)
    got, stray = _load_dir(d)
    shutil.rmtree(d, ignore_errors=True)
    viols = []
    mode, idx, arg = case
    if rc == -14:  # SIGALRM: the operation never returned
        viols.append({"key": f"{op}:hang:{mode}:{log[idx][0] if idx < len(log) else 'end'}", "clause": "a failure while saving never damages what was already saved (later saves still complete)", "case": {"op": op, "state": state, "fault": [mode, idx, arg], "oplog": [list(x) for x in log]}, "observed": "the operation did not return within 40 s", "expected": "it completes or raises"})
    opkind = log[idx][0] if idx < len(log) else "end"
    opfile = log[idx][1] if idx < len(log) else None
    for name in sorted(set(pre) | set(post) | set(got)):
        g = got.get(name)
        if g is not None and (g == pre.get(name) or g == post.get(name)):
            continue
        if g is None and name not in pre:
            continue  # new file not created yet
        kind = _damage_kind(g, pre.get(name), post.get(name))
        filekind = name[6:-5]
        viols.append(
            {
                "key": f"{op}:{filekind}:{mode}:{opkind}:{kind}",
                "clause": "each history file is its complete previous or complete new version",
                "case": {"op": op, "state": state, "fault": [mode, idx, arg], "faulted_operation": [opkind, opfile], "oplog": [list(x) for x in log]},
                "observed": {name: g if not isinstance(g, tuple) else list(g)},
                "expected": {"previous": pre.get(name), "new": post.get(name)},
                "note": f"child rc={rc} exc={exc}",
            }
        )
    return {"viols": viols, "stray": stray, "damaged": bool(viols), "opkind": opkind, "mode": mode}


def run(ctx):
    _setup()
    ops = OPS
    items = []
    per_op = {}
    for op, states in ops.items():
        for state in states:
            pre, post, log = _baseline(op, state)
            if pre == post:
                raise common.ToolError(f"{op}/{state}: operation changed nothing - vacuous")
            cases = crashx.fault_cases(log, all_tears=ctx.thorough)
            per_op[f"{op}/{state}"] = {"ops": len(log), "cases": len(cases)}
            for c in cases:
                items.append((op, state, c))
    ctx.log(f"{len(items)} fault cases over {len(per_op)} (operation, pre-state) pairs: {per_op}")
    res = common.pmap(_run_case, items, ctx.jobs, chunk=8, init=_setup, seed=ctx.seed)
    for r in res:
        ctx.add_violations(r["viols"])
    sq = None
    try:
        from . import c13_sqlite
    except ImportError:
        c13_sqlite = None
    st = None
    if c13_sqlite is not None:
        sq = c13_sqlite.run_part(ctx)
        st = c13_sqlite.run_stmt_part(ctx)
    sy = None
    try:
        from . import c13_sys
    except ImportError:
        c13_sys = None
    if c13_sys is not None:
        sy = c13_sys.run_part(ctx)
    ctx.sample({"op": "flush-bg", "state": "one", "oplog": [list(x) for x in _BASE[("flush-bg", "one")][2]]})
    ctx.sample({"fault": ["tear", 3, 1], "meaning": "write #3 puts 1 byte then the process dies"})
    ctx.coverage.update(
        evaluations=len(items) + (sq["evaluations"] if sq else 0) + (sy["evaluations"] if sy else 0),
        distinct_nontrivial=len({(i[0], i[1], i[2]) for i in items if i[2][1] < per_op[f"{i[0]}/{i[1]}"]["ops"]}) + (sq["distinct"] if sq else 0) + (sy["distinct"] if sy else 0),
        rule="every crash point, torn-write length (quick: 1, n/2, n-1; thorough: all) and single failing call (errno table per call kind) of the recorded operation log of each (operation, pre-state); non-trivial = the fault hits a real operation of the log (the after-the-end crash is the control)",
        exhaustive=True,
        per_operation=per_op,
        stray_tmp_files_seen=sum(r["stray"] for r in res),
        sqlite_part=sq["summary"] if sq else "not run",
        json_syscall_part=sy["summary"] if sy else "not run",
        sqlite_statement_part=st["summary"] if st else "not run",
    )
    ctx.assumptions += ["process-kill crash model (written data survives); buffering decided by CPython's real io stack", "time.time is constant inside the history module so that old/new versions are comparable"]


def replay(rec):
    _setup()
    c = rec["case"]
    if c.get("tier") == "sqlite-statement":
        from . import c13_sqlite

        return c13_sqlite.replay_stmt(rec)
    if c.get("tier") == "syscall":
        from . import c13_sys

        return c13_sys.replay(rec)
    r = _run_case((c["op"], c["state"], tuple(c["fault"])))
    pre, post, log = _baseline(c["op"], c["state"])
    print("operation log:")
    for i, x in enumerate(log):
        print("  ", i, x)
    for v in r["viols"]:
        print("VIOLATION", v["key"])
        print("  observed:", json.dumps(v["observed"], default=str)[:400])
        print("  previous:", json.dumps(v["expected"]["previous"], default=str)[:300])
        print("  new     :", json.dumps(v["expected"]["new"], default=str)[:300])
    return 1 if r["viols"] else 0
